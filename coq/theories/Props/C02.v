(* C02 — property theorems.  Statements only: each is closed by [exact] of a lemma proved elsewhere. *)
From QT Require Import Expr.Spec Expr.EvalThm Expr.OrderThm Expr.Deps Expr.FuncInfo C02.GenOk C02.Run Gen.FuncTable.
Open Scope Z_scope.
Open Scope string_scope.
Open Scope list_scope.

(* An earlier version of this file stated the headline under a hypothesis [order_laws] ("< is a strict weak order on every
   non-NaN [pyval]").  That hypothesis is FALSE: [pyval] also contains mantissa/exponent pairs that are not canonical binary64
   data (which no Python float is); on those SFcompare is not the numeric order.  The theorem was therefore vacuous and has
   been removed; the refutation stays as a record, the laws are now proved on the values that exist, and the headline
   [C02_eval_matches_reference] below has only decidable premises about the inputs. *)
Theorem C02_order_laws_need_canonical_floats : ~ order_laws.
Proof. exact order_laws_refuted_on_noncanonical. Qed.
Print Assumptions C02_order_laws_need_canonical_floats.

(* On the values the evaluator can meet — bool, int, every non-NaN canonical binary64 float, in all mixed combinations —
   the four laws are theorems: > is the converse of <, < is irreflexive, transitive, and incomparability is transitive. *)
Theorem C02_order_laws_hold : order_laws_on (fun v => good_val v = true).
Proof. exact order_laws_good. Qed.
Print Assumptions C02_order_laws_hold.

(* ... so the evaluator computes the reference semantics with no law hypothesis: the only premise left is the decidable
   "every value reaching a MIN / MAX / SGN call is neither NaN nor a non-canonical float". *)
Theorem C02_eval_matches_reference_closed :
  forall c e, sensitive_args_good c e = true -> eval sgn_int_first c e = sem c e.
Proof. exact eval_matches_reference_closed. Qed.
Print Assumptions C02_eval_matches_reference_closed.

(* the new premise implies the old one *)
Theorem C02_sensitive_args_good_nan_free :
  forall c e, sensitive_args_good c e = true -> nan_sensitive_free c e = true.
Proof. exact sensitive_args_good_nan_free. Qed.
Print Assumptions C02_sensitive_args_good_nan_free.

(* MIN / MAX over good arguments (mixed int / bool / float) are the first minimum / maximum *)
Theorem C02_MIN_is_first_minimum_on_good_values :
  forall m t, forallb good_val (m :: t) = true -> Val (min_loop m t) = spec_min (m :: t).
Proof. exact min_agrees_good. Qed.
Print Assumptions C02_MIN_is_first_minimum_on_good_values.

Theorem C02_MAX_is_first_maximum_on_good_values :
  forall m t, forallb good_val (m :: t) = true -> Val (max_loop m t) = spec_max (m :: t).
Proof. exact max_agrees_good. Qed.
Print Assumptions C02_MAX_is_first_maximum_on_good_values.

(* Canonicity is preserved: over a context whose port values are canonical and with canonical literals, every value an
   expression evaluates to is canonical (SFadd/SFsub/SFmul/SFdiv, float(int), int/int, fmod, round all end in the rounding
   core, which yields valid_binary data) ... *)
Theorem C02_eval_produces_canonical_values :
  forall c e v, ctx_canonical c = true -> lits_canonical e = true -> eval sgn_int_first c e = Val v -> canonical_val v = true.
Proof. exact eval_value_canonical. Qed.
Print Assumptions C02_eval_produces_canonical_values.

(* HEADLINE.  The evaluator — eager functions through gather, AND/OR/IF/AVAILABLE/DEFAULT awaiting exactly the arguments the
   code awaits, MIN/MAX/LUT loops, SGN as regenerated from sign.py — computes the reference semantics [sem] for every
   expression tree and every context whose port values and literals are canonical binary64 data (checked on every case of
   the correspondence: C02.Run.noncanonical_cases, the same test by C02_inputs_test_is_the_premise), provided no NaN reaches a
   MIN / MAX / SGN call (where the reference is silent).  No hypothesis about the order. *)
Theorem C02_eval_matches_reference :
  forall c e, ctx_canonical c = true -> lits_canonical e = true -> nan_sensitive_free c e = true ->
    eval sgn_int_first c e = sem c e.
Proof. exact eval_matches_reference_canonical. Qed.
Print Assumptions C02_eval_matches_reference.

Theorem C02_inputs_test_is_the_premise :
  forall c e, C02.Run.run_ctx_canonical c && C02.Run.run_lits_canonical e = ctx_canonical c && lits_canonical e.
Proof. exact run_canonical_same. Qed.
Print Assumptions C02_inputs_test_is_the_premise.

(* the same for MIN over integer / boolean arguments with no premise at all *)
Theorem C02_MIN_is_first_minimum_on_integers :
  forall m t, Forall is_intlike (m :: t) -> Val (min_loop m t) = spec_min (m :: t).
Proof. exact min_agrees_intlike. Qed.
Print Assumptions C02_MIN_is_first_minimum_on_integers.

(* laziness: sub-expressions after the deciding one / in the branch not taken are irrelevant, whatever they are *)
Theorem C02_IF_true_ignores_else :
  forall s c cnd a b v, eval s c cnd = Val v -> py_truth v = true ->
    forall b', eval s c (Call "IF" [cnd; a; b]) = eval s c (Call "IF" [cnd; a; b']).
Proof. exact eval_IF_true. Qed.
Print Assumptions C02_IF_true_ignores_else.

Theorem C02_IF_false_ignores_then :
  forall s c cnd a b v, eval s c cnd = Val v -> py_truth v = false ->
    forall a', eval s c (Call "IF" [cnd; a; b]) = eval s c (Call "IF" [cnd; a'; b]).
Proof. exact eval_IF_false. Qed.
Print Assumptions C02_IF_false_ignores_then.

Theorem C02_AND_lazy :
  forall s c pre x post v,
    Forall (fun a => truthy (eval s c a) = true) pre -> eval s c x = Val v -> py_truth v = false ->
    forall post', eval s c (Call "AND" (pre ++ x :: post)) = Val (VInt 0)
                  /\ eval s c (Call "AND" (pre ++ x :: post')) = Val (VInt 0).
Proof. exact eval_AND_decided. Qed.
Print Assumptions C02_AND_lazy.

Theorem C02_OR_lazy :
  forall s c pre x post v,
    Forall (fun a => falsy (eval s c a) = true) pre -> eval s c x = Val v -> py_truth v = true ->
    forall post', eval s c (Call "OR" (pre ++ x :: post)) = Val (VInt 1)
                  /\ eval s c (Call "OR" (pre ++ x :: post')) = Val (VInt 1).
Proof. exact eval_OR_decided. Qed.
Print Assumptions C02_OR_lazy.

Theorem C02_DEFAULT_lazy :
  forall s c a b v, eval s c a = Val v ->
    forall b', eval s c (Call "DEFAULT" [a; b]) = Val v /\ eval s c (Call "DEFAULT" [a; b']) = Val v.
Proof. exact eval_DEFAULT_available. Qed.
Print Assumptions C02_DEFAULT_lazy.

(* eager functions have no value as soon as one argument has none *)
Theorem C02_eager_no_value_if_argument_fails :
  forall s c f args a k, eager_name f = true -> In a args -> eval s c a = Fail k ->
    exists ks, eval s c (Call f args) = Fail ks.
Proof. exact eager_no_value_if_argument_fails. Qed.
Print Assumptions C02_eager_no_value_if_argument_fails.

(* inputs outside a function's domain never yield a value *)
Theorem C02_DIV_by_zero : forall s c x y, py_truth y = false -> apply_fn s c "DIV" [x; y] = Fail [KErr].
Proof. exact DIV_by_falsy. Qed.
Print Assumptions C02_DIV_by_zero.

Theorem C02_MOD_by_zero : forall s c x y, py_truth y = false -> apply_fn s c "MOD" [x; y] = Fail [KErr].
Proof. exact MOD_by_falsy. Qed.
Print Assumptions C02_MOD_by_zero.

Theorem C02_non_finite_unary :
  forall s c f v, In f ["FLOOR"; "CEIL"; "BITNOT"] -> non_finite v -> exists ks, apply_fn s c f [v] = Fail ks.
Proof. exact no_value_on_non_finite. Qed.
Print Assumptions C02_non_finite_unary.

Theorem C02_non_finite_binary :
  forall s c f v w, In f ["BITAND"; "BITOR"; "BITXOR"; "SHL"; "SHR"] -> non_finite v \/ non_finite w ->
    exists ks, apply_fn s c f [v; w] = Fail ks.
Proof. exact no_value_on_non_finite2. Qed.
Print Assumptions C02_non_finite_binary.

Theorem C02_negative_shift :
  forall s c f x n, In f ["SHL"; "SHR"] -> n < 0 -> exists ks, apply_fn s c f [VInt x; VInt n] = Fail ks.
Proof. exact negative_shift_no_value. Qed.
Print Assumptions C02_negative_shift.

(* unknown / disabled ports are errors, ports without a value are "unavailable", others give their value *)
Theorem C02_port_unknown : forall c id, assoc id (ports c) = None -> eval_port_value c id = Fail [KErr].
Proof. exact port_unknown. Qed.
Print Assumptions C02_port_unknown.
Theorem C02_port_disabled : forall c id, assoc id (ports c) = Some false -> eval_port_value c id = Fail [KErr].
Proof. exact port_disabled. Qed.
Print Assumptions C02_port_disabled.
Theorem C02_port_unavailable :
  forall c id, assoc id (ports c) = Some true ->
    (assoc id (port_values c) = None \/ assoc id (port_values c) = Some None) -> eval_port_value c id = Fail [KUnavail].
Proof. exact port_unavailable. Qed.
Print Assumptions C02_port_unavailable.
Theorem C02_port_available :
  forall c id v, assoc id (ports c) = Some true -> assoc id (port_values c) = Some (Some v) -> eval_port_value c id = Val v.
Proof. exact port_available. Qed.
Print Assumptions C02_port_available.

(* evaluation looks at nothing but the reported dependencies *)
Theorem C02_deps_sound : forall s e c1 c2, agree_on e c1 c2 -> eval s c1 e = eval s c2 e.
Proof. exact deps_sound. Qed.
Print Assumptions C02_deps_sound.

(* the registry regenerated from the source has the shapes, DEPS and arities the model assumes *)
Theorem C02_registry_shapes : forallb shape_ok stateless_names = true.
Proof. exact shapes_ok. Qed.
Print Assumptions C02_registry_shapes.
Theorem C02_registry_deps : forallb deps_ok stateless_names = true.
Proof. exact table_deps_ok. Qed.
Print Assumptions C02_registry_deps.

(* non-vacuity: a concrete nested expression over a context meets the premise and evaluates *)
Example C02_nonvacuous :
  let c := {| port_values := [("p1", Some (VInt 3))]; ports := [("p1", true)]; now_ms := 1000; self_id := None;
              self_last := None; transform_role := false |} in
  let e := Call "MIN" [PortVal "p1"; Call "ADD" [Lit (Some (VInt 1)); Lit (Some (VInt 1))]; Call "SGN" [Lit (Some (VInt (-4)))]] in
  nan_sensitive_free c e = true /\ eval sgn_int_first c e = Val (VInt (-1))
  /\ sensitive_args_good c e = true /\ ctx_canonical c = true /\ lits_canonical e = true.
Proof. vm_compute. repeat split; reflexivity. Qed.
