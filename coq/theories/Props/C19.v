(* C19 — property theorems.  Statements only: each is closed by [exact] of a lemma proved under theories/C19/.
   Model: C19/Model.v (task steps of Sequence._loop over virtual milliseconds; the port; scenarios).
   Spec: C19/Spec.v (closed-form schedule).  [start g vs ds r t0] = a sequence just installed at t0 by set_sequence. *)
From QT Require Import Base.Prelude C19.Model C19.Spec C19.SchedThm C19.CancelThm C19.SimThm.
Open Scope Z_scope.

(* repeat r > 0: the uninterrupted playback is exactly the r-fold schedule — value k of pass j at
   t0 + j * (d_0 + ... + d_(n-1)) + (d_0 + ... + d_(k-1)) — followed by one finish call-back in the step of the last
   submission, after which no sequence is active (C19_schedule and C19_finishes in one equation: event list and state) *)
Theorem C19_schedule :
  forall g vs ds r, (0 < List.length vs)%nat -> List.length ds = List.length vs -> forall t0, 0 < r ->
    run_task ((Z.to_nat r - 1) * S (List.length vs) + List.length vs) (start g vs ds r t0) =
      (evs_of (shift t0 (schedule vs ds (Z.to_nat r)))
         ++ [Fin (t0 + (r - 1) * total ds + prefix_sum ds (List.length vs - 1))], None).
Proof. exact playback_finite. Qed.
Print Assumptions C19_schedule.

Theorem C19_finishes :
  forall g vs ds r, (0 < List.length vs)%nat -> List.length ds = List.length vs -> forall t0, 0 < r ->
    let N := ((Z.to_nat r - 1) * S (List.length vs) + List.length vs)%nat in
    snd (run_task N (start g vs ds r t0)) = None /\
    fins (fst (run_task N (start g vs ds r t0))) = [t0 + (r - 1) * total ds + prefix_sum ds (List.length vs - 1)] /\
    subs (fst (run_task N (start g vs ds r t0))) = shift t0 (schedule vs ds (Z.to_nat r)).
Proof. exact playback_finishes. Qed.
Print Assumptions C19_finishes.

(* any repeat count (always applicable for r <= 0, "indefinitely"): every partial playback is whole passes of the schedule
   followed by a prefix of the next pass *)
Theorem C19_schedule_prefix :
  forall g vs ds r, (0 < List.length vs)%nat -> List.length ds = List.length vs ->
  forall t0 j k, (r <= 0 \/ Z.of_nat j < r) -> (k <= List.length vs)%nat ->
    subs (fst (run_task (j * S (List.length vs) + k) (start g vs ds r t0))) =
      shift t0 (schedule vs ds j ++ firstn k (pass vs ds (Z.of_nat j * total ds))).
Proof. exact playback_prefix. Qed.
Print Assumptions C19_schedule_prefix.

Theorem C19_endless_never_finishes :
  forall g vs ds r, (0 < List.length vs)%nat -> List.length ds = List.length vs ->
  forall t0 j k, r <= 0 -> (k <= List.length vs)%nat ->
    fins (fst (run_task (j * S (List.length vs) + k) (start g vs ds r t0))) = [] /\
    snd (run_task (j * S (List.length vs) + k) (start g vs ds r t0)) <> None.
Proof. exact playback_endless. Qed.
Print Assumptions C19_endless_never_finishes.

(* the same at the level that is tied to the implementation: a scenario without command *)
Theorem C19_schedule_scenario :
  forall fuel sc,
    sc_enabled sc = true -> sc_writable sc = true -> sc_expr sc = false -> sc_cmd sc = CNone ->
    let vs := sd_vals (sc_seq sc) in let ds := sd_delays (sc_seq sc) in let r := sd_repeat (sc_seq sc) in
    vs <> [] -> List.length ds = List.length vs ->
    exists l a j k, (k <= List.length vs)%nat /\ (r <= 0 \/ Z.of_nat j < r) /\
      sim true fuel sc = MP OOk true :: l ++ [ME (sc_horizon sc) a] /\
      msubs l = schedule vs ds j ++ firstn k (pass vs ds (Z.of_nat j * total ds)).
Proof. exact sim_schedule. Qed.
Print Assumptions C19_schedule_scenario.

(* a new sequence, an expression, an empty expression or disable at time [at] — placed after [pos] steps of the sequence
   task due at that very instant — is accepted; everything the old sequence (generation 0) submits precedes the command
   and is timed < at, or = at for steps ordered before the command (pos > 0); after the command only the new sequence
   (generation 1) appears *)
Theorem C19_cancel_immediate :
  forall fuel sc,
    sc_enabled sc = true -> sc_writable sc = true -> sc_expr sc = false ->
    List.length (sd_vals (sc_seq sc)) = List.length (sd_delays (sc_seq sc)) ->
    cancelling (sc_cmd sc) -> sc_at sc <= sc_horizon sc ->
    exists a0 l1 a td a' l2,
      sim true fuel sc = MP OOk a0 :: l1 ++ [MC (sc_at sc) a; MD td OOk a'] ++ l2 /\
      sc_at sc <= td <= sc_at sc + dpos (sc_dlat sc) /\
      (forall m, In m l1 -> before_cmd 0 (sc_at sc) (sc_pos sc) m) /\
      (forall m, In m l2 -> after_cmd m).
Proof. exact cancel_immediate. Qed.
Print Assumptions C19_cancel_immediate.

(* exact tie, command first (pos = 0): the cancellation wins, nothing is submitted at that instant *)
Theorem C19_cancel_wins_tie :
  forall g at_ m, before_cmd g at_ 0 m -> match m with MSub _ t _ | MFin _ t => t < at_ | _ => False end.
Proof. exact cancel_wins_tie. Qed.
Print Assumptions C19_cancel_wins_tie.

(* refusals: malformed lengths, disabled, read-only, expression — in this order; the port is left as it was *)
Theorem C19_refused :
  forall guard g p sd now o, refusal p sd = Some o -> patch guard g p sd now = (o, p) /\ o <> OOk.
Proof. exact patch_refused. Qed.
Print Assumptions C19_refused.

Theorem C19_refused_when :
  forall p sd,
    p_enabled p = false \/ p_writable p = false \/ p_expr p = true \/
    List.length (sd_vals sd) <> List.length (sd_delays sd) -> exists o, refusal p sd = Some o.
Proof. exact refusal_cases. Qed.
Print Assumptions C19_refused_when.

Theorem C19_refused_scenario :
  forall guard fuel sc o,
    refusal (Port (sc_enabled sc) (sc_writable sc) (sc_expr sc) None) (sc_seq sc) = Some o -> sc_cmd sc = CNone ->
    sim guard fuel sc = [MP o false; ME (sc_horizon sc) false] /\ o <> OOk.
Proof. exact refused_scenario. Qed.
Print Assumptions C19_refused_scenario.

(* non-vacuity *)
Example C19_schedule_example :
  schedule [1; 2; 3] [100; 200; 300] 2 = [(0, 1); (100, 2); (300, 3); (600, 1); (700, 2); (900, 3)].
Proof. vm_compute. reflexivity. Qed.

Example C19_scenario_example :
  sim true 50 (Scenario true true false (SeqDef [1; 2; 3] [100; 200; 300] 2) CNone 0 0 2000 0) =
    [MP OOk true; MSub 0 0 1; MSub 0 100 2; MSub 0 300 3; MSub 0 600 1; MSub 0 700 2; MSub 0 900 3; MFin 0 900;
     ME 2000 false].
Proof. vm_compute. reflexivity. Qed.

(* replacement exactly at the re-arm instant, after the task step that created the new task: accepted, new sequence plays *)
Example C19_rearm_tie_example :
  sim true 50 (Scenario true true false (SeqDef [1; 2] [100; 200] 0) (CSeq (SeqDef [101; 102] [10; 20] 1)) 300 1 1000 0) =
    [MP OOk true; MSub 0 0 1; MSub 0 100 2; MC 300 true; MD 300 OOk true; MSub 1 300 101; MSub 1 310 102; MFin 1 310;
     ME 1000 false].
Proof. vm_compute. reflexivity. Qed.

(* exact tie with a firing, task first (pos = 1): the value of that instant precedes the command *)
Example C19_fire_first_tie_example :
  sim true 50 (Scenario true true false (SeqDef [1; 2] [100; 200] 0) CDisable 100 1 400 0) =
    [MP OOk true; MSub 0 0 1; MSub 0 100 2; MC 100 true; MD 100 OOk false; ME 400 false].
Proof. vm_compute. reflexivity. Qed.

Example C19_refused_example :
  sim true 50 (Scenario false true false (SeqDef [1; 2] [100; 200] 1) CNone 0 0 400 0) = [MP ODisabled false; ME 400 false].
Proof. vm_compute. reflexivity. Qed.

(* two commands (new sequence / disable) started in the same loop iteration, anywhere: once both have returned, everything
   submitted up to the horizon belongs to one sequence generation g — the port never plays two sequences and no sequence is
   left playing unreferenced (code with fixes/C19-concurrent-cancel.diff; the unfixed code: History/C19Old.v) *)
Theorem C19_concurrent_single_survivor :
  forall fuel sc c2,
    exists pre l2 a g,
      sim2 fuel sc c2 = pre ++ map M1 l2 ++ [M1 (ME (sc_horizon sc) a)] /\
      (exists t o b, last pre (MD2 0 OOk false) = MD2 t o b \/ last pre (MD2 0 OOk false) = M1 (MD t o b)) /\
      (forall m, In m l2 -> before_cmd g (sc_horizon sc + 1) 0 m).
Proof. exact pair_single_survivor. Qed.
Print Assumptions C19_concurrent_single_survivor.

(* two replacement requests while [1,2]/[30,30]/endless is playing: the second is served first, submits its first value,
   is then cancelled by the first request when that one resumes; only [101,102] plays on *)
Example C19_concurrent_requests_example :
  map enc2 (sim2 60 (Scenario true true false (SeqDef [1; 2] [30; 30] 0) (CSeq (SeqDef [101; 102] [40; 40] 0)) 45 0 200 0)
                 (CSeq (SeqDef [201; 202] [50; 50] 0))) =
    [(0, 0, 0, true); (1, 0, 1, true); (1, 30, 2, true); (3, 45, 0, true); (6, 45, 0, true); (1, 45, 201, true);
     (4, 45, 0, true); (1, 45, 101, true); (1, 85, 102, true); (1, 125, 101, true); (1, 165, 102, true); (5, 200, 0, true)].
Proof. vm_compute. reflexivity. Qed.

(* disable concurrent with a request: nothing plays afterwards, whichever comes first *)
Example C19_concurrent_disable_example :
  map enc2 (sim2 60 (Scenario true true false (SeqDef [1; 2] [30; 30] 0) CDisable 45 0 200 0)
                 (CSeq (SeqDef [201; 202] [50; 50] 0))) =
    [(0, 0, 0, true); (1, 0, 1, true); (1, 30, 2, true); (3, 45, 0, true); (6, 45, 0, true); (1, 45, 201, true);
     (4, 45, 0, false); (5, 200, 0, false)]
  /\
  map enc2 (sim2 60 (Scenario true true false (SeqDef [1; 2] [30; 30] 0) (CSeq (SeqDef [101; 102] [40; 40] 0)) 45 0 200 0)
                 CDisable) =
    [(0, 0, 0, true); (1, 0, 1, true); (1, 30, 2, true); (3, 45, 0, true); (6, 45, 0, false); (4, 45, 0, false);
     (5, 200, 0, false)].
Proof. split; vm_compute; reflexivity. Qed.

(* a slow handle_disable() hook: the sequence is cancelled before the hook runs; disable returns 30 ms later *)
Example C19_slow_disable_example :
  sim true 50 (Scenario true true false (SeqDef [1; 2] [10; 10] 0) CDisable 15 0 80 30) =
    [MP OOk true; MSub 0 0 1; MSub 0 10 2; MC 15 true; MD 45 OOk false; ME 80 false].
Proof. vm_compute. reflexivity. Qed.
