(* C12 — property theorems.  Statements only: each is closed by [exact] of a lemma proved elsewhere.
   The model is C12/Mirror.v (the master's mirror of one slave, message level), the specification C12/Spec.v (the slave's own
   state, [apply], [synced], [reported]).  [c : cfg] selects the variant of three statements that only matter while something is
   pending provisioning (C13); every theorem here holds for every variant. *)
From QT Require Import C12.Mirror C12.Spec C12.ResyncThm C12.MirrorThm C12.OrderThm C12.AttrThm C12.GenOk Gen.C12Gen.
Open Scope string_scope.

(* once the master has handled every event the slave reported, its mirror equals the slave's state: same ports (by id, no
   others), same attributes, newest value held = the slave's value, enabled mirror, same device attributes *)
Theorem C12_mirror_after_events : forall c evs m s,
  synced m s -> wf_events s evs -> synced (handle_all c evs m) (apply_all evs s).
Proof. exact mirror_after_events. Qed.
Print Assumptions C12_mirror_after_events.

(* after fetch_and_update_ports against the slave's ports the master holds exactly one port per slave port and no others, each
   equal to the slave's, whatever (not pending) mirror it held before: stale ports are removed, missing ones added *)
Theorem C12_resync : forall c ports m,
  let s' := map (fun x => sport_of_json (fst x)) ports in
  no_pending m -> NoDup (ids (m_ports m)) -> snapshot_ok ports ->
  Forall (fun x => aux_ok (mk_slave s' []) (fst x) (snd x)) ports ->
  let m' := fetch_ports c ports m in
  NoDup (ids (m_ports m')) /\
  (forall id, In id (ids (m_ports m')) <-> In (Some id) (json_ids ports)) /\
  (forall id, match find_port id (m_ports m'), find_sport id s' with
              | Some p, Some sp => port_rel p sp | None, None => True | _, _ => False end).
Proof. exact resync. Qed.
Print Assumptions C12_resync.

(* for every interleaving of reported events and iterations of the master's main loop: the values read for a port so far,
   followed by those still queued, are the values the slave reported for it, in the same order, none missing (adjacent repeats
   removed); once the queue is drained they have all been read *)
Theorem C12_value_order : forall c id sched m p,
  find_port id (m_ports m) = Some p -> mp_enabled p = true -> mp_prov p = [] -> mp_reads p = [] ->
  Forall (stable id) sched ->
  exists p', find_port id (m_ports (srun c sched m)) = Some p' /\ mp_enabled p' = true /\
    dedup (mp_cached_value p :: mp_reads p' ++ mp_queue p') =
    dedup (mp_cached_value p :: mp_queue p ++ reported_all id sched).
Proof. exact value_order. Qed.
Print Assumptions C12_value_order.

Theorem C12_queue_drains : forall n m id p,
  find_port id (m_ports m) = Some p -> mp_enabled p = true -> (List.length (mp_queue p) <= n)%nat ->
  exists p', find_port id (m_ports (ticks n m)) = Some p' /\ mp_queue p' = [] /\
             mp_reads p' = (mp_reads p ++ mp_queue p)%list /\ mp_enabled p' = true.
Proof. exact drained. Qed.
Print Assumptions C12_queue_drains.

(* attribute mapping: device_expression / device_history_* show the slave's expression / history_*; MASTER_ATTRS are answered
   from the master's own state whatever the slave reports, and are never sent; everything else is shown and sent under the
   slave's name *)
Theorem C12_attr_mapping : forall slave fb m s id p sp,
  synced m s -> find_port id (m_ports m) = Some p -> find_sport id (s_ports s) = Some sp ->
  get_attr slave fb p "device_expression" = get "expression" (sp_attrs sp) /\
  (forall n, mem n MASTER_ATTRS = false -> is_renamed n = false -> get n (sp_attrs sp) <> VNone ->
             get_attr slave fb p n = get n (sp_attrs sp)).
Proof. exact attr_mapping_after_sync. Qed.
Print Assumptions C12_attr_mapping.

Theorem C12_attr_renamed : forall slave fb p n, is_renamed n = true -> get_attr slave fb p n = get (drop7 n) (mp_cached p).
Proof. exact attr_renamed. Qed.
Print Assumptions C12_attr_renamed.

Theorem C12_master_attrs_kept_and_never_sent : forall slave fb p a q cv n v,
  In n MASTER_ATTRS ->
  get_attr slave fb (with_cached_value (with_queue (with_cached p a) q) cv) n = get_attr slave fb p n /\
  set_attr_online_request p n v = None.
Proof. exact (fun slave fb p a q cv n v H => conj (attr_master_kept slave fb p a q cv n H) (master_attrs_never_sent p n v H)). Qed.
Print Assumptions C12_master_attrs_kept_and_never_sent.

Theorem C12_sent_under_slave_name : forall p n v, mem n MASTER_ATTRS = false ->
  set_attr_online_request p n v = Some (mk_req "PATCH" ("/ports/" ++ mp_id p) (BAttrs [(slave_name n, v)])).
Proof. exact sent_under_slave_name. Qed.
Print Assumptions C12_sent_under_slave_name.

(* the MASTER_ATTRS of the source are the modelled ones *)
Theorem C12_master_attrs_of_source :
  forallb (fun n => mem n MASTER_ATTRS) gen_master_attrs && forallb (fun n => mem n gen_master_attrs) MASTER_ATTRS = true.
Proof. exact master_attrs_ok. Qed.
Print Assumptions C12_master_attrs_of_source.

(* non-vacuity: a slave with one port; value changes 5 -> 7 -> 7 -> 8, an attribute update, a second port added and removed,
   with main-loop iterations in between: the mirror is synced and the values read are 5 7 8 *)
Definition ex_attrs (v : Z) : attrs := [("id", VS "p1"); ("enabled", VB true); ("expression", VS "ADD(1, 2)"); ("value", VZ v)].
Definition ex_master : master :=
  fst (handle cfg_found (EFullUpdate [("name", VS "dev1")] [(ex_attrs 5, None)]) (mk_master [] [] [] true true)).
Definition ex_sched : list sstep :=
  [STick; SEv (EValueChange "p1" (VZ 7)); SEv (EValueChange "p1" (VZ 7)); STick; SEv (EPortUpdate (ex_attrs 7) None);
   SEv (EValueChange "p1" (VZ 8)); SEv (EPortAdd [("id", VS "p2"); ("enabled", VB false)] None); SEv (EPortRemove "p2");
   STick; STick; STick].
Example C12_nonvacuous :
  (exists p, find_port "p1" (m_ports ex_master) = Some p /\ mp_enabled p = true /\ mp_prov p = [] /\ mp_reads p = []) /\
  Forall (stable "p1") ex_sched /\
  match find_port "p1" (m_ports (srun cfg_found ex_sched ex_master)) with
  | Some p => mp_reads p = [VZ 5; VZ 7; VZ 7; VZ 8] /\ mp_queue p = [] /\ mp_last_read p = VZ 8 /\
              get_attr "dev1" (fun _ => VNone) p "device_expression" = VS "ADD(1, 2)"
  | None => False
  end /\
  ids (m_ports (srun cfg_found ex_sched ex_master)) = ["p1"].
Proof.
  split; [eexists; vm_compute; repeat split |].
  split; [repeat constructor; cbn; intros; try reflexivity; try discriminate |].
  vm_compute. repeat split.
Qed.
