(* C20 — /device, /devices, /peripherals: an accepted restore reproduces the documents. *)
From QT Require Import C20.Lemmas.
Open Scope string_scope.
Open Scope list_scope.
Open Scope Z_scope.

(* ---------------------------------------------------------------------------------------------------------- *)
(* /device *)

Lemma dv_apply_app : forall d e1 e2 a, dv_apply d a (e1 ++ e2) = dv_apply d (dv_apply d a e1) e2.
Proof.
  induction e1 as [|[n v] e1 IH]; intros; cbn [app dv_apply]; [reflexivity|].
  destruct (is_password_field n || String.eqb n "date"); [apply IH|]. destruct (has_key n a); apply IH.
Qed.

Lemma dv_apply_skip : forall d e a,
  (forall n, In n (keys e) -> is_password_field n = true \/ n = "date" \/ ~ In n (keys a)) -> dv_apply d a e = a.
Proof.
  induction e as [|[n v] e IH]; intros a H; cbn [dv_apply]; [reflexivity|].
  assert (IH' : dv_apply d a e = a). { apply IH. intros m Hm. apply H. cbn. now right. }
  destruct (H n (or_introl eq_refl)) as [P|[->|N]].
  - rewrite P. exact IH'.
  - rewrite String.eqb_refl, orb_true_r. exact IH'.
  - apply has_key_false in N. rewrite N. destruct (is_password_field n || String.eqb n "date"); exact IH'.
Qed.

Lemma dv_apply_self : forall d todo done cur,
  keys cur = keys todo -> NoDup (keys (done ++ todo)) ->
  (forall n, In n (keys todo) -> is_password_field n = false /\ n <> "date") ->
  dv_apply d (done ++ cur) todo = done ++ todo.
Proof.
  induction todo as [|[n v] t IH]; intros done cur K ND HK.
  - destruct cur; [reflexivity|discriminate].
  - destruct cur as [|[n0 v0] c]; [discriminate|]. cbn in K. injection K as K0 K1. subst n0. cbn [dv_apply].
    destruct (HK n (or_introl eq_refl)) as [P D]. apply String.eqb_neq in D. rewrite P, D. cbn [orb].
    assert (NIN : ~ In n (keys done)).
    { rewrite keys_app in ND. clear - ND. induction done as [|[a b] d IHd]; cbn in *; [tauto|].
      inversion ND; subst. intros [->|I]; [apply H1; apply in_or_app; right; now left|]. tauto. }
    assert (HK' : has_key n (done ++ (n, v0) :: c) = true).
    { apply has_key_true. rewrite keys_app. apply in_or_app. right. now left. }
    rewrite HK', (set_key_middle n v v0 done c NIN).
    replace (done ++ (n, v) :: c) with ((done ++ [(n, v)]) ++ c) by (now rewrite <- app_assoc).
    rewrite IH; [now rewrite <- app_assoc|exact K1|now rewrite <- app_assoc|].
    intros m Hm. apply HK. now right.
Qed.

Definition password_keys : list string := ["admin_password"; "normal_password"; "viewonly_password"].

(* the same kind of hub: the same modifiable attributes, none of them a password or the date, none shadowed by a read-only one *)
Definition same_device_kind (d1 d2 : device) : Prop :=
  keys (dv_defaults d2) = keys (dv_attrs d1) /\ NoDup (keys (dv_attrs d1))
  /\ (forall n, In n (keys (dv_attrs d1)) -> is_password_field n = false /\ n <> "date")
  /\ (forall n, In n (keys (dv_readonly d1)) -> n = "date" \/ ~ In n (keys (dv_attrs d1)))
  /\ (forall k, str_in k device_volatile = false -> lookup k (dv_readonly d1) = lookup k (dv_readonly d2)).

Theorem device_roundtrip : forall d1 d2 d2',
  same_device_kind d1 d2 ->
  put_device (get_device d1) d2 = (d2', None) ->
  device_equiv (get_device d1) (get_device d2')
  /\ dv_hashes d2' = dv_hashes d2                                             (* passwords are kept, not restored *)
  /\ (forall w, password_field d2' w = password_field d2 w).
Proof.
  intros d1 d2 d2' (K & ND & NP & RO & SAME). unfold put_device.
  destruct (dv_first_invalid d2 (get_device d1)); [discriminate|]. intros H; inversion H; subst d2'; clear H.
  assert (AP : dv_apply d2 (dv_defaults d2) (get_device d1) = dv_attrs d1).
  { unfold get_device. rewrite dv_apply_app.
    pose proof (dv_apply_self d2 (dv_attrs d1) [] (dv_defaults d2) K ND NP) as S. cbn [app] in S. rewrite S.
    apply dv_apply_skip. intros n Hn. rewrite keys_app in Hn. apply in_app_or in Hn. destruct Hn as [Hn|Hn].
    - left. cbn in Hn. destruct Hn as [<-|[<-|[<-|[]]]]; reflexivity.
    - destruct (RO n Hn); auto. }
  split; [|split].
  - intros k NV. unfold get_device at 2. cbn [dv_attrs with_dv_attrs dv_readonly]. rewrite AP.
    unfold get_device. rewrite !lookup_app. destruct (lookup k (dv_attrs d1)); [reflexivity|].
    assert (PW : forall d, lookup k [password_field d "admin"; password_field d "normal"; password_field d "viewonly"] = None).
    { intros d. cbn [lookup password_field append].
      assert (Q : forall s, In s password_keys -> String.eqb k s = false).
      { intros s Hs. apply String.eqb_neq. intro X. subst s. cbn in Hs.
        destruct Hs as [<-|[<-|[<-|[]]]]; discriminate. }
      rewrite (Q "admin_password"), (Q "normal_password"), (Q "viewonly_password") by (cbn; tauto). reflexivity. }
    rewrite !PW. apply SAME. exact NV.
  - reflexivity.
  - intros w. reflexivity.
Qed.

(* ---------------------------------------------------------------------------------------------------------- *)
(* /devices: entries as GET answers them for disabled devices *)

Lemma add_slaves_sticky : forall reach doc acc i x devs err, add_slaves reach acc doc i (Some x) = (devs, err) -> err = Some x.
Proof.
  induction doc as [|e r IH]; intros acc i x devs err; cbn [add_slaves]. { intros H; inversion H; reflexivity. }
  destruct (existsb (same_endpoint e) acc); [apply IH|].
  destruct (truthy (get "poll_interval" e) && truthy (get "listen_enabled" e)); [apply IH|].
  destruct (is_null (get "admin_password" e) && is_null (get "admin_password_hash" e)); [apply IH|].
  destruct (slave_no_listen reach e); apply IH.
Qed.

Lemma add_slaves_ok : forall reach doc acc i devs,
  add_slaves reach acc doc i None = (devs, None) -> devs = acc ++ map (slave_result reach) doc.
Proof.
  induction doc as [|e r IH]; intros acc i devs; cbn [add_slaves map].
  - intros H; inversion H. now rewrite app_nil_r.
  - destruct (existsb (same_endpoint e) acc). { intros H. apply add_slaves_sticky in H. discriminate. }
    destruct (truthy (get "poll_interval" e) && truthy (get "listen_enabled" e)). { intros H. apply add_slaves_sticky in H. discriminate. }
    destruct (is_null (get "admin_password" e) && is_null (get "admin_password_hash" e)). { intros H. apply add_slaves_sticky in H. discriminate. }
    destruct (slave_no_listen reach e). { intros H. apply add_slaves_sticky in H. discriminate. }
    intros H. apply IH in H. now rewrite H, <- app_assoc.
Qed.

(* [reach]: what the devices on the network answer while the restore runs.  Premise: every entry of the backup is what the restore
   makes of it (apart from online / last_sync) - a disabled device as it is kept, an enabled one reachable with the attributes the
   backup recorded, its sync method stated explicitly (as GET /devices always states it) *)
Theorem slaves_roundtrip : forall reach s1 s2 s2',
  (forall e, In e (sl_devices s1) -> strip_slave (slave_result reach e) = strip_slave e) ->
  put_slave_devices reach (get_slave_devices s1) s2 = (s2', None) ->
  map strip_slave (get_slave_devices s2') = map strip_slave (get_slave_devices s1)
  /\ sl_updating s2' = true /\ sl_events s2' = true.
Proof.
  intros reach s1 s2 s2' FIX. unfold put_slave_devices, get_slave_devices.
  destruct (first_invalid_slave (sl_devices s1) 0) as [[[i c] f]|]. { intros H; inversion H. }
  destruct (add_slaves reach [] (sl_devices s1) 0 None) as [devs er] eqn:A. intros H; inversion H; subst; clear H.
  apply add_slaves_ok in A. subst devs. cbn. split; [|auto].
  induction (sl_devices s1) as [|e r IH]; cbn; [reflexivity|]. rewrite FIX by now left. f_equal. apply IH.
  intros e' I. apply FIX. now right.
Qed.

Theorem slaves_flags_restored : forall reach doc s s' err,
  put_slave_devices reach doc s = (s', err) -> sl_updating s' = true /\ sl_events s' = true.
Proof.
  intros reach doc s s' err. unfold put_slave_devices.
  destruct (first_invalid_slave doc 0) as [[[i c] f]|]; [|destruct (add_slaves reach [] doc 0 None)]; intros H; inversion H; subst; cbn; auto.
Qed.

(* ---------------------------------------------------------------------------------------------------------- *)
(* /peripherals *)

Lemma add_peripherals_ok : forall known auto doc acc i ps,
  add_peripherals known auto acc doc i = (ps, None) ->
  ps = acc ++ map (peripheral_json auto) (filter (fun e => negb (is_static e)) doc).
Proof.
  induction doc as [|e r IH]; intros acc i ps; cbn [add_peripherals filter map].
  - intros H; inversion H. now rewrite app_nil_r.
  - destruct (is_static e); cbn [negb]. { apply IH. }
    destruct (get "driver" e); try discriminate.
    destruct (negb (known s)); [discriminate|].
    destruct (existsb (fun q => pid_eqb (get "id" q) (get "id" (peripheral_json auto e))) acc); [discriminate|].
    intros H. apply IH in H. cbn [map]. now rewrite H, <- app_assoc.
Qed.

(* the source hub: static peripherals (from the configuration file, the same on the target), then the dynamic ones, each as GET
   answers it (a fixpoint of what the constructor makes of the parameters) *)
Theorem peripherals_roundtrip : forall known auto st dyn ps2 ps2',
  (forall e, In e st -> is_static e = true) ->
  (forall e, In e dyn -> is_static e = false /\ peripheral_json auto e = e) ->
  filter is_static ps2 = st ->
  put_peripherals known auto (get_peripherals (st ++ dyn)) ps2 = (ps2', None) ->
  get_peripherals ps2' = get_peripherals (st ++ dyn).
Proof.
  intros known auto st dyn ps2 ps2' ST DY F. unfold put_peripherals, get_peripherals.
  destruct (first_some invalid_peripheral (st ++ dyn)); [discriminate|]. intros H.
  apply add_peripherals_ok in H. subst ps2'. rewrite F. f_equal.
  rewrite filter_app.
  assert (A : filter (fun e => negb (is_static e)) st = []).
  { clear - ST. induction st as [|e r IH]; cbn; [reflexivity|]. rewrite (ST e) by now left. cbn. apply IH. intros. apply ST. now right. }
  rewrite A. cbn [app]. clear - DY. induction dyn as [|e r IH]; cbn; [reflexivity|].
  destruct (DY e (or_introl eq_refl)) as [S J]. rewrite S. cbn [negb map]. rewrite J. f_equal. apply IH. intros. apply DY. now right.
Qed.
