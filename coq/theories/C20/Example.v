(* C20 — concrete hubs: witnesses for the non-vacuity example (Props/C20.v) and for the refutations of the unrepaired code
   (History/C20Old.v). *)
From QT Require Import C20.Lemmas C20.PortsThm.
Open Scope string_scope.
Open Scope list_scope.
Open Scope Z_scope.

Definition ex_env : env :=
  {| parse := fun _ s =>
       if String.eqb s "$hw1" then Some ("$hw1", ["hw1"])
       else if String.eqb s "$hw2" then Some ("$hw2", ["hw2"])
       else if String.eqb s "ADD($hw1, 1)" then Some ("ADD($hw1, 1)", ["hw1"])
       else if String.eqb s "MUL($, 2)" then Some ("MUL($, 2)", ["v"])
       else if String.eqb s "DIV($, 2)" then Some ("DIV($, 2)", ["v"])
       else None;
     apply_tr := fun _ s v =>
       match v with
       | JNum q => if String.eqb s "MUL($, 2)" then JNum (2 * q) else if String.eqb s "DIV($, 2)" then JNum (q / 2) else v
       | _ => v
       end |}.

Definition std_attrs (unit : bool) (name tag expr tr tw : string) (enabled : bool) : entry :=
  [("display_name", JStr name)] ++ (if unit then [("unit", JStr "")] else [])
  ++ [("enabled", JBool enabled); ("tag", JStr tag); ("expression", JStr expr); ("transform_read", JStr tr);
      ("transform_write", JStr tw); ("persisted", JBool false); ("internal", JBool false)].

Definition hw_port (i : string) (name tag expr : string) (raw : jv) : port :=
  {| p_id := i; p_virtual := false; p_writable := true; p_def := [("type", JStr "number")];
     p_fixed := [("definitions", JObj [])]; p_kinds := []; p_attrs := std_attrs true name tag expr "" "" true; p_raw := raw |}.

Definition v_port (i : string) (def : entry) (unit : bool) (name expr tr tw : string) (enabled : bool) (raw : jv) : port :=
  {| p_id := i; p_virtual := true; p_writable := true; p_def := def;
     p_fixed := [("definitions", JObj [])]; p_kinds := []; p_attrs := std_attrs unit name "" expr tr tw enabled; p_raw := raw |}.

Definition mk_hub (ports : list port) (slaves : list string) : hub :=
  {| h_ports := ports; h_vport_limit := 1024; h_history := false; h_backup_support := true; h_slave_names := slaves;
     h_updating := true; h_events := true |}.

(* the source: hw1 follows hw2; a virtual port with transforms and a value; a disabled virtual boolean following hw1 *)
Definition ex_src : hub :=
  mk_hub [hw_port "hw1" "Pump ""A""" "t\1" "$hw2" (JNum 36);
          hw_port "hw2" "" "" "" (JNum 36);
          v_port "v" [("type", JStr "number"); ("min", JNum 0); ("max", JNum 400); ("integer", JBool true); ("step", JNum 20)]
                 true "Level" "" "DIV($, 2)" "MUL($, 2)" true (JNum 280);
          v_port "s1.x" [("type", JStr "boolean")] false "" "$hw1" "" "" false JNull] ["s1"].

(* the target: other virtual ports; hw2 follows hw1 (a loop with what the backup says about hw1, if it is not forgotten first) *)
Definition ex_tgt : hub :=
  mk_hub [hw_port "hw2" "old" "stale" "$hw1" (JNum 4);
          v_port "v" [("type", JStr "boolean")] false "other" "" "" "" true (JBool true);
          hw_port "hw1" "" "" "" (JNum 4);
          v_port "zz" [("type", JStr "number")] true "" "ADD($hw1, 1)" "" "" true (JNum 20)] ["s1"].

(* the same target without the loop: the unrepaired code accepts the backup, but loses the port named like a slave's *)
Definition ex_tgt2 : hub :=
  mk_hub [hw_port "hw2" "old" "stale" "" (JNum 4); hw_port "hw1" "" "" "" (JNum 4)] ["s1"].

Ltac solve_in := cbn; intuition (subst; try discriminate; try tauto).

Lemma hw_port_ok : forall i name tag expr raw,
  (expr = "" \/ exists d, parse ex_env i expr = Some (expr, d)) -> port_ok ex_env false (hw_port i name tag expr raw).
Proof.
  intros i name tag expr raw PF. constructor.
  - cbn. repeat constructor; cbn; intuition discriminate.
  - cbn. intros k H. repeat (destruct H as [<-|H]; [intuition discriminate|]). tauto.
  - cbn. intros k H. repeat (destruct H as [<-|H]; [intuition discriminate|]). tauto.
  - intros k SK. cbn. intros H. repeat (destruct H as [<-|H]; [apply SK; reflexivity|]). tauto.
  - cbn. intros k H. repeat (destruct H as [<-|H]; [discriminate|]). tauto.
  - cbn. intros n v H. repeat (destruct H as [H|H]; [inversion H; subst; unfold attr_fix; cbn; auto|]). tauto.
  - discriminate.
Qed.

Lemma v_port_ok : forall i def unit name expr tr tw enabled raw,
  def = def_of_entry def ->
  unit = (match lookup "type" def with Some (JStr t) => String.eqb t "number" | _ => false end) ->
  (forall k, In k (keys def) -> In k def_keys) -> NoDup (keys def) ->
  (expr = "" \/ exists d, parse ex_env i expr = Some (expr, d)) ->
  (tr = "" \/ exists d, parse ex_env i tr = Some (tr, d)) ->
  (tw = "" \/ exists d, parse ex_env i tw = Some (tw, d)) ->
  port_ok ex_env false (v_port i def unit name expr tr tw enabled raw).
Proof.
  intros i def unit name expr tr tw enabled raw DF UN DK NDd PE PR PW.
  assert (AK : forall k, In k (keys (std_attrs unit name "" expr tr tw enabled)) ->
               In k ["display_name"; "unit"; "enabled"; "tag"; "expression"; "transform_read"; "transform_write"; "persisted"; "internal"]).
  { intros k. destruct unit; cbn; tauto. }
  assert (DISJ : forall k, In k def_keys -> In k ["definitions"; "display_name"; "unit"; "enabled"; "tag"; "expression"; "transform_read"; "transform_write"; "persisted"; "internal"] -> False).
  { cbn. intros k H1 H2. repeat (destruct H1 as [<-|H1]; [repeat (destruct H2 as [H2|H2]; [discriminate|]); tauto|]). tauto. }
  constructor; cbn [p_def p_fixed p_attrs p_kinds p_virtual p_writable v_port].
  - rewrite keys_app. apply NoDup_app_intro_disjoint; auto.
    + rewrite keys_app. cbn [keys map fst app]. constructor.
      * intro A. apply AK in A. cbn in A. intuition discriminate.
      * destruct unit; cbn; repeat constructor; cbn; intuition discriminate.
    + intros k H1 H2. apply DK in H1. rewrite keys_app in H2. cbn [keys map fst app] in H2.
      apply (DISJ k H1). destruct H2 as [<-|H2]; [cbn; tauto|]. apply AK in H2. cbn in *. tauto.
  - intros k H R. rewrite !keys_app in H. apply in_app_or in H. destruct H as [H|H].
    + apply DK in H. cbn in H, R. repeat (destruct H as [<-|H]; [intuition discriminate|]). tauto.
    + cbn [keys map fst app] in H. destruct H as [<-|H]; [cbn in R; intuition discriminate|].
      apply AK in H. cbn in H, R. repeat (destruct H as [<-|H]; [intuition discriminate|]). tauto.
  - intros k H1 H2. rewrite keys_app in H2. cbn [keys map fst app] in H2. apply (DISJ k H1).
    destruct H2 as [<-|H2]; [cbn; tauto|]. apply AK in H2. cbn in *. tauto.
  - intros k SK H. rewrite keys_app in H. apply in_app_or in H. destruct H as [H|H].
    + apply DK in H. cbn in H. repeat (destruct H as [<-|H]; [apply SK; reflexivity|]). tauto.
    + cbn in H. destruct H as [<-|[]]. apply SK. reflexivity.
  - intros k H. apply AK in H. cbn in H. unfold kind_of. repeat (destruct H as [<-|H]; [discriminate|]). tauto.
  - intros n v H. unfold attr_fix, kind_of. cbn [p_kinds p_id v_port].
    destruct unit; cbn in H; repeat (destruct H as [H|H]; [inversion H; subst; cbn; auto|]); tauto.
  - intros _. repeat split; auto. unfold fresh_attrs. rewrite UN.
    destruct (lookup "type" def) as [[| | |t| |]|]; try reflexivity. destruct (String.eqb t "number"); reflexivity.
Qed.

Lemma ex_src_ok : hub_ok ex_env ex_src.
Proof.
  split.
  - cbn. repeat constructor; cbn; intuition discriminate.
  - cbn [h_ports ex_src mk_hub h_history]. intros p H. repeat (destruct H as [<-|H]).
    + apply hw_port_ok. right. eexists. reflexivity.
    + apply hw_port_ok. now left.
    + apply v_port_ok; auto.
      * cbn. intros k H. tauto.
      * cbn. repeat constructor; cbn; intuition discriminate.
      * right. eexists. reflexivity.
      * right. eexists. reflexivity.
    + apply v_port_ok; auto.
      * cbn. intros k H. tauto.
      * cbn. repeat constructor; cbn; intuition discriminate.
      * right. eexists. reflexivity.
    + destruct H.
Qed.

Lemma ex_same_hardware : forall tgt, tgt = ex_tgt \/ tgt = ex_tgt2 -> same_hardware ex_src tgt.
Proof.
  intros tgt [-> | ->]; (split; [reflexivity|split; [cbn; repeat constructor; cbn; intuition discriminate|split]]).
  - cbn. intros p1 H. repeat (destruct H as [<-|H]); [| |destruct H].
    + eexists. split; [right; left; reflexivity|]. unfold compatible. cbn. repeat split; auto. discriminate.
    + eexists. split; [left; reflexivity|]. unfold compatible. cbn. repeat split; auto. discriminate.
  - cbn. intros p H. repeat (destruct H as [<-|H]); [| |destruct H].
    + eexists. split; [right; left; reflexivity|reflexivity].
    + eexists. split; [left; reflexivity|reflexivity].
  - cbn. intros p1 H. repeat (destruct H as [<-|H]); [| |destruct H].
    + eexists. split; [right; left; reflexivity|]. unfold compatible. cbn. repeat split; auto. discriminate.
    + eexists. split; [left; reflexivity|]. unfold compatible. cbn. repeat split; auto. discriminate.
  - cbn. intros p H. repeat (destruct H as [<-|H]); [| |destruct H].
    + eexists. split; [right; left; reflexivity|reflexivity].
    + eexists. split; [left; reflexivity|reflexivity].
Qed.

(* a topological order of ex_src's dependency graph: hw2 <- hw1 <- s1.x; v reads nothing *)
Definition ex_rank (s : string) : nat :=
  if String.eqb s "hw1" then 1 else if String.eqb s "s1.x" then 2 else 0.

(* /device, /devices, /peripherals witnesses *)
Definition ex_dev (name dname : string) (hash : string) : device :=
  {| dv_attrs := [("name", JStr name); ("display_name", JStr dname)];
     dv_defaults := [("name", JStr "vm"); ("display_name", JStr "")];
     dv_kinds := [("name", KName); ("display_name", KStr 64)];
     dv_hashes := [("admin_password_hash", JStr hash); ("normal_password_hash", JStr empty_hash); ("viewonly_password_hash", JStr empty_hash)];
     dv_readonly := [("version", JStr "0.0.0"); ("uptime", JNum 4); ("definitions", JObj [])] |}.

Definition ex_slave (name host : string) (poll : Z) : entry :=
  slave_json [("name", JStr name); ("scheme", JStr "http"); ("host", JStr host); ("port", JNum 320); ("path", JStr "/");
              ("admin_password_hash", JStr empty_hash); ("poll_interval", JNum poll); ("listen_enabled", JBool false);
              ("last_sync", JNum (-4)); ("provisioning", JList []); ("attrs", JObj [("name", JStr name)])].

Definition ex_periph (name : string) : entry :=
  [("driver", JStr "mock.Driver"); ("dummy_param", JStr "x"); ("name", JStr name); ("id", JStr name); ("static", JBool false)].

(* live devices: what they answer to GET /device *)
Definition ex_attrs (name : string) (listen : bool) : jv :=
  JObj [("name", JStr name); ("flags", JList ((if listen then [JStr "listen"] else []) ++ [JStr "expressions"]))].

Definition ex_reach (e : entry) : option jv :=
  match get "host" e with
  | JStr h => if String.eqb h "relay.local" then Some (ex_attrs "relay" true)
              else if String.eqb h "meter.local" then Some (ex_attrs "meter" false)
              else if String.eqb h "sensor.local" then Some (ex_attrs "sensor" true)
              else if String.eqb h "plain.local" then Some (ex_attrs "plain" false)
              else None
  | _ => None
  end.

Definition ex_live (name host : string) (poll : Z) (listen : jv) : entry :=
  [("enabled", JBool true); ("name", JStr name); ("scheme", JStr "http"); ("host", JStr host); ("port", JNum 320); ("path", JStr "/");
   ("admin_password_hash", JStr empty_hash); ("poll_interval", JNum poll); ("listen_enabled", listen);
   ("last_sync", JNum 6800000000000); ("online", JBool true); ("provisioning", JList []);
   ("attrs", match ex_reach [("host", JStr host)] with Some a => a | None => JObj [] end)].

Definition ex_slaves : list entry :=
  [ex_slave "garage" "10.0.0.1" 120;
   ex_live "relay" "relay.local" 0 (JBool true);          (* listening *)
   ex_live "meter" "meter.local" 120 (JBool false);       (* polled, no listen flag *)
   ex_live "sensor" "sensor.local" 0 (JBool false);       (* neither: permanently offline, with the listen flag *)
   ex_live "plain" "plain.local" 0 (JBool false)].        (* neither, without the listen flag *)
