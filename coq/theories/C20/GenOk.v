(* C20 — the restore functions in /repo's working tree have the shape the model assumes (Gen/C20Gen.v is regenerated from the
   source on every run; this file is re-checked against it). *)
From QT Require Import C20.Shape Gen.C20Gen.

Lemma restore_shapes_ok :
  switches_guarded put_ports_shape = true /\ switches_guarded put_slave_devices_shape = true
  /\ switches_untouched put_device_shape = true /\ switches_untouched put_peripherals_shape = true.
Proof. repeat split; vm_compute; reflexivity. Qed.
