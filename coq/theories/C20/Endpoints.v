(* C20 — the order in which a complete backup is restored: the endpoints (standard ones + those the hub advertises with
   GET /backup/endpoints) in ascending `order` (stable).  PUT /ports restores attributes of ports that exist; the ports of
   peripherals and of slave devices are created by PUT /peripherals and PUT /devices: those must come first. *)
From QT Require Export Base.Prelude.
Open Scope string_scope.
Open Scope list_scope.
Open Scope Z_scope.

Definition endpoints := list (string * Z).

Fixpoint order_of (p : string) (l : endpoints) : option Z :=
  match l with [] => None | (q, o) :: r => if String.eqb p q then Some o else order_of p r end.

(* stable insertion sort by order (ArrayUtils.sortKey) *)
Fixpoint insert_ep (e : string * Z) (l : endpoints) : endpoints :=
  match l with
  | [] => [e]
  | f :: r => if snd f <=? snd e then f :: insert_ep e r else e :: l
  end.
Definition restore_sequence (l : endpoints) : list string := map fst (fold_left (fun acc e => insert_ep e acc) l []).

Fixpoint position (p : string) (s : list string) (i : nat) : option nat :=
  match s with [] => None | q :: r => if String.eqb p q then Some i else position p r (S i) end.

(* p is restored, and strictly before q *)
Definition restored_before (p q : string) (s : list string) : bool :=
  match position p s 0, position q s 0 with Some i, Some j => Nat.ltb i j | _, _ => false end.

(* the endpoints whose restore CREATES ports *)
Definition port_creators : list string := ["/peripherals"; "/devices"].

Definition creators_before_ports (l : endpoints) : bool :=
  match order_of "/ports" l with
  | Some po => forallb (fun c => match order_of c l with Some o => o <? po | None => true end) port_creators
  | None => false
  end.

(* a smaller order means an earlier place in the sequence (the sort is by order) - used for the generated lists by computation *)
Definition sequence_ok (l : endpoints) : bool :=
  creators_before_ports l
  && forallb (fun c => match order_of c l with Some _ => restored_before c "/ports" (restore_sequence l) | None => true end) port_creators
  && restored_before "/device" "/ports" (restore_sequence l).
