(* C20 — an unaltered backup is ACCEPTED: the restore of what GET /ports answered succeeds on every hub with the same hardware,
   provided the source has no dependency loop (certified by a rank function: a topological order), its attribute values lie in
   their domains, its transforms refer to their own port only, its virtual ports have valid definitions, and the target may
   hold that many virtual ports.  With PortsThm.ports_roundtrip this gives the unconditional round trip. *)
From QT Require Import C20.Lemmas C20.PortsThm.
From Coq Require Import Permutation.
Open Scope string_scope.
Open Scope list_scope.
Open Scope Z_scope.

(* ---------------------------------------------------------------------------------------------------------- *)
(* loop detection never fires when every reference goes down a rank *)

Section NoLoop.
Variable E : env.
Variable G : list port.
Variable self : string.
Variable r : string -> nat.

(* what the ports other than [self] hold: expressions whose references go strictly down, except to the holder itself *)
Hypothesis SUB : forall d q pr qdeps, d <> self -> find_port d G = Some q -> p_expression q <> "" ->
  parse E d (p_expression q) = Some (pr, qdeps) -> forall d', In d' qdeps -> d' = d \/ (r d' < r d)%nat.

Lemma loops_rec_ranked : forall fuel level deps seen,
  In self seen ->
  (forall d, In d deps -> (d = self -> level = 1%nat) /\ (d <> self -> (r d < r self)%nat)) ->
  fst (loops_rec fuel E G self level deps seen) = false /\ In self (snd (loops_rec fuel E G self level deps seen)).
Proof.
  induction fuel as [|fuel IH]; intros level deps seen IS H; [cbn; auto|].
  cbn [loops_rec]. revert seen IS H. induction deps as [|d rest IHd]; intros seen IS H; [cbn; auto|].
  assert (Hrest : forall d0, In d0 rest -> (d0 = self -> level = 1%nat) /\ (d0 <> self -> (r d0 < r self)%nat)).
  { intros d0 I0. apply H. now right. }
  assert (IHd' : forall seen, In self seen -> _) by (intros s0 I0; exact (IHd s0 I0 Hrest)). clear IHd. rename IHd' into IHd.
  destruct (H d (or_introl eq_refl)) as [Hs Hn].
  destruct (find_port d G) as [q|] eqn:F; [|apply IHd; exact IS].
  destruct (String.eqb d self) eqn:DS.
  - apply String.eqb_eq in DS. pose proof (Hs DS) as L1. subst level. cbn [Nat.ltb Nat.leb andb].
    assert (SI : str_in d seen = true). { subst d. unfold str_in. apply existsb_exists. exists self. split; [exact IS|apply String.eqb_refl]. }
    rewrite SI. apply IHd. exact IS.
  - cbn [andb]. apply String.eqb_neq in DS. destruct (str_in d seen); [apply IHd; exact IS|].
    cbv zeta. destruct (String.eqb (p_expression q) "") eqn:EX; [apply IHd; now right|].
    apply String.eqb_neq in EX.
    destruct (parse E d (p_expression q)) as [[pr qdeps]|] eqn:P; [|apply IHd; now right].
    assert (Hq : forall d', In d' qdeps -> (d' = self -> S level = 1%nat) /\ (d' <> self -> (r d' < r self)%nat)).
    { intros d' I'. specialize (Hn DS). destruct (SUB d q pr qdeps DS F EX P d' I') as [->|L].
      - split; [intros X; congruence|auto].
      - split; [intros X; subst d'; exfalso; apply (Nat.lt_irrefl (r self)); eapply Nat.lt_trans; eauto|intros _; eapply Nat.lt_trans; eauto]. }
    destruct (IH (S level) qdeps (d :: seen) (or_intror IS) Hq) as [A B].
    destruct (loops_rec fuel E G self (S level) qdeps (d :: seen)) as [found seen2]. cbn in A, B. subst found.
    apply IHd. exact B.
Qed.

End NoLoop.

(* ---------------------------------------------------------------------------------------------------------- *)
(* the premises, as boolean tests on the source hub *)

Definition is_none {A} (o : option A) : bool := match o with None => true | Some _ => false end.

(* a transform refers to its own port only (checked by attr_set_transform_* when it was set) *)
Definition transform_ok (E : env) (p : port) (n : string) (v : jv) : bool :=
  match kind_of p n, v with
  | Some KTransform, JStr s =>
      String.eqb s "" || match parse E (p_id p) s with Some (_, d) => forallb (String.eqb (p_id p)) d | None => false end
  | _, _ => true
  end.

(* the value lies in the attribute's domain (it was validated against the same schema when it was set) *)
Definition attr_ok (E : env) (p : port) (nv : string * jv) : bool :=
  match kind_of p (fst nv) with Some k => attr_valid k (snd nv) | None => true end && transform_ok E p (fst nv) (snd nv).

Definition port_acceptable (E : env) (p : port) : bool :=
  forallb (attr_ok E p) (p_attrs p) && (negb (p_virtual p) || is_none (invalid_new_port (port_json E p))).

(* r is a topological order of the dependency graph: every reference of an expression to another port goes down *)
Definition refs_go_down (r : string -> nat) (E : env) (p : port) (nv : string * jv) : bool :=
  match kind_of p (fst nv), snd nv with
  | Some KExpr, JStr s =>
      String.eqb s "" || match parse E (p_id p) s with
                         | Some (_, ds) => forallb (fun d => String.eqb d (p_id p) || Nat.ltb (r d) (r (p_id p))) ds
                         | None => true
                         end
  | _, _ => true
  end.
Definition ranked (r : string -> nat) (E : env) (l : list port) : bool :=
  forallb (fun p => forallb (refs_go_down r E p) (p_attrs p)) l.

Definition acceptable (r : string -> nat) (E : env) (s1 s2 : hub) : bool :=
  forallb (port_acceptable E) (h_ports s1) && ranked r E (h_ports s1)
  && (count_virtual (h_ports s1) <=? h_vport_limit s2) && h_backup_support s2.

(* ---------------------------------------------------------------------------------------------------------- *)
(* set_attr / apply_attrs / first_invalid succeed *)

Section Accept.
Variable E : env.

Lemma kind_of_eq : forall p p1 n, p_kinds p = p_kinds p1 -> kind_of p n = kind_of p1 n.
Proof. intros p p1 n K. unfold kind_of. now rewrite K. Qed.

Lemma set_attr_keys : forall G p n v a, set_attr E G p n v = inl a -> keys a = keys (p_attrs p).
Proof.
  intros G p n v a. unfold set_attr.
  destruct (kind_of p n) as [[]|]; destruct v; try (intros H; inversion H; apply keys_set_key).
  - destruct (String.eqb s ""); [intros H; inversion H; apply keys_set_key|].
    destruct (parse E (p_id p) s) as [[pr d]|]; [|discriminate].
    destruct (has_loop E G (p_id p) d); intros H; inversion H. apply keys_set_key.
  - destruct (String.eqb s ""); [intros H; inversion H; apply keys_set_key|].
    destruct (parse E (p_id p) s) as [[pr d]|]; [|discriminate].
    destruct (forallb (String.eqb (p_id p)) d); intros H; inversion H. apply keys_set_key.
Qed.

Lemma set_attr_succeeds : forall G p n v,
  attr_fix E p n v -> transform_ok E p n v = true ->
  (forall s pr d, kind_of p n = Some KExpr -> v = JStr s -> s <> "" -> parse E (p_id p) s = Some (pr, d) ->
                  has_loop E G (p_id p) d = false) ->
  exists a, set_attr E G p n v = inl a.
Proof.
  intros G p n v F T L. unfold set_attr, attr_fix, transform_ok in *.
  destruct (kind_of p n) as [[]|]; destruct v; try (eexists; reflexivity).
  - destruct (String.eqb s "") eqn:S0; [eexists; reflexivity|]. apply String.eqb_neq in S0.
    destruct F as [->|[d P]]; [congruence|]. rewrite P. rewrite (L s s d eq_refl eq_refl S0 P). eexists; reflexivity.
  - destruct (String.eqb s "") eqn:S0; [eexists; reflexivity|]. cbn [orb] in T.
    destruct F as [->|[d P]]; [discriminate|]. rewrite P in *. rewrite T. eexists; reflexivity.
Qed.

Lemma apply_attrs_succeeds : forall G p1 todo p,
  p_id p = p_id p1 -> p_kinds p = p_kinds p1 ->
  (forall n, In n (keys todo) -> n <> "value" /\ In n (keys (p_attrs p)) /\ kind_of p1 n <> None) ->
  (forall n v, In (n, v) todo -> attr_fix E p1 n v /\ transform_ok E p1 n v = true) ->
  (forall p' n s pr d, p_id p' = p_id p1 -> In (n, JStr s) todo -> kind_of p1 n = Some KExpr -> s <> "" ->
                       parse E (p_id p1) s = Some (pr, d) -> has_loop E (replace_port p' G) (p_id p1) d = false) ->
  exists p', apply_attrs E G p todo None = (p', None).
Proof.
  induction todo as [|[n v] t IH]; intros p Pid Pk HK HF HL; [eexists; reflexivity|].
  cbn [apply_attrs]. destruct (HK n (or_introl eq_refl)) as (NV & IK & KN).
  apply String.eqb_neq in NV. rewrite NV. apply has_key_true in IK. rewrite IK.
  rewrite (kind_of_eq p p1 n Pk). destruct (kind_of p1 n) as [k|] eqn:KO; [|congruence]. cbn [andb].
  destruct (HF n v (or_introl eq_refl)) as [F T].
  destruct (set_attr_succeeds (replace_port p G) p n v) as [a SA].
  - unfold attr_fix in *. rewrite (kind_of_eq p p1 n Pk), Pid. exact F.
  - unfold transform_ok in *. rewrite (kind_of_eq p p1 n Pk), Pid. exact T.
  - intros s pr d K -> S0 P. rewrite Pid in *. rewrite (kind_of_eq p p1 n Pk) in K.
    apply (HL p n s pr d); auto. now left.
  - rewrite SA. apply IH; auto.
    + intros m Hm. destruct (HK m (or_intror Hm)) as (A & B & C). split; [auto|split; [|auto]].
      cbn [p_attrs with_attrs]. rewrite (set_attr_keys _ _ _ _ _ SA). exact B.
    + intros m w Hm. apply HF. now right.
    + intros p' m s pr d I1 I2. apply HL; auto. now right.
Qed.

Lemma first_invalid_app : forall p e1 e2,
  first_invalid p (e1 ++ e2) = match first_invalid p e1 with Some f => Some f | None => first_invalid p e2 end.
Proof.
  induction e1 as [|[n v] e1 IH]; intros; cbn [app first_invalid]; [reflexivity|].
  destruct (has_key n (p_attrs p)); [|apply IH]. destruct (kind_of p n); [|apply IH]. destruct (attr_valid a v); [apply IH|reflexivity].
Qed.

Lemma first_invalid_skip : forall p e, (forall n, In n (keys e) -> ~ In n (keys (p_attrs p))) -> first_invalid p e = None.
Proof.
  induction e as [|[n v] e IH]; intros H; cbn [first_invalid]; [reflexivity|].
  assert (N : has_key n (p_attrs p) = false). { apply has_key_false. apply H. now left. }
  rewrite N. apply IH. intros m Hm. apply H. now right.
Qed.

Lemma first_invalid_valid : forall p e,
  (forall n v k, In (n, v) e -> kind_of p n = Some k -> attr_valid k v = true) -> first_invalid p e = None.
Proof.
  induction e as [|[n v] e IH]; intros H; cbn [first_invalid]; [reflexivity|].
  assert (IH' : first_invalid p e = None). { apply IH. intros m w k I. apply H. now right. }
  destruct (has_key n (p_attrs p)); [|exact IH']. destruct (kind_of p n) as [k|] eqn:K; [|exact IH'].
  rewrite (H n v k (or_introl eq_refl) K). exact IH'.
Qed.

(* ---------------------------------------------------------------------------------------------------------- *)
(* one entry *)

(* every expression held on the hub refers downwards (or to its own port) *)
Definition ranked_hub (r : string -> nat) (h : hub) : Prop :=
  forall d q pr qdeps, find_port d (h_ports h) = Some q -> p_expression q <> "" ->
    parse E d (p_expression q) = Some (pr, qdeps) -> forall d', In d' qdeps -> d' = d \/ (r d' < r d)%nat.

Lemma lookup_Some_In : forall k v (a : entry), lookup k a = Some v -> In (k, v) a.
Proof.
  induction a as [|[k' v'] a IH]; cbn; [discriminate|]. destruct (String.eqb k k') eqn:K.
  - apply String.eqb_eq in K. subst. intros H; inversion H. now left.
  - intros H. right. auto.
Qed.

Lemma expression_in_attrs : forall p, p_expression p <> "" -> In ("expression", JStr (p_expression p)) (p_attrs p).
Proof.
  intros p H. unfold p_expression, attr_str in *. destruct (lookup "expression" (p_attrs p)) as [[| | |s| |]|] eqn:L; try congruence.
  now apply lookup_Some_In.
Qed.

Lemma refs_down_expression : forall r p pr ds,
  forallb (refs_go_down r E p) (p_attrs p) = true -> p_expression p <> "" ->
  parse E (p_id p) (p_expression p) = Some (pr, ds) ->
  forall d, In d ds -> d = p_id p \/ (r d < r (p_id p))%nat.
Proof.
  intros r p pr ds R NE P d I. rewrite forallb_forall in R. specialize (R _ (expression_in_attrs p NE)).
  unfold refs_go_down in R. cbn [fst snd] in R. change (kind_of p "expression") with (Some KExpr) in R.
  apply String.eqb_neq in NE. rewrite NE, P in R. cbn [orb] in R. rewrite forallb_forall in R. specialize (R d I).
  apply orb_true_iff in R. destruct R as [R|R]; [left; now apply String.eqb_eq|right; now apply Nat.ltb_lt].
Qed.

Lemma set_port_attrs_accepts : forall r history h p p1 idv,
  port_ok E history p1 -> compatible p1 p ->
  forallb (attr_ok E p1) (p_attrs p1) = true -> forallb (refs_go_down r E p1) (p_attrs p1) = true ->
  ranked_hub r h ->
  exists h', set_port_attrs E h p idv (port_json E p1) = (h', None).
Proof.
  intros r history h p p1 idv OK C AO RD RH.
  destruct C as (Cid & Cv & Cw & Cd & Cf & Ck & Ckeys & Craw).
  unfold set_port_attrs.
  assert (FI : first_invalid p (port_json E p1) = None).
  { rewrite port_json_split, !first_invalid_app.
    rewrite first_invalid_skip. 2:{ intros n Hn. rewrite Ckeys. exact (pre_keys_not_attrs E history p1 OK n Hn). }
    rewrite first_invalid_valid.
    2:{ intros n v k I K. rewrite (kind_of_eq p p1 n Ck) in K. rewrite forallb_forall in AO. specialize (AO _ I).
        unfold attr_ok in AO. cbn [fst snd] in AO. rewrite K in AO. now apply andb_prop in AO. }
    apply first_invalid_skip. intros n Hn. rewrite Ckeys. intro A.
    apply (attrs_not_reserved E history p1 OK n A). cbn in Hn. cbn. destruct Hn as [<-|[<-|[]]]; tauto. }
  rewrite FI.
  assert (AP : exists q, apply_attrs E (h_ports h) p (port_json E p1) None = (q, None)).
  { rewrite port_json_split, apply_attrs_app.
    rewrite apply_attrs_skip. 2:{ intros n Hn. right. rewrite Ckeys. exact (pre_keys_not_attrs E history p1 OK n Hn). }
    rewrite apply_attrs_app.
    destruct (apply_attrs_succeeds (h_ports h) p1 (p_attrs p1) p Cid Ck) as [q1 A1].
    - intros n Hn. split; [|split].
      + intro X. subst. apply (attrs_not_reserved E history p1 OK _ Hn). cbn. tauto.
      + now rewrite Ckeys.
      + exact (ok_kinds _ _ _ OK n Hn).
    - intros n v I. split; [exact (ok_fix _ _ _ OK n v I)|].
      rewrite forallb_forall in AO. specialize (AO _ I). unfold attr_ok in AO. now apply andb_prop in AO.
    - intros p' n s pr d Pid' I K S0 P. unfold has_loop.
      apply (loops_rec_ranked E (replace_port p' (h_ports h)) (p_id p1) r).
      + intros d0 q pr0 qdeps NE F NX PX. rewrite find_port_replace, Pid' in F.
        apply String.eqb_neq in NE. rewrite NE in F. exact (RH d0 q pr0 qdeps F NX PX).
      + now left.
      + intros d0 I0. split; [reflexivity|]. intros NE.
        rewrite forallb_forall in RD. specialize (RD _ I). unfold refs_go_down in RD. cbn [fst snd] in RD.
        rewrite K in RD. apply String.eqb_neq in S0. rewrite S0, P in RD. cbn [orb] in RD.
        rewrite forallb_forall in RD. specialize (RD d0 I0). apply orb_true_iff in RD.
        destruct RD as [RD|RD]; [apply String.eqb_eq in RD; congruence|now apply Nat.ltb_lt].
    - rewrite A1. rewrite apply_attrs_skip. { eexists; reflexivity. }
      intros n Hn. cbn in Hn. destruct Hn as [<-|[<-|[]]]; [now left|]. right.
      (* the keys of q1 are those of p1 *)
      assert (KQ : keys (p_attrs q1) = keys (p_attrs p1)).
      { pose proof (apply_attrs_self E (h_ports h) (p_attrs p1) [] (p_attrs p) p q1) as S. cbn [app] in S.
        destruct S as [S _]; auto.
        - exact (nodup_attrs E history p1 OK).
        - intros m Hm. split.
          + intro X. subst. apply (attrs_not_reserved E history p1 OK _ Hm). cbn. tauto.
          + rewrite (kind_of_eq p p1 m Ck). exact (ok_kinds _ _ _ OK m Hm).
        - intros m w Hm. pose proof (ok_fix _ _ _ OK m w Hm) as F. unfold attr_fix in *. rewrite (kind_of_eq p p1 m Ck), Cid. exact F.
        - now rewrite S. }
      rewrite KQ. intro A. apply (attrs_not_reserved E history p1 OK _ A). cbn. tauto. }
  destruct AP as [q AP]. rewrite AP. eexists. reflexivity.
Qed.

Lemma count_replace : forall p' l q,
  find_port (p_id p') l = Some q -> p_virtual q = p_virtual p' -> count_virtual (replace_port p' l) = count_virtual l.
Proof.
  unfold count_virtual, find_port. induction l as [|q0 l IH]; cbn; intros q F V; [discriminate|].
  destruct (String.eqb (p_id p') (p_id q0)).
  - inversion F; subst q0. cbn [filter]. rewrite V. destruct (p_virtual p'); reflexivity.
  - cbn [filter]. specialize (IH q F V). destruct (p_virtual q0); cbn [List.length]; rewrite ?Nat2Z.inj_succ, ?IH; reflexivity.
Qed.

Lemma fresh_expression : forall history i e, p_expression (fresh_vport history i e) = "".
Proof.
  intros. unfold p_expression, attr_str, fresh_vport, fresh_attrs. cbn [p_attrs].
  destruct (lookup "type" e) as [[| | |t| |]|]; try reflexivity. destruct (String.eqb t "number"); reflexivity.
Qed.

Lemma restore_entry_accepts : forall r h p1,
  port_ok E (h_history h) p1 -> ready h p1 -> port_acceptable E p1 = true ->
  forallb (refs_go_down r E p1) (p_attrs p1) = true -> ranked_hub r h ->
  (p_virtual p1 = true -> count_virtual (h_ports h) < h_vport_limit h) ->
  exists h', restore_entry repaired E h (port_json E p1) = (h', None)
             /\ count_virtual (h_ports h') = count_virtual (h_ports h) + (if p_virtual p1 then 1 else 0)
             /\ h_vport_limit h' = h_vport_limit h.
Proof.
  intros r h p1 OK R PA RD RH LIM.
  apply andb_prop in PA. destruct PA as [AO VN].
  assert (GOAL : forall hx p, compatible p1 p -> ranked_hub r hx -> h_vport_limit hx = h_vport_limit h ->
            find_port (p_id p1) (h_ports hx) = Some p ->
            exists h', set_port_attrs E hx p (JStr (p_id p1)) (port_json E p1) = (h', None)
                       /\ count_virtual (h_ports h') = count_virtual (h_ports hx) /\ h_vport_limit h' = h_vport_limit h).
  { intros hx p C RHx LX FX.
    destruct (set_port_attrs_accepts r (h_history h) hx p p1 (JStr (p_id p1)) OK C AO RD RHx) as [h' SP].
    exists h'. split; [exact SP|].
    destruct (set_port_attrs_restores E (h_history h) hx p p1 (JStr (p_id p1)) h' OK C SP) as [p' [-> RS]].
    cbn [h_ports with_ports h_vport_limit]. split; [|exact LX].
    destruct RS as (Rid & Rv & _). destruct C as (Cid & Cv & _).
    apply (count_replace p' (h_ports hx) p); [now rewrite Rid|congruence]. }
  unfold restore_entry.
  change (lookup "id" (port_json E p1)) with (Some (JStr (p_id p1))). cbv iota beta.
  unfold get. rewrite (lookup_json_marker E _ p1 OK "virtual" (or_introl eq_refl)).
  unfold has_key. rewrite (lookup_json_marker E _ p1 OK "provisioning" (or_intror eq_refl)).
  cbn [repaired v_slave_prefix_heuristic andb negb].
  unfold ready in R. destruct (p_virtual p1) eqn:PV.
  - rewrite R. cbn [lookup String.eqb Ascii.eqb Bool.eqb truthy andb negb].
    cbn [negb orb] in VN. destruct (invalid_new_port (port_json E p1)) as [[c f]|]; [discriminate|].
    specialize (LIM eq_refl). apply Z.leb_gt in LIM. rewrite LIM.
    destruct (ok_virtual _ _ _ OK PV) as (Vw & Vf & Vk & Vd & Vkeys).
    set (fp := fresh_vport (h_history h) (p_id p1) (port_json E p1)).
    destruct (GOAL (with_ports h (h_ports h ++ [fp])) fp) as [h' (A & B & C)].
    + unfold compatible, fp, fresh_vport. cbn [p_id p_virtual p_writable p_def p_fixed p_kinds p_attrs p_raw].
      rewrite (def_of_entry_json E _ p1 OK), (fresh_attrs_json E _ p1 OK), <- Vd, Vf, Vk, Vw, PV, Vkeys.
      repeat split; auto. discriminate.
    + intros d q pr qdeps F. cbn [h_ports with_ports] in F. rewrite find_port_app in F.
      destruct (find_port d (h_ports h)) as [q0|] eqn:F0.
      * inversion F; subst q0. exact (RH d q pr qdeps F0).
      * unfold find_port in F. cbn [find] in F. destruct (String.eqb d (p_id fp)); [|discriminate]. inversion F; subst q.
        intros NX. exfalso. apply NX. apply fresh_expression.
    + reflexivity.
    + cbn [h_ports with_ports]. rewrite find_port_app, R. unfold find_port, fp, fresh_vport. cbn. now rewrite String.eqb_refl.
    + exists h'. split; [exact A|]. split; [|exact C]. rewrite B. cbn [h_ports with_ports].
      unfold count_virtual. rewrite filter_app, app_length. cbn. rewrite Nat2Z.inj_add. reflexivity.
  - cbn [lookup truthy andb]. destruct R as [p [F C]]. rewrite F.
    destruct (GOAL h p C RH eq_refl F) as [h' (A & B & C')]. exists h'. split; [exact A|]. split; [lia|exact C'].
Qed.

Lemma ranked_hub_step : forall r h h' p1 p',
  ranked_hub r h -> forallb (refs_go_down r E p1) (p_attrs p1) = true ->
  find_port (p_id p1) (h_ports h') = Some p' -> restored E p1 p' ->
  (forall i, i <> p_id p1 -> find_port i (h_ports h') = find_port i (h_ports h)) ->
  ranked_hub r h'.
Proof.
  intros r h h' p1 p' RH RD F' RS FR d q pr qdeps F NX P.
  destruct (string_dec d (p_id p1)) as [->|NE].
  - rewrite F' in F. inversion F; subst q. destruct RS as (_ & _ & _ & _ & _ & Ra & _).
    assert (EX : p_expression p' = p_expression p1) by (unfold p_expression, attr_str; now rewrite Ra).
    rewrite EX in *. exact (refs_down_expression r p1 pr qdeps RD NX P).
  - rewrite (FR d NE) in F. exact (RH d q pr qdeps F NX P).
Qed.

Lemma count_virtual_cons : forall p l, count_virtual (p :: l) = (if p_virtual p then 1 else 0) + count_virtual l.
Proof. intros. unfold count_virtual. cbn. destruct (p_virtual p); cbn [List.length]; lia. Qed.

Lemma count_virtual_nonneg : forall l, 0 <= count_virtual l.
Proof. intros. unfold count_virtual. lia. Qed.

Lemma restore_entries_accepts : forall r src h,
  NoDup (map p_id src) ->
  (forall p1, In p1 src -> port_ok E (h_history h) p1 /\ ready h p1 /\ port_acceptable E p1 = true
                           /\ forallb (refs_go_down r E p1) (p_attrs p1) = true) ->
  ranked_hub r h ->
  count_virtual (h_ports h) + count_virtual src <= h_vport_limit h ->
  exists h', restore_entries repaired E h (map (port_json E) src) = (h', None).
Proof.
  induction src as [|p0 src IH]; intros h ND HP RH CNT; [eexists; reflexivity|].
  inversion ND as [|? ? N0 ND']; subst. cbn [map restore_entries].
  destruct (HP p0 (or_introl eq_refl)) as (OK0 & RD0 & PA0 & RG0).
  rewrite count_virtual_cons in CNT. pose proof (count_virtual_nonneg src) as NN.
  destruct (restore_entry_accepts r h p0 OK0 RD0 PA0 RG0 RH) as [h1 (R0 & C1 & L1)].
  { intros V. rewrite V in CNT. lia. }
  rewrite R0.
  destruct (restore_entry_self E h p0 h1 OK0 RD0 R0) as [[p0' [F0 RS0]] [FR0 HH]].
  apply IH; auto.
  - intros p1 I1. destruct (HP p1 (or_intror I1)) as (OK1 & RD1 & PA1 & RG1). rewrite HH.
    split; [exact OK1|]. split; [|split; [exact PA1|exact RG1]].
    assert (NE : p_id p1 <> p_id p0). { intro X. apply N0. rewrite <- X. now apply in_map. }
    unfold ready. rewrite (FR0 _ NE). exact RD1.
  - exact (ranked_hub_step r h h1 p0 p0' RH RG0 F0 RS0 FR0).
  - rewrite C1, L1. lia.
Qed.

(* ---------------------------------------------------------------------------------------------------------- *)
(* the whole restore *)

Lemma lookup_set_key_same : forall k v (a : entry), lookup k (set_key k v a) = if has_key k a then Some v else None.
Proof.
  unfold has_key. induction a as [|[k' v'] a IH]; cbn; [reflexivity|]. destruct (String.eqb k k') eqn:K; cbn; rewrite K; auto.
Qed.

Lemma clear_expression_empty : forall p, p_expression (clear_expression p) = "".
Proof.
  intros. unfold p_expression, attr_str, clear_expression. cbn [p_attrs with_attrs]. rewrite lookup_set_key_same.
  destruct (has_key "expression" (p_attrs p)); reflexivity.
Qed.

Lemma count_virtual_kept : forall l, count_virtual (map clear_expression (filter (fun p => negb (p_virtual p)) l)) = 0.
Proof.
  unfold count_virtual. induction l as [|p l IH]; [reflexivity|]. cbn [filter]. destruct (p_virtual p) eqn:V; cbn [negb map filter]; [exact IH|].
  unfold clear_expression at 1. cbn [p_virtual with_attrs]. rewrite V. exact IH.
Qed.

Lemma count_virtual_insert : forall p l, count_virtual (insert_port p l) = count_virtual (p :: l).
Proof.
  induction l as [|q l IH]; [reflexivity|]. cbn [insert_port]. destruct (str_leb (p_id p) (p_id q)); [reflexivity|].
  rewrite !count_virtual_cons, IH, count_virtual_cons. lia.
Qed.

Lemma count_virtual_sort : forall l, count_virtual (sort_ports l) = count_virtual l.
Proof.
  induction l as [|p l IH]; [reflexivity|]. unfold sort_ports in *. cbn [fold_right].
  rewrite count_virtual_insert, !count_virtual_cons, IH. reflexivity.
Qed.

Lemma ready_kept : forall s1 s2 p1,
  NoDup (map p_id (h_ports s1)) -> same_hardware s1 s2 -> In p1 (h_ports s1) ->
  ready (with_ports (with_flags s2 false false)
                    (map clear_expression (filter (fun p => negb (p_virtual p)) (h_ports s2)))) p1.
Proof.
  intros s1 s2 p1 ND1 (HH & ND2 & HW12 & HW21) I1.
  assert (KEPT : forall i, find_port i (map clear_expression (filter (fun p => negb (p_virtual p)) (h_ports s2)))
                           = option_map clear_expression (find_port i (hardware s2))).
  { intros i. apply find_port_map_clear. }
  unfold ready. cbn [h_ports with_ports]. destruct (p_virtual p1) eqn:PV.
  - rewrite KEPT. destruct (find_port (p_id p1) (hardware s2)) as [q|] eqn:F; [|reflexivity]. exfalso.
    apply find_port_Some in F. destruct F as [Fq Fid]. destruct (HW21 q Fq) as [q1 [Iq1 Eq1]].
    unfold hardware in Iq1. apply filter_In in Iq1. destruct Iq1 as [Iq1 NV].
    assert (q1 = p1). { apply (nodup_id_inj _ _ _ ND1 Iq1 I1). congruence. }
    subst q1. rewrite PV in NV. discriminate.
  - assert (Ih : In p1 (hardware s1)). { unfold hardware. apply filter_In. rewrite PV. auto. }
    destruct (HW12 p1 Ih) as [q [Iq C]]. exists (clear_expression q). split.
    + rewrite KEPT. destruct C as [Cid _]. rewrite <- Cid.
      rewrite (find_port_nodup (hardware s2) q); [reflexivity| |exact Iq]. unfold hardware. now apply nodup_filter_ids.
    + destruct C as (C1 & C2 & C3 & C4 & C5 & C6 & C7 & C8). unfold compatible, clear_expression.
      cbn [p_id p_virtual p_writable p_def p_fixed p_kinds p_attrs p_raw with_attrs]. rewrite keys_set_key. tauto.
Qed.

(* an unaltered backup is accepted *)
Theorem ports_backup_accepted : forall r s1 s2,
  hub_ok E s1 -> same_hardware s1 s2 -> acceptable r E s1 s2 = true ->
  exists s2', put_ports E (map JObj (get_ports E s1)) s2 = (s2', None).
Proof.
  intros r s1 s2 [ND1 OK1] SH ACC. unfold acceptable in ACC.
  apply andb_prop in ACC. destruct ACC as [ACC BS]. apply andb_prop in ACC. destruct ACC as [ACC LIM].
  apply andb_prop in ACC. destruct ACC as [PA RK]. apply Z.leb_le in LIM.
  unfold put_ports, put_ports_gen. rewrite BS. cbn [negb]. rewrite as_entries_map.
  unfold restore_body. cbn [repaired v_reset_clears_expression h_ports with_flags]. unfold get_ports.
  set (kept := map clear_expression (filter (fun p => negb (p_virtual p)) (h_ports s2))).
  destruct (restore_entries_accepts r (sort_ports (h_ports s1)) (with_ports (with_flags s2 false false) kept)) as [h' R].
  - eapply Permutation_NoDup; [apply Permutation_sym, Permutation_map, sort_ports_perm|exact ND1].
  - intros p1 I1. assert (I1' : In p1 (h_ports s1)) by (eapply Permutation_in; [apply sort_ports_perm|exact I1]).
    pose proof SH as (HH & SH'). cbn [h_history with_ports with_flags]. rewrite HH. split; [apply OK1; exact I1'|]. split.
    + apply (ready_kept s1 s2 p1 ND1 SH I1').
    + rewrite forallb_forall in PA. unfold ranked in RK. rewrite forallb_forall in RK. auto.
  - intros d q pr qdeps F NX. exfalso. apply NX. cbn [h_ports with_ports] in F. unfold kept in F.
    rewrite find_port_map_clear in F. destruct (find_port d _); [|discriminate]. inversion F. apply clear_expression_empty.
  - cbn [h_ports with_ports h_vport_limit with_flags]. unfold kept. rewrite count_virtual_kept, count_virtual_sort. lia.
  - rewrite R. eexists. reflexivity.
Qed.

(* hence the round trip without the proviso "if the restore is accepted" *)
Theorem ports_roundtrip_total : forall r s1 s2,
  hub_ok E s1 -> same_hardware s1 s2 -> acceptable r E s1 s2 = true ->
  exists s2', put_ports E (map JObj (get_ports E s1)) s2 = (s2', None)
              /\ docs_equiv E (get_ports E s1) (get_ports E s2').
Proof.
  intros r s1 s2 O S A. destruct (ports_backup_accepted r s1 s2 O S A) as [s2' P].
  exists s2'. split; [exact P|]. exact (ports_roundtrip E s1 s2 s2' O S P).
Qed.

End Accept.

(* ---------------------------------------------------------------------------------------------------------- *)
(* /device, /devices, /peripherals: an unaltered backup is accepted *)

From QT Require Import C20.OtherThm.

(* every value GET /device answers lies in the domain the target declares for it (loose schema) *)
Definition device_acceptable (d1 d2 : device) : bool :=
  forallb (fun nv => match dv_kind d2 (fst nv) with Some k => attr_valid k (snd nv) | None => true end) (get_device d1).

Lemma dv_first_invalid_none : forall d e,
  forallb (fun nv => match dv_kind d (fst nv) with Some k => attr_valid k (snd nv) | None => true end) e = true ->
  dv_first_invalid d e = None.
Proof.
  induction e as [|[n v] e IH]; cbn [forallb dv_first_invalid fst snd]; intros H; [reflexivity|].
  apply andb_prop in H. destruct H as [H1 H2]. destruct (dv_kind d n); [rewrite H1|]; auto.
Qed.

Theorem device_backup_accepted : forall d1 d2,
  device_acceptable d1 d2 = true -> exists d2', put_device (get_device d1) d2 = (d2', None).
Proof. intros d1 d2 A. unfold put_device. rewrite (dv_first_invalid_none _ _ A). eexists. reflexivity. Qed.

Theorem device_roundtrip_total : forall d1 d2,
  same_device_kind d1 d2 -> device_acceptable d1 d2 = true ->
  exists d2', put_device (get_device d1) d2 = (d2', None)
              /\ device_equiv (get_device d1) (get_device d2') /\ dv_hashes d2' = dv_hashes d2.
Proof.
  intros d1 d2 S A. destruct (device_backup_accepted d1 d2 A) as [d2' P]. exists d2'. split; [exact P|].
  destruct (device_roundtrip d1 d2 d2' S P) as (X & Y & _). auto.
Qed.

(* slave entries: each one well-formed, not both polling and listening, with a password hash, and listening is not asked of a
   device (live or kept disabled) without the `listen` flag; endpoints pairwise different *)
Definition slave_entry_ok (reach : entry -> option jv) (e : entry) : bool :=
  is_none (invalid_slave e)
  && negb (truthy (get "poll_interval" e) && truthy (get "listen_enabled" e))
  && negb (is_null (get "admin_password" e) && is_null (get "admin_password_hash" e))
  && negb (slave_no_listen reach e).

Fixpoint endpoints_distinct (l : list entry) : bool :=
  match l with
  | [] => true
  | e :: r => forallb (fun e' => negb (same_endpoint e' e)) r && endpoints_distinct r
  end.

Lemma same_endpoint_result : forall reach e e', same_endpoint e (slave_result reach e') = same_endpoint e e'.
Proof. intros. unfold slave_result. destruct (slave_live reach e'); reflexivity. Qed.

Lemma first_invalid_slave_none : forall reach doc i, forallb (slave_entry_ok reach) doc = true -> first_invalid_slave doc i = None.
Proof.
  induction doc as [|e r IH]; intros i H; cbn [first_invalid_slave]; [reflexivity|]. cbn [forallb] in H.
  apply andb_prop in H. destruct H as [H1 H2]. unfold slave_entry_ok in H1.
  apply andb_prop in H1. destruct H1 as [H1 _]. apply andb_prop in H1. destruct H1 as [H1 _]. apply andb_prop in H1. destruct H1 as [H1 _].
  destruct (invalid_slave e) as [[c f]|]; [discriminate|]. auto.
Qed.

Lemma add_slaves_accepts : forall reach doc done i,
  forallb (slave_entry_ok reach) doc = true -> endpoints_distinct doc = true ->
  (forall e e', In e doc -> In e' done -> same_endpoint e e' = false) ->
  exists devs, add_slaves reach (map (slave_result reach) done) doc i None = (devs, None).
Proof.
  induction doc as [|e r IH]; intros done i OK D H; [eexists; reflexivity|].
  cbn [add_slaves]. cbn [forallb endpoints_distinct] in OK, D.
  apply andb_prop in OK. destruct OK as [OK1 OK2]. apply andb_prop in D. destruct D as [D1 D2].
  assert (X : existsb (same_endpoint e) (map (slave_result reach) done) = false).
  { destruct (existsb (same_endpoint e) (map (slave_result reach) done)) eqn:X; [|reflexivity]. apply existsb_exists in X.
    destruct X as [x [X1 X2]]. apply in_map_iff in X1. destruct X1 as [e' [<- I']]. rewrite same_endpoint_result in X2.
    rewrite (H e e' (or_introl eq_refl) I') in X2. discriminate. }
  rewrite X. unfold slave_entry_ok in OK1. apply andb_prop in OK1. destruct OK1 as [OK1 P4]. apply andb_prop in OK1.
  destruct OK1 as [OK1 P3]. apply andb_prop in OK1.
  destruct OK1 as [_ P2]. apply negb_true_iff in P2. apply negb_true_iff in P3. apply negb_true_iff in P4. rewrite P2, P3, P4.
  replace (map (slave_result reach) done ++ [slave_result reach e]) with (map (slave_result reach) (done ++ [e])) by (now rewrite map_app).
  apply IH; auto. intros x e' Ix I'. apply in_app_or in I'. destruct I' as [I'|[<-|[]]].
  - apply H; auto. now right.
  - rewrite forallb_forall in D1. specialize (D1 x Ix). now apply negb_true_iff in D1.
Qed.

Theorem slaves_backup_accepted : forall reach s1 s2,
  forallb (slave_entry_ok reach) (sl_devices s1) = true -> endpoints_distinct (sl_devices s1) = true ->
  exists s2', put_slave_devices reach (get_slave_devices s1) s2 = (s2', None).
Proof.
  intros reach s1 s2 OK D. unfold put_slave_devices, get_slave_devices. rewrite (first_invalid_slave_none reach _ 0 OK).
  destruct (add_slaves_accepts reach (sl_devices s1) [] 0 OK D) as [devs A]. { intros ? ? ? []. }
  cbn [map] in A. rewrite A. eexists. reflexivity.
Qed.

Theorem slaves_roundtrip_total : forall reach s1 s2,
  (forall e, In e (sl_devices s1) -> strip_slave (slave_result reach e) = strip_slave e) ->
  forallb (slave_entry_ok reach) (sl_devices s1) = true -> endpoints_distinct (sl_devices s1) = true ->
  exists s2', put_slave_devices reach (get_slave_devices s1) s2 = (s2', None)
              /\ map strip_slave (get_slave_devices s2') = map strip_slave (get_slave_devices s1)
              /\ sl_updating s2' = true /\ sl_events s2' = true.
Proof.
  intros reach s1 s2 F OK D. destruct (slaves_backup_accepted reach s1 s2 OK D) as [s2' P]. exists s2'. split; [exact P|].
  exact (slaves_roundtrip reach s1 s2 s2' F P).
Qed.

(* peripherals: every dynamic entry names a driver that can be loaded; ids pairwise different (also from the static ones) *)
Definition driver_known (known : string -> bool) (e : entry) : bool :=
  match get "driver" e with JStr d => known d | _ => false end.

Fixpoint ids_distinct (l : list entry) : bool :=
  match l with
  | [] => true
  | e :: r => forallb (fun e' => negb (pid_eqb (get "id" e) (get "id" e'))) r && ids_distinct r
  end.

Lemma add_peripherals_accepts : forall known auto doc acc i,
  (forall e, In e doc -> is_static e = false -> driver_known known e = true /\ peripheral_json auto e = e) ->
  ids_distinct doc = true ->
  (forall e q, In e doc -> is_static e = false -> In q acc -> pid_eqb (get "id" q) (get "id" e) = false) ->
  exists ps, add_peripherals known auto acc doc i = (ps, None).
Proof.
  induction doc as [|e r IH]; intros acc i DK D H; [eexists; reflexivity|].
  cbn [add_peripherals]. cbn [ids_distinct] in D. apply andb_prop in D. destruct D as [D1 D2].
  destruct (is_static e) eqn:ST.
  - apply IH; auto. { intros x I. apply DK. now right. } intros x q I. apply H. now right.
  - destruct (DK e (or_introl eq_refl) ST) as [K J]. unfold driver_known in K.
    destruct (get "driver" e); try discriminate. rewrite K. cbn [negb]. rewrite J.
    assert (X : existsb (fun q => pid_eqb (get "id" q) (get "id" e)) acc = false).
    { destruct (existsb (fun q => pid_eqb (get "id" q) (get "id" e)) acc) eqn:X; [|reflexivity]. apply existsb_exists in X.
      destruct X as [q [X1 X2]]. rewrite (H e q (or_introl eq_refl) ST X1) in X2. discriminate. }
    rewrite X. apply IH; auto. { intros x I. apply DK. now right. }
    intros x q Ix SX Iq. apply in_app_or in Iq. destruct Iq as [Iq|[<-|[]]].
    + apply (H x q); auto. now right.
    + rewrite forallb_forall in D1. specialize (D1 x Ix). now apply negb_true_iff in D1.
Qed.

Theorem peripherals_backup_accepted : forall known auto st dyn ps2,
  (forall e, In e st -> is_static e = true) ->
  (forall e, In e dyn -> driver_known known e = true /\ peripheral_json auto e = e) ->
  ids_distinct (st ++ dyn) = true ->
  forallb (fun e => is_none (invalid_peripheral e)) (st ++ dyn) = true ->
  filter is_static ps2 = st ->
  exists ps2', put_peripherals known auto (get_peripherals (st ++ dyn)) ps2 = (ps2', None).
Proof.
  intros known auto st dyn ps2 ST DY D V F. unfold put_peripherals, get_peripherals.
  assert (FS : forall l, forallb (fun e => is_none (invalid_peripheral e)) l = true -> first_some invalid_peripheral l = None).
  { induction l as [|e l IH]; cbn; [reflexivity|]. intros H. apply andb_prop in H. destruct H as [H1 H2].
    destruct (invalid_peripheral e); [discriminate|auto]. }
  rewrite (FS _ V), F.
  apply add_peripherals_accepts; auto.
  - intros e I NS. apply in_app_or in I. destruct I as [I|I]; [rewrite (ST e I) in NS; discriminate|auto].
  - (* an entry of the document against an earlier static one: the document lists the static ones first *)
    intros e q I NS Iq. apply in_app_or in I. destruct I as [I|I]; [rewrite (ST e I) in NS; discriminate|].
    clear - D I Iq. induction st as [|s0 st IHs]; [destruct Iq|]. cbn [app ids_distinct] in D.
    apply andb_prop in D. destruct D as [D1 D2]. destruct Iq as [<-|Iq]; [|auto].
    rewrite forallb_forall in D1. specialize (D1 e (in_or_app _ _ _ (or_intror I))). now apply negb_true_iff in D1.
Qed.

Theorem peripherals_roundtrip_total : forall known auto st dyn ps2,
  (forall e, In e st -> is_static e = true) ->
  (forall e, In e dyn -> is_static e = false /\ peripheral_json auto e = e) ->
  (forall e, In e dyn -> driver_known known e = true) ->
  ids_distinct (st ++ dyn) = true ->
  forallb (fun e => is_none (invalid_peripheral e)) (st ++ dyn) = true ->
  filter is_static ps2 = st ->
  exists ps2', put_peripherals known auto (get_peripherals (st ++ dyn)) ps2 = (ps2', None)
               /\ get_peripherals ps2' = get_peripherals (st ++ dyn).
Proof.
  intros known auto st dyn ps2 ST DY DK D V F.
  destruct (peripherals_backup_accepted known auto st dyn ps2 ST) as [ps2' P]; auto.
  { intros e I. split; [auto|]. now destruct (DY e I). }
  exists ps2'. split; [exact P|]. exact (peripherals_roundtrip known auto st dyn ps2 ps2' ST DY F P).
Qed.
