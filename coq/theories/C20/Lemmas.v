(* C20 — association lists, port lookup, sorting: small facts used by the theorems. *)
From QT Require Export C20.Spec.
From Coq Require Import Permutation.
Open Scope string_scope.
Open Scope list_scope.
Open Scope Z_scope.

Definition keys (e : entry) : list string := map fst e.

Lemma eqb_eq' : forall a b, String.eqb a b = true <-> a = b. Proof. exact String.eqb_eq. Qed.
Lemma eqb_neq' : forall a b, String.eqb a b = false <-> a <> b. Proof. exact String.eqb_neq. Qed.

Lemma scalar_eqb_eq : forall a b, scalar_eqb a b = true -> a = b.
Proof.
  intros a b; destruct a, b; cbn [scalar_eqb]; try discriminate; intros H; try reflexivity.
  - f_equal. now apply Bool.eqb_prop.
  - f_equal. now apply Z.eqb_eq.
  - f_equal. now apply String.eqb_eq.
Qed.

Lemma lookup_app : forall k a b,
  lookup k (a ++ b) = match lookup k a with Some v => Some v | None => lookup k b end.
Proof.
  induction a as [|[k' v] a IH]; intros; cbn; [reflexivity|]. destruct (String.eqb k k'); auto.
Qed.

Lemma lookup_None : forall k a, lookup k a = None <-> ~ In k (keys a).
Proof.
  unfold keys. induction a as [|[k' v] a IH]; cbn; [tauto|].
  destruct (String.eqb k k') eqn:H.
  - apply String.eqb_eq in H. subst. split; [discriminate|]. intro N. exfalso. apply N. now left.
  - apply String.eqb_neq in H. rewrite IH. split; intros N; [intros [?|?]; [congruence|tauto]|tauto].
Qed.

Lemma lookup_notin : forall k a, ~ In k (keys a) -> lookup k a = None.
Proof. intros. now apply lookup_None. Qed.

Lemma lookup_In : forall k v a, NoDup (keys a) -> In (k, v) a -> lookup k a = Some v.
Proof.
  unfold keys. induction a as [|[k' v'] a IH]; cbn; intros ND HI; [tauto|]. inversion ND; subst.
  destruct HI as [HI|HI].
  - inversion HI; subst. now rewrite String.eqb_refl.
  - destruct (String.eqb k k') eqn:H.
    + apply String.eqb_eq in H. subst. exfalso. apply H1. change k' with (fst (k', v)). now apply in_map.
    + auto.
Qed.

Lemma has_key_true : forall k a, has_key k a = true <-> In k (keys a).
Proof.
  intros k a. unfold has_key. destruct (lookup k a) eqn:HL.
  - split; auto. intros _. destruct (in_dec string_dec k (keys a)) as [|n]; auto. apply lookup_None in n. congruence.
  - apply lookup_None in HL. split; [discriminate|tauto].
Qed.

Lemma has_key_false : forall k a, has_key k a = false <-> ~ In k (keys a).
Proof. intros. rewrite <- has_key_true. destruct (has_key k a); split; congruence. Qed.

Lemma keys_app : forall a b, keys (a ++ b) = keys a ++ keys b. Proof. intros. apply map_app. Qed.

Lemma set_key_middle : forall k v v0 a b, ~ In k (keys a) -> set_key k v (a ++ (k, v0) :: b) = a ++ (k, v) :: b.
Proof.
  unfold keys. induction a as [|[k' v'] a IH]; cbn; intros b NI.
  - now rewrite String.eqb_refl.
  - destruct (String.eqb k k') eqn:HK.
    { apply String.eqb_eq in HK. subst. exfalso. apply NI. now left. }
    f_equal. apply IH. intro. apply NI. now right.
Qed.

Lemma nodup_app_disjoint : forall (a b : list string) x, NoDup (a ++ b) -> In x a -> In x b -> False.
Proof.
  induction a as [|y a IH]; cbn; intros b x N I1 I2; [tauto|]. inversion N; subst. destruct I1 as [->|I1].
  - apply H1. apply in_or_app. now right.
  - eapply IH; eauto.
Qed.

Lemma NoDup_app_remove_l : forall (a b : list string), NoDup (a ++ b) -> NoDup b.
Proof. induction a; cbn; intros b N; [exact N|]. inversion N; subst. auto. Qed.

Lemma NoDup_app_intro_disjoint : forall (a b : list string),
  NoDup a -> NoDup b -> (forall x, In x a -> In x b -> False) -> NoDup (a ++ b).
Proof.
  induction a as [|y a IH]; cbn; intros b Na Nb D; [exact Nb|]. inversion Na; subst. constructor.
  - intro A. apply in_app_or in A. destruct A as [A|A]; [tauto|]. apply (D y); auto.
  - apply IH; auto. intros x I1 I2. apply (D x); auto.
Qed.

(* ---- ports *)
Lemma find_port_app : forall i a b,
  find_port i (a ++ b) = match find_port i a with Some p => Some p | None => find_port i b end.
Proof.
  unfold find_port. induction a as [|p a IH]; intros; cbn; [reflexivity|]. destruct (String.eqb i (p_id p)); auto.
Qed.

Lemma find_port_replace : forall p i l,
  find_port i (replace_port p l)
  = if String.eqb i (p_id p) then match find_port i l with Some _ => Some p | None => None end else find_port i l.
Proof.
  unfold find_port. induction l as [|q l IH]; cbn.
  - now destruct (String.eqb i (p_id p)).
  - destruct (String.eqb (p_id p) (p_id q)) eqn:Hpq; cbn.
    + apply String.eqb_eq in Hpq. rewrite <- Hpq. now destruct (String.eqb i (p_id p)).
    + rewrite IH. destruct (String.eqb i (p_id q)) eqn:Hiq; [|reflexivity].
      apply String.eqb_eq in Hiq. subst i. rewrite String.eqb_sym, Hpq. reflexivity.
Qed.

Lemma find_port_Some : forall i l p, find_port i l = Some p -> In p l /\ p_id p = i.
Proof.
  unfold find_port. intros. apply find_some in H. destruct H as [H1 H2]. apply String.eqb_eq in H2. auto.
Qed.

Lemma find_port_None : forall i l, find_port i l = None <-> ~ In i (map p_id l).
Proof.
  unfold find_port. induction l as [|q l IH]; cbn; [tauto|].
  destruct (String.eqb i (p_id q)) eqn:H.
  - apply String.eqb_eq in H. split; [discriminate|]. intros N. exfalso. apply N. now left.
  - apply String.eqb_neq in H. rewrite IH. split; intros N; [intros [?|?]; [congruence|tauto]|tauto].
Qed.

Lemma find_port_nodup : forall l p, NoDup (map p_id l) -> In p l -> find_port (p_id p) l = Some p.
Proof.
  unfold find_port. induction l as [|q l IH]; cbn; intros p ND HI; [tauto|]. inversion ND; subst.
  destruct HI as [->|HI]; [now rewrite String.eqb_refl|].
  destruct (String.eqb (p_id p) (p_id q)) eqn:H; auto.
  apply String.eqb_eq in H. exfalso. apply H1. rewrite <- H. now apply in_map.
Qed.

(* ---- sorting keeps what is found under an id *)
Lemma str_leb_refl : forall s, str_leb s s = true.
Proof. induction s; cbn; auto. now rewrite N.ltb_irrefl. Qed.

Lemma find_insert_port : forall p i l,
  find_port i (insert_port p l) = if String.eqb i (p_id p) then Some p else find_port i l.
Proof.
  unfold find_port. induction l as [|q l IH]; cbn; [reflexivity|].
  destruct (str_leb (p_id p) (p_id q)) eqn:L; cbn; [reflexivity|].
  rewrite IH. destruct (String.eqb i (p_id q)) eqn:Hq; [|reflexivity].
  apply String.eqb_eq in Hq. subst i.
  destruct (String.eqb (p_id q) (p_id p)) eqn:Hp; [|reflexivity].
  apply String.eqb_eq in Hp. rewrite Hp, str_leb_refl in L. discriminate.
Qed.

Lemma find_sort_ports : forall i l, find_port i (sort_ports l) = find_port i l.
Proof.
  induction l as [|p l IH]; [reflexivity|]. unfold sort_ports in *. cbn [fold_right]. rewrite find_insert_port, IH. reflexivity.
Qed.

Lemma entry_id_port_json : forall E p, entry_id (port_json E p) = Some (p_id p).
Proof. reflexivity. Qed.

Lemma find_entry_map : forall E i l, find_entry i (map (port_json E) l) = option_map (port_json E) (find_port i l).
Proof.
  unfold find_entry, find_port. induction l as [|p l IH]; [reflexivity|]. cbn [map find]. rewrite entry_id_port_json.
  destruct (String.eqb i (p_id p)); auto.
Qed.

Lemma find_entry_get_ports : forall E i h, find_entry i (get_ports E h) = option_map (port_json E) (find_port i (h_ports h)).
Proof. intros. unfold get_ports. now rewrite find_entry_map, find_sort_ports. Qed.

Lemma insert_port_perm : forall p l, Permutation (insert_port p l) (p :: l).
Proof.
  induction l as [|q l IH]; cbn; [auto|]. destruct (str_leb (p_id p) (p_id q)); [auto|].
  rewrite IH. apply perm_swap.
Qed.

Lemma sort_ports_perm : forall l, Permutation (sort_ports l) l.
Proof.
  induction l as [|p l IH]; [constructor|]. unfold sort_ports in *. cbn [fold_right]. rewrite insert_port_perm. now constructor.
Qed.

Lemma as_entries_map : forall l, as_entries (map JObj l) = Some l.
Proof. induction l; cbn; [reflexivity|]. unfold as_entries in IHl. now rewrite IHl. Qed.
