(* C20 — dispatch used by the generated case files.
   A case = one pair of hub configurations: the target hub (built from its GET documents), the documents that were PUT,
   and what the real implementation did (error, flags, the GET documents afterwards), together with the tables that
   stand for the expression parser and the transform evaluation on the texts that occur.
   [bad_model] = cases where the model does something else; [bad_spec] = cases where the implementation contradicts the
   specification.  Both return 10 * case index + part (1 ports, 2 device, 3 slaves, 4 peripherals). *)
From QT Require Export C20.Spec.
Open Scope string_scope.
Open Scope list_scope.
Open Scope Z_scope.

(* ---- environment from tables *)
Definition parse_table := list (string * string * option (string * list string)).       (* (port id, text) ↦ result *)
Definition tr_table := list (string * string * jv * jv).                                 (* (port id, text, input) ↦ output *)

Fixpoint parse_lookup (t : parse_table) (i s : string) : option (string * list string) :=
  match t with
  | [] => None
  | (i', s', r) :: t' => if String.eqb i i' && String.eqb s s' then r else parse_lookup t' i s
  end.
Fixpoint tr_lookup (t : tr_table) (i s : string) (v : jv) : jv :=
  match t with
  | [] => JNull
  | (i', s', a, b) :: t' => if String.eqb i i' && String.eqb s s' && jv_eqb v a then b else tr_lookup t' i s v
  end.
Definition env_of (pt : parse_table) (tt : tr_table) : env := {| parse := parse_lookup pt; apply_tr := tr_lookup tt |}.

(* ---- observations *)
Definition obs_error := option (Z * string * option jv * option string).                 (* status, code, id, field *)

Definition error_agrees (m : option error) (o : obs_error) : bool :=
  match m, o with
  | None, None => true
  | Some e, Some (st, code, i, f) =>
      (e_status e =? st) && String.eqb (e_code e) code && option_eqb jv_eqb (e_id e) i && option_eqb String.eqb (e_field e) f
  | _, _ => false
  end.

Record ports_case := {
  pc_parse : parse_table;
  pc_tr : tr_table;
  pc_hub : hub;                      (* the target hub *)
  pc_sent : list jv;                 (* the document that was PUT *)
  pc_src : list entry;               (* GET /ports of the source hub *)
  pc_mutated : bool;                 (* the document was altered after GET *)
  pc_err : obs_error;
  pc_flags : bool * bool;            (* updating enabled, events enabled, when PUT returned *)
  pc_after : list entry;             (* GET /ports afterwards (settled) *)
}.

(* the documents agree as maps from id to entry on every key that is modelled (not pending_value; not the value of a port with
   an expression) *)
(* the tie compares every modelled key, also the value of a port whose transforms are not inverse: only the value of a port
   with an expression and pending_value are left out *)
Definition tie_env : env := {| parse := fun _ _ => None; apply_tr := fun _ _ v => v |}.

Definition ports_model_ok (c : ports_case) : bool :=
  let E := env_of (pc_parse c) (pc_tr c) in
  let get_ports := get_ports E in
  let '(h', err) := put_ports E (pc_sent c) (pc_hub c) in
  error_agrees err (pc_err c)
  && Bool.eqb (h_updating h') (fst (pc_flags c)) && Bool.eqb (h_events h') (snd (pc_flags c))
  && Nat.eqb (List.length (get_ports h')) (List.length (pc_after c))
  && docs_equivb tie_env (get_ports h') (pc_after c) && docs_equivb tie_env (pc_after c) (get_ports h').

Definition obs_as_error (o : obs_error) : option error :=
  match o with Some (st, code, i, f) => Some (api_error st code i f) | None => None end.

Definition sent_entries (c : ports_case) : list entry := match as_entries (pc_sent c) with Some l => l | None => [] end.

Definition ports_spec_ok (c : ports_case) : bool :=
  fst (pc_flags c) && snd (pc_flags c)
  && match obs_as_error (pc_err c) with
     | None => pc_mutated c || docs_equivb (env_of (pc_parse c) (pc_tr c)) (pc_src c) (pc_after c)
     | Some e =>
         (* a rejection names the entry; an unaltered backup is only refused when it has more virtual ports than the hub may hold *)
         (names_entryb (sent_entries c) e || (match as_entries (pc_sent c) with None => true | Some _ => false end))
         && (pc_mutated c
             || (String.eqb (e_code e) "too-many-ports"
                 && (h_vport_limit (pc_hub c) <? Z.of_nat (List.length (filter (fun x => truthy (get "virtual" x)) (pc_src c))))))
     end.

Record device_case := {
  dc_device : device;
  dc_sent : entry;
  dc_src : entry;
  dc_mutated : bool;
  dc_err : obs_error;
  dc_before : entry;                 (* GET /device of the target before *)
  dc_after : entry;
}.

Definition entry_same_map (a b : entry) : bool := entry_eqb a b.

Definition device_model_ok (c : device_case) : bool :=
  let '(d', err) := put_device (dc_sent c) (dc_device c) in
  error_agrees err (dc_err c)
  && forallb (fun k => str_in k ["uptime"; "date"; "cpu_usage"; "mem_usage"; "virtual_ports"]
                       || opt_jv_eqb (lookup k (get_device d')) (lookup k (dc_after c)))
             (map fst (get_device d') ++ map fst (dc_after c)).

Definition device_spec_ok (c : device_case) : bool :=
  list_eqb opt_jv_eqb (passwords_of (dc_before c)) (passwords_of (dc_after c))       (* passwords kept *)
  && match dc_err c with
     | None => dc_mutated c || device_equivb (dc_src c) (dc_after c)
     | Some _ => dc_mutated c
     end.

Record slaves_case := {
  sc_reach : list (string * jv);     (* host ↦ attributes the simulated device at that host answers (absent = unreachable) *)
  sc_sent : list entry;
  sc_mutated : bool;
  sc_err : option (Z * string);
  sc_flags : bool * bool;
  sc_after : list entry;
}.

Definition reach_of (t : list (string * jv)) (e : entry) : option jv :=
  match get "host" e with JStr h => lookup h t | _ => None end.

Definition slaves_model_ok (c : slaves_case) : bool :=
  let '(s', err) := put_slave_devices (reach_of (sc_reach c)) (sc_sent c) {| sl_devices := []; sl_updating := true; sl_events := true |} in
  option_eqb (fun a b => (fst a =? fst b) && String.eqb (snd a) (snd b)) err (sc_err c)
  && Bool.eqb (sl_updating s') (fst (sc_flags c)) && Bool.eqb (sl_events s') (snd (sc_flags c))
  && doc_eqb (map strip_slave (get_slave_devices s')) (map strip_slave (sc_after c)).

Definition slaves_spec_ok (c : slaves_case) : bool :=
  fst (sc_flags c) && snd (sc_flags c)
  && match sc_err c with
     | None => sc_mutated c || doc_eqb (map strip_slave (sc_sent c)) (map strip_slave (sc_after c))
     | Some (i, _) => sc_mutated c && (0 <=? i) && (i <? Z.of_nat (List.length (sc_sent c)))
     end.

Record periph_case := {
  rc_known : list string;
  rc_current : list peripheral;
  rc_sent : list entry;
  rc_mutated : bool;
  rc_err : option (Z * string);
  rc_after : list entry;
}.

Definition periph_model_ok (c : periph_case) : bool :=
  let '(ps, err) := put_peripherals (fun d => str_in d (rc_known c)) (fun _ => "") (rc_sent c) (rc_current c) in
  option_eqb (fun a b => String.eqb (snd a) (snd b)) err (rc_err c)
  && doc_eqb (get_peripherals ps) (rc_after c).

Definition periph_spec_ok (c : periph_case) : bool :=
  match rc_err c with
  | None => rc_mutated c || doc_eqb (rc_sent c) (rc_after c)
  | Some _ => rc_mutated c
  end.

Record case := {
  k_ports : option ports_case;
  k_device : option device_case;
  k_slaves : option slaves_case;
  k_periph : option periph_case;
}.

Definition part {A} (f : A -> bool) (o : option A) (code : Z) : list Z :=
  match o with Some c => if f c then [] else [code] | None => [] end.

Fixpoint collect (f : case -> list Z) (cases : list case) (i : Z) : list Z :=
  match cases with
  | [] => []
  | c :: rest => map (fun code => 10 * i + code) (f c) ++ collect f rest (i + 1)
  end.

Definition bad_model (cases : list case) : list Z :=
  collect (fun c => part ports_model_ok (k_ports c) 1 ++ part device_model_ok (k_device c) 2
                    ++ part slaves_model_ok (k_slaves c) 3 ++ part periph_model_ok (k_periph c) 4) cases 0.
Definition bad_spec (cases : list case) : list Z :=
  collect (fun c => part ports_spec_ok (k_ports c) 1 ++ part device_spec_ok (k_device c) 2
                    ++ part slaves_spec_ok (k_slaves c) 3 ++ part periph_spec_ok (k_periph c) 4) cases 0.

(* ---- short constructors for the case files *)
Definition P (i : string) (virtual writable : bool) (def fixed : entry) (kinds : list (string * akind)) (attrs : entry) (v : jv)
  : port :=
  {| p_id := i; p_virtual := virtual; p_writable := writable; p_def := def; p_fixed := fixed; p_kinds := kinds;
     p_attrs := attrs; p_raw := v |}.
Definition H (ports : list port) (limit : Z) (history : bool) (slave_names : list string) : hub :=
  {| h_ports := ports; h_vport_limit := limit; h_history := history; h_backup_support := true;
     h_slave_names := slave_names; h_updating := true; h_events := true |}.
Definition N (q : Z) : jv := JNum q.
Definition S (s : string) : jv := JStr s.
Definition T : jv := JBool true.
Definition F : jv := JBool false.
Definition U : jv := JNull.
Definition L (l : list jv) : jv := JList l.
Definition O (l : list (string * jv)) : jv := JObj l.

(* ---- diagnostics: where model and implementation differ (port id, key) *)
Definition entry_diff (E : env) (a b : entry) : list string :=
  filter (fun k => compared E a k && negb (opt_jv_eqb (lookup k a) (lookup k b))) (map fst a ++ map fst b).

Definition ports_model_diff (c : ports_case) : option error * (bool * bool) * list (string * list string) :=
  let E := env_of (pc_parse c) (pc_tr c) in
  let get_ports := get_ports E in
  let '(h', err) := put_ports E (pc_sent c) (pc_hub c) in
  (err, (h_updating h', h_events h'),
   flat_map (fun i => match find_entry i (get_ports h'), find_entry i (pc_after c) with
                      | Some a, Some b => match entry_diff tie_env a b with [] => [] | l => [(i, l)] end
                      | None, None => []
                      | Some _, None => [(i, ["only in the model"])]
                      | None, Some _ => [(i, ["only in the implementation"])]
                      end) (ids_of (get_ports h') ++ ids_of (pc_after c))).

Definition device_model_diff (c : device_case) : option error * list string :=
  let '(d', err) := put_device (dc_sent c) (dc_device c) in
  (err, filter (fun k => negb (opt_jv_eqb (lookup k (get_device d')) (lookup k (dc_after c))))
               (map fst (get_device d') ++ map fst (dc_after c))).
