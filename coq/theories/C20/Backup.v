(* C20 — model of the backup / restore code that exists in /repo (definitions only, total and computable; no proofs here).

   core/api/funcs/ports.py     get_ports, put_ports, add_virtual_port, set_port_attrs, wrap_error_with_port_id
   core/ports.py               BasePort.to_json / get_attrs / set_attr / attr_set_expression / attr_set_transform_* /
                               reset / get_schema; STANDARD_ATTRDEFS
   core/vports.py              VirtualPort (definition fields), all_port_args
   core/expressions            check_loops
   core/api/funcs/device.py    get_device, put_device     core/device/__init__.py reset, load; attrs.py set_attrs, to_json
   slaves/api/funcs/devices.py get_slave_devices, put_slave_devices (entries restored as disabled devices)
   peripherals/api/funcs.py    get_peripherals, put_peripherals; peripherals/__init__.py add

   JSON numbers are kept as integers of QUARTERS (JNum q stands for q/4), exact for the values the harness generates.
   Expression parsing/printing and the evaluation of transforms are taken from the environment ([env]): C02/C03 are about
   them; here they are functions the restore code calls. *)
From QT Require Export Base.Prelude.
Open Scope string_scope.
Open Scope list_scope.
Open Scope Z_scope.

(* ---------------------------------------------------------------------------------------------------------- *)
(* JSON *)

Inductive jv :=
| JNull | JBool (b : bool) | JNum (q : Z) | JStr (s : string) | JList (l : list jv) | JObj (l : list (string * jv)).

Definition entry := list (string * jv).          (* a JSON object, keys in document order *)

Fixpoint lookup (k : string) (e : entry) : option jv :=
  match e with
  | [] => None
  | (k', v) :: r => if String.eqb k k' then Some v else lookup k r
  end.

Definition has_key (k : string) (e : entry) : bool := match lookup k e with Some _ => true | None => false end.

(* dict.get(k): an absent key and null are the same *)
Definition get (k : string) (e : entry) : jv := match lookup k e with Some v => v | None => JNull end.

Fixpoint set_key (k : string) (v : jv) (e : entry) : entry :=      (* replaces the value of an existing key, in place *)
  match e with
  | [] => []
  | (k', v') :: r => if String.eqb k k' then (k', v) :: r else (k', v') :: set_key k v r
  end.

Fixpoint remove_key (k : string) (e : entry) : entry :=
  match e with
  | [] => []
  | (k', v') :: r => if String.eqb k k' then remove_key k r else (k', v') :: remove_key k r
  end.

Definition is_null (v : jv) : bool := match v with JNull => true | _ => false end.

(* Python truth value of a JSON value (`if virtual:`) *)
Definition truthy (v : jv) : bool :=
  match v with
  | JNull => false | JBool b => b | JNum q => negb (q =? 0) | JStr s => negb (String.eqb s "")
  | JList l => match l with [] => false | _ => true end
  | JObj l => match l with [] => false | _ => true end
  end.

(* ---------------------------------------------------------------------------------------------------------- *)
(* environment: expression parsing and transform evaluation *)

Record env := {
  (* parse (port id) (text) = Some (printed form, ids of the $port nodes in evaluation order; `$` alone is the port itself);
     None = ExpressionParseError *)
  parse : string -> string -> option (string * list string);
  (* apply_tr (port id) (transform text) v = adapt_value_type(transform.eval({port: v})) *)
  apply_tr : string -> string -> jv -> jv;
}.

(* ---------------------------------------------------------------------------------------------------------- *)
(* attribute domains (what BasePort.get_schema hands to jsonschema for a modifiable attribute, plus the step test) *)

Inductive akind :=
| KStr (maxlen : nat)                                  (* string, maxLength *)
| KBool
| KInt (lo hi : Z) (step : option Z)                   (* integer number within [lo, hi] (in units), on the grid lo + k*step *)
| KEnum (choices : list string)                        (* string among the choices *)
| KName                                                (* device name: ^[_a-zA-Z][_a-zA-Z0-9-]{0,31}$ *)
| KExpr                                                (* expression text (max 10240) *)
| KTransform.                                          (* transform text (max 10240), may only refer to the port itself *)

Definition std_kind (name : string) : option akind :=
  if String.eqb name "display_name" then Some (KStr 64)
  else if String.eqb name "unit" then Some (KStr 16)
  else if String.eqb name "enabled" then Some KBool
  else if String.eqb name "tag" then Some (KStr 64)
  else if String.eqb name "expression" then Some KExpr
  else if String.eqb name "transform_read" then Some KTransform
  else if String.eqb name "transform_write" then Some KTransform
  else if String.eqb name "persisted" then Some KBool
  else if String.eqb name "internal" then Some KBool
  else if String.eqb name "history_interval" then Some (KInt (-1) 2147483647 None)
  else if String.eqb name "history_retention" then Some (KInt 0 2147483647 None)
  else None.

Definition str_in (s : string) (l : list string) : bool := existsb (String.eqb s) l.

Definition is_name_start (a : ascii) : bool :=
  let n := N_of_ascii a in ((65 <=? n) && (n <=? 90) || (97 <=? n) && (n <=? 122) || (n =? 95))%N.
Definition is_name_char (a : ascii) : bool :=
  let n := N_of_ascii a in (is_name_start a || (48 <=? n) && (n <=? 57) || (n =? 45))%N.
Fixpoint all_chars (f : ascii -> bool) (s : string) : bool :=
  match s with EmptyString => true | String a r => f a && all_chars f r end.
Definition valid_name (s : string) : bool :=
  match s with
  | EmptyString => false
  | String a r => is_name_start a && all_chars is_name_char r && Nat.leb (String.length r) 31
  end.

(* the schema test (and the step test of set_port_attrs) *)
Definition attr_valid (k : akind) (v : jv) : bool :=
  match k, v with
  | KStr n, JStr s => Nat.leb (String.length s) n
  | KBool, JBool _ => true
  | KInt lo hi st, JNum q =>
      (q mod 4 =? 0) && (4 * lo <=? q) && (q <=? 4 * hi)
      && match st with Some s => (s =? 0) || ((q - 4 * lo) mod (4 * s) =? 0) | None => true end
  | KEnum cs, JStr s => str_in s cs
  | KName, JStr s => valid_name s
  | KExpr, JStr s => Nat.leb (String.length s) 10240
  | KTransform, JStr s => Nat.leb (String.length s) 10240
  | _, _ => false
  end.

(* ---------------------------------------------------------------------------------------------------------- *)
(* ports *)

Record port := {
  p_id : string;
  p_virtual : bool;
  p_writable : bool;
  p_def : entry;                     (* type, min, max, integer, step, choices (those that are not null): fixed at creation *)
  p_fixed : entry;                   (* other reported attributes that cannot be modified (driver specific) and `definitions` *)
  p_kinds : list (string * akind);   (* driver specific modifiable attributes and their domains *)
  p_attrs : entry;                   (* current values of the supported modifiable attributes, GET order
                                        (display_name, unit, enabled, tag, expression, transform_read, transform_write,
                                         persisted, internal, history_*, driver specific) *)
  p_raw : jv;                        (* what the driver reads: the hardware input, or what was last written to it *)
}.

Definition with_attrs (p : port) (a : entry) : port :=
  {| p_id := p_id p; p_virtual := p_virtual p; p_writable := p_writable p; p_def := p_def p; p_fixed := p_fixed p;
     p_kinds := p_kinds p; p_attrs := a; p_raw := p_raw p |}.
Definition with_raw (p : port) (v : jv) : port :=
  {| p_id := p_id p; p_virtual := p_virtual p; p_writable := p_writable p; p_def := p_def p; p_fixed := p_fixed p;
     p_kinds := p_kinds p; p_attrs := p_attrs p; p_raw := v |}.

Definition attr_str (p : port) (k : string) : string := match lookup k (p_attrs p) with Some (JStr s) => s | _ => "" end.
Definition p_enabled (p : port) : bool := match lookup "enabled" (p_attrs p) with Some (JBool b) => b | _ => false end.
Definition p_expression (p : port) : string := attr_str p "expression".

Definition kind_of (p : port) (name : string) : option akind :=
  match std_kind name with
  | Some k => Some k
  | None => match find (fun x => String.eqb name (fst x)) (p_kinds p) with Some x => Some (snd x) | None => None end
  end.

(* the value the polling loop reads: transform_read applied to what the driver reads *)
Definition port_value (E : env) (p : port) : jv :=
  let tr := attr_str p "transform_read" in
  if String.eqb tr "" then p_raw p else apply_tr E (p_id p) tr (p_raw p).

(* BasePort.to_json: every supported attribute, then value / pending_value *)
Definition port_json (E : env) (p : port) : entry :=
  ("id", JStr (p_id p)) :: p_def p ++ ("writable", JBool (p_writable p)) :: p_fixed p
  ++ (if p_virtual p then [("virtual", JBool true)] else [])
  ++ p_attrs p
  ++ [("value", if p_enabled p then port_value E p else JNull); ("pending_value", JNull)].

(* string order of sorted(..., key=get_id) (code points; ids are ASCII) *)
Fixpoint str_leb (a b : string) : bool :=
  match a, b with
  | EmptyString, _ => true
  | String _ _, EmptyString => false
  | String x a', String y b' =>
      let nx := N_of_ascii x in let ny := N_of_ascii y in
      if N.ltb nx ny then true else if N.ltb ny nx then false else str_leb a' b'
  end.

Fixpoint insert_port (p : port) (l : list port) : list port :=
  match l with
  | [] => [p]
  | q :: r => if str_leb (p_id p) (p_id q) then p :: l else q :: insert_port p r
  end.
Definition sort_ports (l : list port) : list port := fold_right insert_port [] l.

(* ---------------------------------------------------------------------------------------------------------- *)
(* the hub as far as GET/PUT /ports is concerned *)

Record hub := {
  h_ports : list port;               (* core.ports._ports_by_id, insertion order *)
  h_vport_limit : Z;                 (* settings.core.virtual_ports *)
  h_history : bool;                  (* history enabled: virtual ports have history_interval / history_retention *)
  h_backup_support : bool;
  h_slave_names : list string;
  h_updating : bool;                 (* core.main._updating_enabled *)
  h_events : bool;                   (* core.events.handlers._enabled *)
}.

Definition with_ports (h : hub) (l : list port) : hub :=
  {| h_ports := l; h_vport_limit := h_vport_limit h; h_history := h_history h; h_backup_support := h_backup_support h;
     h_slave_names := h_slave_names h; h_updating := h_updating h; h_events := h_events h |}.
Definition with_flags (h : hub) (u e : bool) : hub :=
  {| h_ports := h_ports h; h_vport_limit := h_vport_limit h; h_history := h_history h; h_backup_support := h_backup_support h;
     h_slave_names := h_slave_names h; h_updating := u; h_events := e |}.

Definition find_port (i : string) (l : list port) : option port := find (fun p => String.eqb i (p_id p)) l.

Fixpoint replace_port (p : port) (l : list port) : list port :=
  match l with
  | [] => []
  | q :: r => if String.eqb (p_id p) (p_id q) then p :: r else q :: replace_port p r
  end.

Definition get_ports (E : env) (h : hub) : list entry := map (port_json E) (sort_ports (h_ports h)).

(* ---------------------------------------------------------------------------------------------------------- *)
(* errors *)

Record error := {
  e_status : Z;
  e_code : string;
  e_id : option jv;                  (* the `id` parameter added by wrap_error_with_port_id *)
  e_field : option string;           (* `field` (validation) *)
}.
Definition api_error (st : Z) (code : string) (i : option jv) (f : option string) : error :=
  {| e_status := st; e_code := code; e_id := i; e_field := f |}.

(* ---------------------------------------------------------------------------------------------------------- *)
(* check_loops (core/expressions/__init__.py): depth-first over the expressions of the ports referred to, with a set of
   visited ports; a loop is the port itself met below the first level.  [fuel] bounds the depth (number of ports + 1 suffices). *)

Fixpoint loops_rec (fuel : nat) (E : env) (G : list port) (self : string) (level : nat) (deps seen : list string)
  : bool * list string :=
  match fuel with
  | O => (false, seen)
  | S fuel' =>
      (fix over (ds : list string) (seen : list string) : bool * list string :=
         match ds with
         | [] => (false, seen)
         | d :: rest =>
             match find_port d G with
             | None => over rest seen
             | Some q =>
                 if String.eqb d self && Nat.ltb 1 level then (true, seen)
                 else if str_in d seen then over rest seen
                 else
                   let seen1 := d :: seen in
                   let ex := p_expression q in
                   if String.eqb ex "" then over rest seen1
                   else match parse E d ex with
                        | None => over rest seen1
                        | Some (_, qdeps) =>
                            let '(found, seen2) := loops_rec fuel' E G self (S level) qdeps seen1 in
                            if found then (true, seen2) else over rest seen2
                        end
             end
         end) deps seen
  end.

Definition has_loop (E : env) (G : list port) (self : string) (deps : list string) : bool :=
  fst (loops_rec (S (List.length G)) E G self 1 deps [self]).

(* ---------------------------------------------------------------------------------------------------------- *)
(* set_port_attrs(port, attrs, ignore_extra_attrs=True) *)

(* schema validation + step validation: the first offending attribute of the entry *)
Fixpoint first_invalid (p : port) (e : entry) : option string :=
  match e with
  | [] => None
  | (n, v) :: r =>
      if has_key n (p_attrs p)
      then match kind_of p n with
           | Some k => if attr_valid k v then first_invalid p r else Some n
           | None => first_invalid p r
           end
      else first_invalid p r
  end.

(* port.set_attr(name, value) for a supported modifiable attribute: the new attribute list, or the failing attribute *)
Definition set_attr (E : env) (G : list port) (p : port) (n : string) (v : jv) : entry + string :=
  match kind_of p n, v with
  | Some KExpr, JStr s =>
      if String.eqb s "" then inl (set_key n (JStr "") (p_attrs p))
      else match parse E (p_id p) s with
           | None => inr n
           | Some (printed, deps) =>
               if has_loop E G (p_id p) deps then inr n else inl (set_key n (JStr printed) (p_attrs p))
           end
  | Some KTransform, JStr s =>
      if String.eqb s "" then inl (set_key n (JStr "") (p_attrs p))
      else match parse E (p_id p) s with
           | None => inr n
           | Some (printed, deps) =>
               if forallb (String.eqb (p_id p)) deps then inl (set_key n (JStr printed) (p_attrs p)) else inr n
           end
  | _, _ => inl (set_key n v (p_attrs p))
  end.

(* all attributes of the entry in document order (each task runs up to its first suspension in creation order); errors
   are collected and the first one is raised afterwards, the other attributes stay applied.  [G] is the list of all ports
   (loop detection reads the expressions the other ports have at that moment). *)
Fixpoint apply_attrs (E : env) (G : list port) (p : port) (e : entry) (err : option string) : port * option string :=
  match e with
  | [] => (p, err)
  | (n, v) :: r =>
      if String.eqb n "value" then apply_attrs E G p r err
      else if has_key n (p_attrs p) && match kind_of p n with Some _ => true | None => false end
      then match set_attr E (replace_port p G) p n v with
           | inl a => apply_attrs E G (with_attrs p a) r err
           | inr f => apply_attrs E G p r (match err with None => Some f | _ => err end)
           end
      else apply_attrs E G p r err
  end.

(* the value of the entry is written in the background when the port is enabled after the attributes have been set:
   the driver receives transform_write(v).  A port that is not writable refuses. *)
Definition write_value (E : env) (p : port) (v : jv) : port :=
  if p_enabled p && p_writable p then
    let tw := attr_str p "transform_write" in
    with_raw p (if String.eqb tw "" then v else apply_tr E (p_id p) tw v)
  else p.

Definition set_port_attrs (E : env) (h : hub) (p : port) (idv : jv) (e : entry) : hub * option error :=
  match first_invalid p e with
  | Some f => (h, Some (api_error 400 "invalid-field" (Some idv) (Some f)))
  | None =>
      let '(p1, err) := apply_attrs E (h_ports h) p e None in
      match err with
      | Some f => (with_ports h (replace_port p1 (h_ports h)), Some (api_error 400 "invalid-field" (Some idv) (Some f)))
      | None =>
          let p2 := match lookup "value" e with Some v => write_value E p1 v | None => p1 end in
          (with_ports h (replace_port p2 (h_ports h)), None)
      end
  end.

(* ---------------------------------------------------------------------------------------------------------- *)
(* add_virtual_port: schema POST_PORTS (additional properties allowed), limit, creation with default attributes *)

Definition is_id_start (a : ascii) : bool :=
  let n := N_of_ascii a in ((65 <=? n) && (n <=? 90) || (97 <=? n) && (n <=? 122) || (n =? 95))%N.
Definition is_id_char (a : ascii) : bool :=
  let n := N_of_ascii a in (is_id_start a || (48 <=? n) && (n <=? 57) || (n =? 46) || (n =? 45))%N.
(* ^[a-zA-Z_][a-zA-Z0-9_.-]{0,63}$ *)
Definition valid_port_id (s : string) : bool :=
  match s with
  | EmptyString => false
  | String a r => is_id_start a && all_chars is_id_char r && Nat.leb (String.length r) 63
  end.

Definition is_number (v : jv) : bool := match v with JNum _ => true | _ => false end.
Definition is_boolean (v : jv) : bool := match v with JBool _ => true | _ => false end.

Definition valid_choice (c : jv) : option string :=
  match c with
  | JObj o =>
      match lookup "value" o with
      | Some v => if is_number v || is_boolean v then
                    match lookup "display_name" o with
                    | None => None
                    | Some (JStr s) => if Nat.leb (String.length s) 64 then None else Some "display_name"
                    | Some _ => Some "display_name"
                    end
                  else Some "value"
      | None => Some "choices"
      end
  | _ => Some "choices"
  end.

Fixpoint first_some {A B} (f : A -> option B) (l : list A) : option B :=
  match l with [] => None | x :: r => match f x with Some y => Some y | None => first_some f r end end.

(* (code, field) of the validation error of a new port's definition, if any *)
Definition invalid_new_port (e : entry) : option (string * string) :=
  match lookup "id" e with
  | Some (JStr s) =>
      if negb (valid_port_id s) then Some ("invalid-field", "id") else
      match lookup "type" e with
      | None => Some ("missing-field", "type")
      | Some (JStr t) =>
          if negb (String.eqb t "boolean" || String.eqb t "number") then Some ("invalid-field", "type") else
          let num k := match lookup k e with Some v => negb (is_number v) | None => false end in
          if num "min" then Some ("invalid-field", "min") else
          if num "max" then Some ("invalid-field", "max") else
          if match lookup "integer" e with Some v => negb (is_boolean v) | None => false end then Some ("invalid-field", "integer") else
          if num "step" then Some ("invalid-field", "step") else
          match lookup "choices" e with
          | None => None
          | Some (JList l) =>
              if Nat.ltb (List.length l) 2 || Nat.ltb 256 (List.length l) then Some ("invalid-field", "choices")
              else match first_some valid_choice l with Some f => Some ("invalid-field", f) | None => None end
          | Some _ => Some ("invalid-field", "choices")
          end
      | Some _ => Some ("invalid-field", "type")
      end
  | _ => Some ("invalid-field", "id")
  end.

Definition def_keys : list string := ["type"; "min"; "max"; "integer"; "step"; "choices"].

(* the definition fields a virtual port reports: those given and not null *)
Definition def_of_entry (e : entry) : entry :=
  flat_map (fun k => match lookup k e with Some v => if is_null v then [] else [(k, v)] | None => [] end) def_keys.

Definition fresh_attrs (history : bool) (e : entry) : entry :=
  [("display_name", JStr "")]
  ++ (match lookup "type" e with Some (JStr t) => if String.eqb t "number" then [("unit", JStr "")] else [] | _ => [] end)
  ++ [("enabled", JBool true); ("tag", JStr ""); ("expression", JStr ""); ("transform_read", JStr "");
      ("transform_write", JStr ""); ("persisted", JBool false); ("internal", JBool false)]
  ++ (if history then [("history_interval", JNum 0); ("history_retention", JNum 0)] else []).

Definition fresh_vport (history : bool) (i : string) (e : entry) : port :=
  {| p_id := i; p_virtual := true; p_writable := true; p_def := def_of_entry e;
     p_fixed := [("definitions", JObj [])]; p_kinds := []; p_attrs := fresh_attrs history e; p_raw := JNull |}.

Definition count_virtual (l : list port) : Z := Z.of_nat (List.length (filter p_virtual l)).

(* ---------------------------------------------------------------------------------------------------------- *)
(* put_ports *)

(* what differs between the code before and after the proposed repairs *)
Record variant := {
  v_reset_clears_expression : bool;     (* repaired: the restore forgets the expressions of the ports that stay *)
  v_slave_prefix_heuristic : bool;      (* unrepaired: an id starting with "<slave name>." is never a local virtual port *)
}.
Definition repaired : variant := {| v_reset_clears_expression := true; v_slave_prefix_heuristic := false |}.
Definition unrepaired : variant := {| v_reset_clears_expression := false; v_slave_prefix_heuristic := true |}.

Definition slave_prefixed (names : list string) (i : string) : bool :=
  existsb (fun n => String.prefix (n ++ ".")%string i) names.

Definition restore_entry (V : variant) (E : env) (h : hub) (e : entry) : hub * option error :=
  match lookup "id" e with
  | None | Some JNull => (h, None)                                          (* "ignoring entry without id" *)
  | Some idv =>
      let existing := match idv with JStr i => find_port i (h_ports h) | _ => None end in
      let virtual :=
        truthy (get "virtual" e)
        && match existing with None => true | Some _ => false end
        && negb (v_slave_prefix_heuristic V
                 && match idv with JStr i => slave_prefixed (h_slave_names h) i | _ => false end)
        && negb (has_key "provisioning" e) in
      if virtual then
        match invalid_new_port e with
        | Some (code, f) => (h, Some (api_error 400 code (Some idv) (Some f)))
        | None =>
            match idv with
            | JStr i =>
                if h_vport_limit h <=? count_virtual (h_ports h)
                then (h, Some (api_error 400 "too-many-ports" (Some idv) None))
                else let p := fresh_vport (h_history h) i e in
                     set_port_attrs E (with_ports h (h_ports h ++ [p])) p idv e
            | _ => (h, Some (api_error 400 "invalid-field" (Some idv) (Some "id")))
            end
        end
      else
        match existing with
        | None => (h, None)                                                  (* "ignoring unknown port id" *)
        | Some p => set_port_attrs E h p idv e
        end
  end.

Fixpoint restore_entries (V : variant) (E : env) (h : hub) (doc : list entry) : hub * option error :=
  match doc with
  | [] => (h, None)
  | e :: r => match restore_entry V E h e with
              | (h1, None) => restore_entries V E h1 r
              | (h1, Some err) => (h1, Some err)
              end
  end.

Definition clear_expression (p : port) : port := with_attrs p (set_key "expression" (JStr "") (p_attrs p)).

(* the body of the try block *)
Definition restore_body (V : variant) (E : env) (h : hub) (doc : list entry) : hub * option error :=
  let kept := filter (fun p => negb (p_virtual p)) (h_ports h) in                    (* remove all virtual ports *)
  let kept := if v_reset_clears_expression V then map clear_expression kept else kept in   (* reset the others *)
  restore_entries V E (with_ports h kept) doc.

Definition as_entries (doc : list jv) : option (list entry) :=
  fold_right (fun x acc => match x, acc with JObj o, Some l => Some (o :: l) | _, _ => None end) (Some []) doc.

Definition put_ports_gen (V : variant) (E : env) (doc : list jv) (h : hub) : hub * option error :=
  if negb (h_backup_support h) then (h, Some (api_error 404 "no-such-function" None None)) else
  match as_entries doc with
  | None =>
      (* PUT_PORTS: an array of objects.  The error carries the index of the offending item as `field` - except index 0, which
         the `if field:` test of schema.validate takes for "no field": invalid-request *)
      match doc with
      | JObj _ :: _ => (h, Some (api_error 400 "invalid-field" None (Some "<index>")))
      | _ => (h, Some (api_error 400 "invalid-request" None None))
      end
  | Some entries =>
      let h1 := with_flags h false false in                                  (* core_events.disable(); disable_updating() *)
      let '(h2, err) := restore_body V E h1 entries in                       (* try: ... *)
      (with_flags h2 true true, err)                                         (* finally: enable_updating(); core_events.enable() *)
  end.

Definition put_ports := put_ports_gen repaired.

(* ---------------------------------------------------------------------------------------------------------- *)
(* GET/PUT /device *)

Record device := {
  dv_attrs : entry;                  (* modifiable, persisted attributes without the passwords: name, display_name, ... *)
  dv_defaults : entry;               (* what importlib.reload(device_attrs) gives them *)
  dv_kinds : list (string * akind);  (* their domains (loose schema) *)
  dv_hashes : entry;                 (* admin/normal/viewonly _password_hash *)
  dv_readonly : entry;               (* version, api_version, vendor, flags, virtual_ports, uptime, date, cpu_usage, ... *)
}.

Definition empty_hash : string := "e3b0c44298fc1c149afbf4c8996fb92427ae41e4649b934ca495991b7852b855".

Definition password_field (d : device) (which : string) : string * jv :=
  ((which ++ "_password")%string,
   match lookup (which ++ "_password_hash")%string (dv_hashes d) with
   | Some (JStr hsh) => if String.eqb hsh empty_hash then JStr "" else JStr "set"
   | _ => JStr "set"
   end).

Definition get_device (d : device) : entry :=
  dv_attrs d ++ [password_field d "admin"; password_field d "normal"; password_field d "viewonly"] ++ dv_readonly d.

Definition with_dv_attrs (d : device) (a : entry) : device :=
  {| dv_attrs := a; dv_defaults := dv_defaults d; dv_kinds := dv_kinds d; dv_hashes := dv_hashes d; dv_readonly := dv_readonly d |}.

Definition dv_kind (d : device) (n : string) : option akind :=
  match find (fun x => String.eqb n (fst x)) (dv_kinds d) with Some x => Some (snd x) | None => None end.

Fixpoint dv_first_invalid (d : device) (e : entry) : option string :=
  match e with
  | [] => None
  | (n, v) :: r => match dv_kind d n with
                   | Some k => if attr_valid k v then dv_first_invalid d r else Some n
                   | None => dv_first_invalid d r
                   end
  end.

Definition is_password_field (n : string) : bool :=
  String.eqb n "admin_password" || String.eqb n "normal_password" || String.eqb n "viewonly_password".

(* set_attrs(params, ignore_extra=True): attributes without definition or not modifiable are skipped *)
Fixpoint dv_apply (d : device) (a : entry) (e : entry) : entry :=
  match e with
  | [] => a
  | (n, v) :: r => if is_password_field n || String.eqb n "date" then dv_apply d a r
                   else if has_key n a then dv_apply d (set_key n v a) r else dv_apply d a r
  end.

Definition put_device (doc : entry) (d : device) : device * option error :=
  match dv_first_invalid d doc with
  | Some f => (d, Some (api_error 400 "invalid-field" None (Some f)))
  | None => (with_dv_attrs d (dv_apply d (dv_defaults d) doc), None)        (* reset (hashes preserved), load, set_attrs, save *)
  end.

(* ---------------------------------------------------------------------------------------------------------- *)
(* GET/PUT /devices (slaves).  Entries are restored as they are when `enabled` is false; an enabled entry is fetched from the
   device ([reach], below). *)

Record slaves := {
  sl_devices : list entry;           (* to_json of every slave, insertion order *)
  sl_updating : bool;
  sl_events : bool;
}.

Definition get_slave_devices (s : slaves) : list entry := sl_devices s.

Definition slave_required : list string := ["scheme"; "host"; "port"; "path"].

Definition invalid_slave (e : entry) : option (string * string) :=
  match first_some (fun k => if has_key k e then None else Some k) slave_required with
  | Some k => Some ("missing-field", k)
  | None =>
      if negb (match get "scheme" e with JStr s => String.eqb s "http" || String.eqb s "https" | _ => false end)
      then Some ("invalid-field", "scheme")
      else if negb (match get "host" e with JStr s => Nat.leb (String.length s) 256 | _ => false end) then Some ("invalid-field", "host")
      else if negb (match get "port" e with JNum q => q mod 4 =? 0 | _ => false end) then Some ("invalid-field", "port")
      else if negb (match get "path" e with JStr s => Nat.leb (String.length s) 256 | _ => false end) then Some ("invalid-field", "path")
      else if negb (match lookup "admin_password" e with None => true | Some (JStr s) => Nat.leb (String.length s) 32 | Some _ => false end)
           then Some ("invalid-field", "admin_password")
      else if negb (match lookup "admin_password_hash" e with None => true | Some (JStr s) => Nat.eqb (String.length s) 64 | Some _ => false end)
           then Some ("invalid-field", "admin_password_hash")
      else if negb (match lookup "poll_interval" e with None => true | Some (JNum _) => true | Some _ => false end)
           then Some ("invalid-field", "poll_interval")
      else if negb (match lookup "listen_enabled" e with None => true | Some (JBool _) => true | Some _ => false end)
           then Some ("invalid-field", "listen_enabled")
      else None
  end.

Definition same_endpoint (a b : entry) : bool :=
  match get "scheme" a, get "scheme" b, get "host" a, get "host" b, get "port" a, get "port" b, get "path" a, get "path" b with
  | JStr s1, JStr s2, JStr h1, JStr h2, JNum p1, JNum p2, JStr q1, JStr q2 =>
      String.eqb s1 s2 && String.eqb h1 h2 && (p1 =? p2) && String.eqb q1 q2
  | _, _, _, _, _, _, _, _ => false
  end.

(* a device keeps its listening switch as a boolean: not stated = off (repaired: fixes/C20-slave-listen-enabled-boolean.diff; the
   unrepaired Slave kept None and GET /devices answered null, which PUT /devices refuses) *)
Definition stated_listen (v : jv) : jv := match v with JNull => JBool false | _ => v end.

(* what to_json answers for a device added disabled from the entry e *)
Definition slave_json (e : entry) : entry :=
  [("enabled", JBool false); ("name", get "name" e); ("scheme", get "scheme" e); ("host", get "host" e);
   ("port", get "port" e); ("path", get "path" e); ("admin_password_hash", get "admin_password_hash" e);
   ("poll_interval", match lookup "poll_interval" e with Some v => v | None => JNum 0 end);
   ("listen_enabled", stated_listen (get "listen_enabled" e));
   ("last_sync", match lookup "last_sync" e with Some v => v | None => JNum (-4) end);
   ("online", JBool false);
   ("provisioning", match lookup "provisioning" e with Some (JList l) => JList l | _ => JList [] end);
   ("attrs", match lookup "attrs" e with Some (JObj o) => JObj o | _ => JObj [] end)].

(* ---- enabled entries: slaves.devices.add() fetches GET /device from the device.  [reach e] = what the device at the entry's
   endpoint answers (its attributes, with `flags`), None when it cannot be reached. *)

Definition has_listen_flag (attrs : jv) : bool :=
  match attrs with
  | JObj o => match get "flags" o with
              | JList l => existsb (fun x => match x with JStr f => String.eqb f "listen" | _ => false end) l
              | _ => false
              end
  | _ => false
  end.

Definition listen_true (e : entry) : bool := match get "listen_enabled" e with JBool true => true | _ => false end.

(* `enabled` defaults to true (add(..., enabled=True)) *)
Definition entry_enabled (e : entry) : bool := match lookup "enabled" e with Some v => truthy v | None => true end.

(* the device's attributes when the entry ends up as an ENABLED device: it is enabled, reachable, and listening is not asked of a
   device without the `listen` flag (NoListenSupport).  In the other cases of an enabled entry add_slave_device_retry_disabled adds
   it again as a disabled device. *)
Definition slave_live (reach : entry -> option jv) (e : entry) : option jv :=
  if entry_enabled e then
    match reach e with
    | Some a => if listen_true e && negb (has_listen_flag a) then None else Some a
    | None => None
    end
  else None.

Definition default_poll_interval : Z := 40.            (* _DEFAULT_POLL_INTERVAL = 10 s, in quarters *)

(* to_json of a device added enabled.  The sync method is detected ONLY when it is unspecified: listen_enabled absent/null and
   poll_interval 0; explicit values - also "neither" (false, 0): a permanently offline device - are kept. *)
Definition live_json (e : entry) (a : jv) : entry :=
  let le := get "listen_enabled" e in
  let pi := match lookup "poll_interval" e with Some v => v | None => JNum 0 end in
  let unspecified := is_null le && match pi with JNum 0 => true | _ => false end in
  let le' := if unspecified && has_listen_flag a then JBool true else stated_listen le in
  let pi' := if unspecified && negb (has_listen_flag a) then JNum default_poll_interval else pi in
  [("enabled", JBool true); ("name", get "name" e); ("scheme", get "scheme" e); ("host", get "host" e);
   ("port", get "port" e); ("path", get "path" e); ("admin_password_hash", get "admin_password_hash" e);
   ("poll_interval", pi'); ("listen_enabled", le');
   ("last_sync", match lookup "last_sync" e with Some v => v | None => JNum (-4) end);     (* stamped by the fetch: volatile *)
   ("online", JBool false);
   ("provisioning", match lookup "provisioning" e with Some (JList l) => JList l | _ => JList [] end);
   ("attrs", a)].

Definition slave_result (reach : entry -> option jv) (e : entry) : entry :=
  match slave_live reach e with Some a => live_json e a | None => slave_json e end.

(* the device is added disabled (or was disabled in the first place) and listening is asked although the attributes kept in the
   entry do not have the `listen` flag: NoListenSupport also for a disabled device *)
Definition slave_no_listen (reach : entry -> option jv) (e : entry) : bool :=
  match slave_live reach e with
  | Some _ => false
  | None => listen_true e && negb (has_listen_flag (get "attrs" e))
  end.

(* the entries are added by concurrent tasks (asyncio.gather): a failing entry does not stop the others - they run in document
   order, each to completion - and the first failure (in that order) is what the call answers *)
Fixpoint add_slaves (reach : entry -> option jv) (acc : list entry) (doc : list entry) (i : Z) (err : option (Z * string))
  : list entry * option (Z * string) :=
  match doc with
  | [] => (acc, err)
  | e :: r =>
      let fail code := add_slaves reach acc r (i + 1) (match err with None => Some (i, code) | _ => err end) in
      if existsb (same_endpoint e) acc then fail "duplicate-device"
      else if truthy (get "poll_interval" e) && truthy (get "listen_enabled" e) then fail "listening-and-polling"
      else if is_null (get "admin_password" e) && is_null (get "admin_password_hash" e) then fail "missing-field"
      else if slave_no_listen reach e then fail "no-listen-support"
      else add_slaves reach (acc ++ [slave_result reach e]) r (i + 1) err
  end.

Fixpoint first_invalid_slave (doc : list entry) (i : Z) : option (Z * string * string) :=
  match doc with
  | [] => None
  | e :: r => match invalid_slave e with Some (c, f) => Some (i, c, f) | None => first_invalid_slave r (i + 1) end
  end.

(* error of PUT /devices: (index of the entry, code) *)
Definition put_slave_devices (reach : entry -> option jv) (doc : list entry) (s : slaves) : slaves * option (Z * string) :=
  let s1 := {| sl_devices := []; sl_updating := false; sl_events := false |} in       (* flags off; all devices removed *)
  let '(devs, err) :=
    match first_invalid_slave doc 0 with
    | Some (i, c, _) => ([], Some (i, c))
    | None => add_slaves reach [] doc 0 None
    end in
  ({| sl_devices := devs; sl_updating := true; sl_events := true |}, err).             (* finally *)

(* online and last_sync are not configuration (the state of the connection; the time of the last exchange) *)
Definition strip_slave (e : entry) : entry := remove_key "online" (remove_key "last_sync" e).

(* ---------------------------------------------------------------------------------------------------------- *)
(* GET/PUT /peripherals *)

Definition peripheral := entry.      (* to_json: the parameters it was created with + id, static, name *)

Definition is_static (p : peripheral) : bool := truthy (get "static" p).

(* Peripheral.__init__: the name is the id when given, else the id given, else a hash of the parameters *)
Definition peripheral_id (auto_id : entry -> string) (e : entry) : jv :=
  if truthy (get "name" e) then get "name" e else if truthy (get "id" e) then get "id" e else JStr (auto_id e).

Definition peripheral_json (auto_id : entry -> string) (e : entry) : entry :=
  let e' := remove_key "static" e in
  let i := peripheral_id auto_id e' in
  let base := if has_key "id" e' then set_key "id" i e' else e' ++ [("id", i)] in
  let base := base ++ [("static", JBool false)] in
  if has_key "name" e' then base else base ++ [("name", JNull)].

Definition pid_eqb (a b : jv) : bool :=
  match a, b with JStr x, JStr y => String.eqb x y | _, _ => false end.

(* known_driver: the driver path can be loaded.  Result: peripherals, error (index of the failing entry, kind) *)
Fixpoint add_peripherals (known_driver : string -> bool) (auto_id : entry -> string) (acc : list peripheral) (doc : list entry)
  (i : Z) : list peripheral * option (Z * string) :=
  match doc with
  | [] => (acc, None)
  | e :: r =>
      if is_static e then add_peripherals known_driver auto_id acc r (i + 1)
      else match get "driver" e with
           | JStr d =>
               if negb (known_driver d) then (acc, Some (i, "NoSuchDriver"))
               else let j := peripheral_json auto_id e in
                    if existsb (fun q => pid_eqb (get "id" q) (get "id" j)) acc then (acc, Some (i, "DuplicatePeripheral"))
                    else add_peripherals known_driver auto_id (acc ++ [j]) r (i + 1)
           | _ => (acc, Some (i, "invalid-field"))
           end
  end.

(* PUT_PERIPHERALS (the whole document is validated before anything is touched): driver a string, name / id null or an identifier *)
Definition valid_opt_id (v : jv) : bool :=
  match v with JNull => true | JStr s => valid_port_id s | _ => false end.
Definition invalid_peripheral (e : entry) : option string :=
  match lookup "driver" e with
  | None => Some "missing-driver"
  | Some (JStr _) => if valid_opt_id (get "name" e) && valid_opt_id (get "id" e) then None else Some "invalid-field"
  | Some _ => Some "invalid-field"
  end.

Definition put_peripherals (known_driver : string -> bool) (auto_id : entry -> string) (doc : list entry)
  (ps : list peripheral) : list peripheral * option (Z * string) :=
  match first_some invalid_peripheral doc with
  | Some c =>
      (* a missing `driver` is reported by jsonschema at the path [index]: schema.validate makes `invalid-field field=<index>` of it,
         and `invalid-request` when the index is 0 (falsy) *)
      let code := if String.eqb c "missing-driver"
                  then match doc with
                       | e0 :: _ => match invalid_peripheral e0 with Some _ => "invalid-request" | None => "invalid-field" end
                       | [] => "invalid-field"
                       end
                  else c in
      (ps, Some (0, code))
  | None => add_peripherals known_driver auto_id (filter is_static ps) doc 0
  end.

Definition get_peripherals (ps : list peripheral) : list entry := ps.
