(* C20 — specification, written without reference to how the restore proceeds.

   "Answers identically" is a statement about two GET documents: for every port id, the two documents either both lack
   it or both have it with the same value under every key that is part of a backup.  Not part of a backup (volatile):
     /ports    pending_value; value of a port that has an expression (it is whatever the expression evaluates to)
     /device   uptime, date, cpu_usage, mem_usage, storage_usage, temperature, battery_level, virtual_ports (a setting of the
               hub, reported but not restorable), and the three *_password
               indicators (passwords are kept, not restored)
     /devices  online, last_sync are compared too: a restored device is added disabled in this model, so both are inert *)
From QT Require Export C20.Backup.
Open Scope string_scope.
Open Scope list_scope.
Open Scope Z_scope.

(* ---------------------------------------------------------------------------------------------------------- *)
(* equality of JSON values (executable) *)

Fixpoint jv_eqb (a b : jv) : bool :=
  match a, b with
  | JNull, JNull => true
  | JBool x, JBool y => Bool.eqb x y
  | JNum x, JNum y => x =? y
  | JStr x, JStr y => String.eqb x y
  | JList x, JList y =>
      (fix go (x y : list jv) : bool :=
         match x, y with
         | [], [] => true
         | u :: x', v :: y' => jv_eqb u v && go x' y'
         | _, _ => false
         end) x y
  | JObj x, JObj y =>
      (* objects are compared as maps (key order is not part of JSON); keys are unique *)
      Nat.eqb (List.length x) (List.length y)
      && (fix go (x : list (string * jv)) : bool :=
            match x with
            | [] => true
            | (k, u) :: x' =>
                (fix find_in (y : list (string * jv)) : bool :=
                   match y with
                   | [] => false
                   | (k', v) :: y' => if String.eqb k k' then jv_eqb u v else find_in y'
                   end) y && go x'
            end) x
  | _, _ => false
  end.

(* ---------------------------------------------------------------------------------------------------------- *)
(* /ports *)

Definition entry_id (e : entry) : option string := match lookup "id" e with Some (JStr s) => Some s | _ => None end.

Definition find_entry (i : string) (doc : list entry) : option entry :=
  find (fun e => match entry_id e with Some j => String.eqb i j | None => false end) doc.

Definition has_expression (e : entry) : bool :=
  match lookup "expression" e with Some (JStr s) => negb (String.eqb s "") | _ => false end.

Definition entry_str (e : entry) (k : string) : string := match lookup k e with Some (JStr s) => s | _ => "" end.

(* what the port reads after its own value has been written to it: transform_read(transform_write(v)) *)
Definition value_written_back (E : env) (e : entry) : jv :=
  let i := entry_str e "id" in
  let tw := entry_str e "transform_write" in
  let tr := entry_str e "transform_read" in
  let raw := if String.eqb tw "" then get "value" e else apply_tr E i tw (get "value" e) in
  if String.eqb tr "" then raw else apply_tr E i tr raw.

(* port values are scalars *)
Definition scalar_eqb (a b : jv) : bool :=
  match a, b with
  | JNull, JNull => true
  | JBool x, JBool y => Bool.eqb x y
  | JNum x, JNum y => x =? y
  | JStr x, JStr y => String.eqb x y
  | _, _ => false
  end.

(* is key k of entry e part of the backup?  The value is, unless the port has an expression, or its transforms are not
   inverse to each other at that value (then no write reproduces the value: the API value of a port is what
   transform_read makes of what transform_write stored) *)
Definition compared (E : env) (e : entry) (k : string) : bool :=
  negb (String.eqb k "pending_value")
  && negb (String.eqb k "value" && (has_expression e || negb (scalar_eqb (value_written_back E e) (get "value" e)))).

Definition entry_equiv (E : env) (a b : entry) : Prop := forall k, compared E a k = true -> lookup k a = lookup k b.

Definition docs_equiv (E : env) (d1 d2 : list entry) : Prop :=
  forall i, match find_entry i d1, find_entry i d2 with
            | Some a, Some b => entry_equiv E a b
            | None, None => True
            | _, _ => False
            end.

(* executable counterparts, used as the oracle on the documents of the real implementation *)
Definition opt_jv_eqb (a b : option jv) : bool := option_eqb jv_eqb a b.

Definition entry_equivb (E : env) (a b : entry) : bool :=
  forallb (fun k => negb (compared E a k) || opt_jv_eqb (lookup k a) (lookup k b)) (map fst a ++ map fst b).

Definition ids_of (d : list entry) : list string := flat_map (fun e => match entry_id e with Some i => [i] | None => [] end) d.

Definition docs_equivb (E : env) (d1 d2 : list entry) : bool :=
  forallb (fun i => match find_entry i d1, find_entry i d2 with
                    | Some a, Some b => entry_equivb E a b
                    | None, None => true
                    | _, _ => false
                    end) (ids_of d1 ++ ids_of d2).

(* a rejection names the entry: the error carries the id of one of the document's entries *)
Definition names_entry (doc : list entry) (err : error) : Prop :=
  exists e idv, In e doc /\ lookup "id" e = Some idv /\ e_id err = Some idv.

Definition names_entryb (doc : list entry) (err : error) : bool :=
  match e_id err with
  | Some idv => existsb (fun e => opt_jv_eqb (lookup "id" e) (Some idv)) doc
  | None => false
  end.

(* ---------------------------------------------------------------------------------------------------------- *)
(* /device *)

Definition device_volatile : list string :=
  ["uptime"; "date"; "cpu_usage"; "mem_usage"; "storage_usage"; "temperature"; "battery_level"; "virtual_ports";
   "admin_password"; "normal_password"; "viewonly_password"].

Definition device_equiv (a b : entry) : Prop := forall k, str_in k device_volatile = false -> lookup k a = lookup k b.

Definition device_equivb (a b : entry) : bool :=
  forallb (fun k => str_in k device_volatile || opt_jv_eqb (lookup k a) (lookup k b)) (map fst a ++ map fst b).

Definition passwords_of (e : entry) : list (option jv) :=
  [lookup "admin_password" e; lookup "normal_password" e; lookup "viewonly_password" e].

(* ---------------------------------------------------------------------------------------------------------- *)
(* /devices, /peripherals: the documents themselves, entry by entry (objects as maps) *)

Definition entry_eqb (a b : entry) : bool := jv_eqb (JObj a) (JObj b).
Definition doc_eqb (a b : list entry) : bool := list_eqb entry_eqb a b.

Definition all_disabled (doc : list entry) : Prop := forall e, In e doc -> get "enabled" e = JBool false.
