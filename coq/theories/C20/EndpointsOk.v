(* C20 — with the endpoint orders written in /repo's working tree (Gen/C20EndpointsGen.v, regenerated on every run), a complete
   restore creates the ports of peripherals and slave devices before PUT /ports restores their attributes. *)
From QT Require Import C20.Endpoints Gen.C20EndpointsGen.
Open Scope string_scope.
Open Scope list_scope.

Lemma port_creators_restored_first :
  sequence_ok (standard_endpoints ++ advertised_endpoints) = true
  /\ restored_before "/peripherals" "/ports" (restore_sequence (standard_endpoints ++ advertised_endpoints)) = true
  /\ restored_before "/devices" "/ports" (restore_sequence (standard_endpoints ++ advertised_endpoints)) = true.
Proof. repeat split; vm_compute; reflexivity. Qed.
