(* C20 — the switches after put_ports, and what a rejection carries.  Both hold for the code before and after the repairs
   ([V] is arbitrary), for every hub and every document. *)
From QT Require Import C20.Lemmas.
Open Scope string_scope.
Open Scope list_scope.
Open Scope Z_scope.

(* polling and event delivery are on when put_ports returns — whether it succeeded, rejected the document at any entry, or
   refused the request before touching anything (then they are as they were: on) *)
Theorem flags_restored : forall V E doc h h' err,
  h_updating h = true -> h_events h = true ->
  put_ports_gen V E doc h = (h', err) -> h_updating h' = true /\ h_events h' = true.
Proof.
  intros V E doc h h' err U Ev. unfold put_ports_gen.
  destruct (negb (h_backup_support h)). { intros H; inversion H; subst; auto. }
  destruct (as_entries doc). 2:{ destruct doc as [|[] ?]; intros H; inversion H; subst; auto. }
  destruct (restore_body V E (with_flags h false false) l) as [h2 e2]. intros H; inversion H; subst. cbn. auto.
Qed.

(* once the request has passed the outer checks the switches are on afterwards even if they were off before *)
Theorem flags_on_after_body : forall V E doc entries h h' err,
  h_backup_support h = true -> as_entries doc = Some entries ->
  put_ports_gen V E doc h = (h', err) -> h_updating h' = true /\ h_events h' = true.
Proof.
  intros V E doc entries h h' err B A. unfold put_ports_gen. rewrite B, A. cbn [negb].
  destruct (restore_body V E (with_flags h false false) entries) as [h2 e2]. intros H; inversion H; subst. cbn. auto.
Qed.

Lemma set_port_attrs_error_id : forall E h p idv e h' err,
  set_port_attrs E h p idv e = (h', Some err) -> e_id err = Some idv.
Proof.
  intros E h p idv e h' err. unfold set_port_attrs.
  destruct (first_invalid p e). { intros H; inversion H; subst; reflexivity. }
  destruct (apply_attrs E (h_ports h) p e None) as [p1 [f|]]; intros H; inversion H; subst; reflexivity.
Qed.

Lemma restore_entry_error_id : forall V E h e h' err,
  restore_entry V E h e = (h', Some err) -> exists idv, lookup "id" e = Some idv /\ e_id err = Some idv.
Proof.
  intros V E h e h' err. unfold restore_entry.
  destruct (lookup "id" e) as [idv|] eqn:L; [|discriminate].
  destruct idv; try discriminate;
  match goal with |- context [if ?c then _ else _] => destruct c end;
  repeat match goal with
         | |- context [match invalid_new_port e with _ => _ end] => destruct (invalid_new_port e) as [[? ?]|]
         | |- context [if ?c then _ else _] => destruct c
         | |- context [match ?x with Some _ => _ | None => _ end] => destruct x
         end;
  intros H; try discriminate; try (inversion H; subst; eexists; split; [reflexivity|reflexivity]);
  try (apply set_port_attrs_error_id in H; eexists; split; [reflexivity|exact H]).
Qed.

Lemma restore_entries_error_id : forall V E doc h h' err,
  restore_entries V E h doc = (h', Some err) -> exists e idv, In e doc /\ lookup "id" e = Some idv /\ e_id err = Some idv.
Proof.
  induction doc as [|e r IH]; cbn; intros h h' err H; [discriminate|].
  destruct (restore_entry V E h e) as [h1 [er|]] eqn:R.
  - inversion H; subst. apply restore_entry_error_id in R. destruct R as [idv [A B]]. exists e, idv. auto.
  - apply IH in H. destruct H as [e' [idv [A [B C]]]]. exists e', idv. auto.
Qed.

(* a rejection during the restore carries the id of one of the document's entries *)
Theorem error_names_entry : forall V E doc entries h h' err,
  h_backup_support h = true -> as_entries doc = Some entries ->
  put_ports_gen V E doc h = (h', Some err) -> names_entry entries err.
Proof.
  intros V E doc entries h h' err B A. unfold put_ports_gen. rewrite B, A. cbn [negb].
  destruct (restore_body V E (with_flags h false false) entries) as [h2 e2] eqn:R. intros H; inversion H; subst.
  unfold restore_body in R. apply restore_entries_error_id in R. exact R.
Qed.
