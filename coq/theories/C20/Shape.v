(* C20 — what the translator (harness/translate/restoreshape.py) reads off the source text of the restore functions: the
   position of the statements that switch polling / event delivery off relative to the try block whose finally switches them on. *)
From QT Require Export Base.Prelude.
Open Scope Z_scope.

Record restore_shape := {
  rs_disables_events : bool;          (* the function calls core_events.disable() at its top level *)
  rs_disables_updating : bool;        (* ... core_main.disable_updating() *)
  rs_between : Z;                     (* statements (other than logging) between the last of those two and the `try` *)
  rs_handlers : Z;                    (* `except` clauses of that try *)
  rs_finally_updating : bool;         (* the finally block calls core_main.enable_updating() unconditionally *)
  rs_finally_events : bool;           (* ... core_events.enable() *)
  rs_disables_elsewhere : Z;          (* further calls of disable()/disable_updating() anywhere else in the function *)
}.

(* what Backup.put_ports_gen / put_slave_devices assume: off, immediately `try`, `finally` on — nothing can raise in between *)
Definition switches_guarded (s : restore_shape) : bool :=
  rs_disables_events s && rs_disables_updating s && (rs_between s =? 0) && (rs_handlers s =? 0)
  && rs_finally_updating s && rs_finally_events s && (rs_disables_elsewhere s =? 0).

(* what put_device / put_peripherals assume: the switches are not touched at all *)
Definition switches_untouched (s : restore_shape) : bool :=
  negb (rs_disables_events s) && negb (rs_disables_updating s) && (rs_disables_elsewhere s =? 0).
