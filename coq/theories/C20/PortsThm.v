(* C20 — backup then restore of /ports: an accepted restore reproduces the documents (induction over the entries, for any order
   of the entries). *)
From QT Require Import C20.Lemmas.
From Coq Require Import Permutation.
Open Scope string_scope.
Open Scope list_scope.
Open Scope Z_scope.

(* keys with a meaning of their own in a /ports entry: never names of port attributes *)
Definition reserved : list string := ["id"; "writable"; "virtual"; "value"; "pending_value"; "provisioning"].

Section Roundtrip.
Variable E : env.

(* an expression / transform text the port holds is one the parser prints unchanged (C03: printing is a parse fixpoint) *)
Definition attr_fix (p : port) (n : string) (v : jv) : Prop :=
  match kind_of p n, v with
  | Some KExpr, JStr s | Some KTransform, JStr s => s = "" \/ exists d, parse E (p_id p) s = Some (s, d)
  | _, _ => True
  end.

(* what every port of a hub satisfies ([history]: the hub records history, so virtual ports have the two history attributes) *)
Record port_ok (history : bool) (p : port) : Prop := {
  ok_nodup : NoDup (keys (p_def p ++ p_fixed p ++ p_attrs p));
  ok_reserved : forall k, In k (keys (p_def p ++ p_fixed p ++ p_attrs p)) -> ~ In k reserved;
  ok_defkeys : forall k, In k def_keys -> ~ In k (keys (p_fixed p ++ p_attrs p));
  ok_std : forall k, std_kind k <> None -> ~ In k (keys (p_def p ++ p_fixed p));
  ok_kinds : forall k, In k (keys (p_attrs p)) -> kind_of p k <> None;
  ok_fix : forall n v, In (n, v) (p_attrs p) -> attr_fix p n v;
  ok_virtual : p_virtual p = true ->
      p_writable p = true /\ p_fixed p = [("definitions", JObj [])] /\ p_kinds p = []
      /\ p_def p = def_of_entry (p_def p) /\ keys (p_attrs p) = keys (fresh_attrs history (p_def p));
}.

(* the same piece of hardware on the other hub: same capabilities; what a read-only port reads is the same *)
Definition compatible (p1 p : port) : Prop :=
  p_id p = p_id p1 /\ p_virtual p = p_virtual p1 /\ p_writable p = p_writable p1 /\ p_def p = p_def p1
  /\ p_fixed p = p_fixed p1 /\ p_kinds p = p_kinds p1 /\ keys (p_attrs p) = keys (p_attrs p1)
  /\ (p_writable p1 = false -> p_raw p = p_raw p1).

Definition written (p1 : port) : jv :=
  let tw := attr_str p1 "transform_write" in
  let v := port_value E p1 in
  if String.eqb tw "" then v else apply_tr E (p_id p1) tw v.

(* the port after its entry has been restored *)
Definition restored (p1 p : port) : Prop :=
  p_id p = p_id p1 /\ p_virtual p = p_virtual p1 /\ p_writable p = p_writable p1 /\ p_def p = p_def p1
  /\ p_fixed p = p_fixed p1 /\ p_attrs p = p_attrs p1
  /\ (p_enabled p1 = true -> p_writable p1 = true -> p_raw p = written p1)
  /\ (p_writable p1 = false -> p_raw p = p_raw p1).

(* ---------------------------------------------------------------------------------------------------------- *)
(* the shape of an entry *)

Definition pre (p : port) : entry :=
  ("id", JStr (p_id p)) :: p_def p ++ ("writable", JBool (p_writable p)) :: p_fixed p
  ++ (if p_virtual p then [("virtual", JBool true)] else []).
Definition post (p : port) : entry := [("value", if p_enabled p then port_value E p else JNull); ("pending_value", JNull)].

Lemma port_json_split : forall p, port_json E p = pre p ++ p_attrs p ++ post p.
Proof.
  intros. unfold port_json, pre, post. cbn [app]. f_equal. rewrite <- !app_assoc. cbn [app]. f_equal. f_equal.
  rewrite <- !app_assoc. reflexivity.
Qed.

Lemma in_reserved_dec : forall k, In k reserved -> k = "id" \/ k = "writable" \/ k = "virtual" \/ k = "value" \/ k = "pending_value" \/ k = "provisioning".
Proof. cbn. intros k H. repeat (destruct H as [H|H]; [subst; tauto|]). tauto. Qed.

Section OnePort.
Variable history : bool.
Variable p1 : port.
Hypothesis OK : port_ok history p1.

Lemma attrs_not_reserved : forall k, In k (keys (p_attrs p1)) -> ~ In k reserved.
Proof. intros k H. apply (ok_reserved _ _ OK). rewrite !keys_app. apply in_or_app. right. apply in_or_app. now right. Qed.

Lemma in_pre : forall k, In k (keys (pre p1)) ->
  k = "id" \/ In k (keys (p_def p1)) \/ k = "writable" \/ In k (keys (p_fixed p1)) \/ k = "virtual".
Proof.
  intros k H. unfold pre, keys in H. cbn [map fst] in H. destruct H as [H|H]; [now left; auto|].
  rewrite map_app in H. apply in_app_or in H. destruct H as [H|H]; [tauto|].
  cbn [map fst] in H. destruct H as [H|H]; [auto|].
  rewrite map_app in H. apply in_app_or in H. destruct H as [H|H]; [tauto|].
  destruct (p_virtual p1); cbn in H; [destruct H as [H|[]]; auto|tauto].
Qed.

Lemma pre_keys_not_attrs : forall k, In k (keys (pre p1)) -> ~ In k (keys (p_attrs p1)).
Proof.
  intros k H A. pose proof (attrs_not_reserved k A) as NR. pose proof (ok_nodup _ _ OK) as ND. rewrite !keys_app in ND.
  apply in_pre in H. destruct H as [H|[H|[H|[H|H]]]]; subst; try (apply NR; cbn; tauto).
  - eapply (nodup_app_disjoint _ _ k ND); auto. apply in_or_app. now right.
  - apply NoDup_app_remove_l in ND. eapply (nodup_app_disjoint _ _ k ND); auto.
Qed.

Lemma post_keys : forall k, In k (keys (post p1)) -> k = "value" \/ ~ In k (keys (p_attrs p1)).
Proof.
  intros k H. cbn in H. destruct H as [H|[H|[]]]; subst; [now left|]. right. intro A. apply (attrs_not_reserved _ A). cbn. tauto.
Qed.

Lemma nodup_attrs : NoDup (keys (p_attrs p1)).
Proof. pose proof (ok_nodup _ _ OK) as ND. rewrite !keys_app in ND. now do 2 apply NoDup_app_remove_l in ND. Qed.

(* lookups in the entry *)
Lemma lookup_json_attr : forall k, In k (keys (p_attrs p1)) -> lookup k (port_json E p1) = lookup k (p_attrs p1).
Proof.
  intros k H. rewrite port_json_split, lookup_app.
  rewrite (lookup_notin k (pre p1)). 2:{ intro A. exact (pre_keys_not_attrs k A H). }
  rewrite lookup_app. destruct (lookup k (p_attrs p1)) eqn:L; [reflexivity|]. apply lookup_None in L. tauto.
Qed.

Lemma lookup_json_value : lookup "value" (port_json E p1) = Some (if p_enabled p1 then port_value E p1 else JNull).
Proof.
  rewrite port_json_split, lookup_app.
  assert (NA : ~ In "value" (keys (p_attrs p1))). { intro A. apply (attrs_not_reserved _ A). cbn. tauto. }
  assert (NP : ~ In "value" (keys (pre p1))).
  { intro A. apply in_pre in A. destruct A as [A|[A|[A|[A|A]]]]; try discriminate.
    - apply (ok_reserved _ _ OK "value"); [|cbn; tauto]. rewrite !keys_app. apply in_or_app. now left.
    - apply (ok_reserved _ _ OK "value"); [|cbn; tauto]. rewrite !keys_app. apply in_or_app. right. apply in_or_app. now left. }
  rewrite (lookup_notin _ _ NP), lookup_app, (lookup_notin _ _ NA). reflexivity.
Qed.

Lemma lookup_json_marker : forall k, k = "virtual" \/ k = "provisioning" ->
  lookup k (port_json E p1) = lookup k (if p_virtual p1 then [("virtual", JBool true)] else []).
Proof.
  intros k Hk.
  assert (R : In k reserved). { cbn. destruct Hk; subst; tauto. }
  assert (ND : ~ In k (keys (p_def p1))).
  { intro A. apply (ok_reserved _ _ OK k); auto. rewrite !keys_app. apply in_or_app. now left. }
  assert (NF : ~ In k (keys (p_fixed p1))).
  { intro A. apply (ok_reserved _ _ OK k); auto. rewrite !keys_app. apply in_or_app. right. apply in_or_app. now left. }
  assert (NA : ~ In k (keys (p_attrs p1))). { intro A. exact (attrs_not_reserved k A R). }
  unfold port_json. cbn [lookup]. replace (String.eqb k "id") with false by (destruct Hk; subst; reflexivity).
  rewrite lookup_app, (lookup_notin _ _ ND). cbn [lookup].
  replace (String.eqb k "writable") with false by (destruct Hk; subst; reflexivity).
  rewrite lookup_app, (lookup_notin _ _ NF), lookup_app.
  assert (REST : lookup k (p_attrs p1 ++ [("value", if p_enabled p1 then port_value E p1 else JNull); ("pending_value", JNull)]) = None).
  { rewrite lookup_app, (lookup_notin _ _ NA). cbn [lookup].
    replace (String.eqb k "value") with false by (destruct Hk; subst; reflexivity).
    replace (String.eqb k "pending_value") with false by (destruct Hk; subst; reflexivity). reflexivity. }
  rewrite REST. destruct (p_virtual p1); cbn [lookup]; [destruct (String.eqb k "virtual")|]; reflexivity.
Qed.

Lemma lookup_json_def : forall k, In k def_keys -> lookup k (port_json E p1) = lookup k (p_def p1).
Proof.
  intros k Hk.
  assert (NF : ~ In k (keys (p_fixed p1))). { intro A. apply (ok_defkeys _ _ OK k Hk). rewrite keys_app. apply in_or_app. now left. }
  assert (NA : ~ In k (keys (p_attrs p1))). { intro A. apply (ok_defkeys _ _ OK k Hk). rewrite keys_app. apply in_or_app. now right. }
  assert (Q : forall s, In s ["id"; "writable"; "virtual"; "value"; "pending_value"] -> String.eqb k s = false).
  { intros s Hs. apply String.eqb_neq. intro X. subst s. cbn in Hk, Hs.
    repeat (destruct Hk as [Hk|Hk]; [subst k; repeat (destruct Hs as [Hs|Hs]; [discriminate|]); tauto|]). tauto. }
  unfold port_json. cbn [lookup]. rewrite (Q "id") by (cbn; tauto).
  rewrite lookup_app. destruct (lookup k (p_def p1)) eqn:L; [reflexivity|].
  cbn [lookup]. rewrite (Q "writable") by (cbn; tauto). rewrite lookup_app, (lookup_notin _ _ NF), lookup_app.
  assert (REST : lookup k (p_attrs p1 ++ [("value", if p_enabled p1 then port_value E p1 else JNull); ("pending_value", JNull)]) = None).
  { rewrite lookup_app, (lookup_notin _ _ NA). cbn [lookup].
    rewrite (Q "value") by (cbn; tauto). rewrite (Q "pending_value") by (cbn; tauto). reflexivity. }
  rewrite REST. destruct (p_virtual p1); cbn [lookup]; [rewrite (Q "virtual") by (cbn; tauto)|]; reflexivity.
Qed.

Lemma def_of_entry_json : def_of_entry (port_json E p1) = def_of_entry (p_def p1).
Proof.
  unfold def_of_entry.
  assert (G : forall l, (forall k, In k l -> In k def_keys) ->
    flat_map (fun k => match lookup k (port_json E p1) with Some v => if is_null v then [] else [(k, v)] | None => [] end) l
    = flat_map (fun k => match lookup k (p_def p1) with Some v => if is_null v then [] else [(k, v)] | None => [] end) l).
  { induction l as [|k l IH]; intros Hl; cbn [flat_map]; [reflexivity|].
    rewrite (lookup_json_def k (Hl k (or_introl eq_refl))), IH; [reflexivity|]. intros k' I. apply Hl. now right. }
  apply G. auto.
Qed.

Lemma fresh_attrs_json : fresh_attrs history (port_json E p1) = fresh_attrs history (p_def p1).
Proof. unfold fresh_attrs. rewrite (lookup_json_def "type"); [reflexivity|cbn; tauto]. Qed.

End OnePort.

(* ---------------------------------------------------------------------------------------------------------- *)
(* apply_attrs *)

Lemma apply_attrs_app : forall G e1 e2 p err,
  apply_attrs E G p (e1 ++ e2) err = let '(p', err') := apply_attrs E G p e1 err in apply_attrs E G p' e2 err'.
Proof.
  induction e1 as [|[n v] e1 IH]; intros; cbn [app apply_attrs]; [reflexivity|].
  destruct (String.eqb n "value"); [apply IH|].
  destruct (has_key n (p_attrs p) && match kind_of p n with Some _ => true | None => false end); [|apply IH].
  destruct (set_attr E (replace_port p G) p n v); apply IH.
Qed.

Lemma apply_attrs_skip : forall G e p err,
  (forall n, In n (keys e) -> n = "value" \/ ~ In n (keys (p_attrs p))) -> apply_attrs E G p e err = (p, err).
Proof.
  induction e as [|[n v] e IH]; intros p err H; cbn [apply_attrs]; [reflexivity|].
  assert (IH' : apply_attrs E G p e err = (p, err)). { apply IH. intros m Hm. apply H. cbn. now right. }
  destruct (String.eqb n "value") eqn:V; [exact IH'|].
  destruct (H n (or_introl eq_refl)) as [->|N]; [discriminate|].
  apply has_key_false in N. rewrite N. cbn [andb]. exact IH'.
Qed.

Lemma apply_attrs_sticky : forall G e p f p' err', apply_attrs E G p e (Some f) = (p', err') -> err' = Some f.
Proof.
  induction e as [|[n v] e IH]; intros p f p' err'; cbn [apply_attrs]. { intros H; inversion H; reflexivity. }
  destruct (String.eqb n "value"); [apply IH|].
  destruct (has_key n (p_attrs p) && match kind_of p n with Some _ => true | None => false end); [|apply IH].
  destruct (set_attr E (replace_port p G) p n v); apply IH.
Qed.

Lemma set_attr_fix : forall G p n v a, attr_fix p n v -> set_attr E G p n v = inl a -> a = set_key n v (p_attrs p).
Proof.
  intros G p n v a F. unfold set_attr, attr_fix in *.
  destruct (kind_of p n) as [[]|]; destruct v; try (intros H; inversion H; reflexivity).
  - destruct (String.eqb s "") eqn:S0. { apply String.eqb_eq in S0. subst. intros H; inversion H; reflexivity. }
    destruct F as [->|[d P]]; [discriminate|]. rewrite P. destruct (has_loop E G (p_id p) d); intros H; inversion H; reflexivity.
  - destruct (String.eqb s "") eqn:S0. { apply String.eqb_eq in S0. subst. intros H; inversion H; reflexivity. }
    destruct F as [->|[d P]]; [discriminate|]. rewrite P. destruct (forallb (String.eqb (p_id p)) d); intros H; inversion H; reflexivity.
Qed.

Definition same_static (p q : port) : Prop :=
  p_id q = p_id p /\ p_virtual q = p_virtual p /\ p_writable q = p_writable p /\ p_def q = p_def p /\ p_fixed q = p_fixed p
  /\ p_kinds q = p_kinds p /\ p_raw q = p_raw p.

Lemma apply_attrs_self : forall G todo done cur p p',
  keys cur = keys todo -> NoDup (keys (done ++ todo)) ->
  (forall n, In n (keys todo) -> n <> "value" /\ kind_of p n <> None) ->
  (forall n v, In (n, v) todo -> attr_fix p n v) ->
  p_attrs p = done ++ cur ->
  apply_attrs E G p todo None = (p', None) ->
  p_attrs p' = done ++ todo /\ same_static p p'.
Proof.
  induction todo as [|[n v] t IH]; intros done cur p p' K ND HK HF PA H.
  - destruct cur; [|discriminate]. cbn in H. inversion H; subst. split; [exact PA|]. unfold same_static. tauto.
  - destruct cur as [|[n0 v0] c]; [discriminate|]. cbn in K. injection K as K0 K1. subst n0.
    cbn [apply_attrs] in H.
    destruct (HK n (or_introl eq_refl)) as [NV KN]. apply String.eqb_neq in NV. rewrite NV in H.
    assert (HasK : has_key n (p_attrs p) = true).
    { apply has_key_true. rewrite PA, keys_app. apply in_or_app. right. cbn. now left. }
    rewrite HasK in H. destruct (kind_of p n) as [k|] eqn:KO; [|congruence]. cbn [andb] in H.
    assert (NIN : ~ In n (keys done)).
    { rewrite keys_app in ND. clear - ND. induction done as [|[a b] d IHd]; cbn in *; [tauto|].
      inversion ND; subst. intros [->|I]; [apply H1; apply in_or_app; right; now left|]. tauto. }
    destruct (set_attr E (replace_port p G) p n v) as [a|f] eqn:SA.
    + apply set_attr_fix in SA. 2:{ apply HF. now left. }
      rewrite PA, (set_key_middle n v v0 done c NIN) in SA. subst a.
      assert (R : p_attrs p' = (done ++ [(n, v)]) ++ t /\ same_static (with_attrs p (done ++ (n, v) :: c)) p').
      { apply (IH (done ++ [(n, v)]) c (with_attrs p (done ++ (n, v) :: c)) p').
        - exact K1.
        - rewrite <- app_assoc. exact ND.
        - intros m Hm. destruct (HK m (or_intror Hm)). split; auto.
        - intros m w Hm. apply (HF m w). now right.
        - cbn. now rewrite <- app_assoc.
        - exact H. }
      destruct R as [A B]. rewrite <- app_assoc in A. split; [exact A|]. unfold same_static in *. cbn in B. tauto.
    + apply apply_attrs_sticky in H. discriminate.
Qed.

(* ---------------------------------------------------------------------------------------------------------- *)
(* one entry *)

Lemma first_invalid_irrelevant : True. Proof. exact I. Qed.

Lemma set_port_attrs_restores : forall history h p p1 idv h',
  port_ok history p1 -> compatible p1 p ->
  set_port_attrs E h p idv (port_json E p1) = (h', None) ->
  exists p', h' = with_ports h (replace_port p' (h_ports h)) /\ restored p1 p'.
Proof.
  intros history h p p1 idv h' OK C. unfold set_port_attrs.
  destruct (first_invalid p (port_json E p1)); [discriminate|].
  destruct (apply_attrs E (h_ports h) p (port_json E p1) None) as [q err] eqn:AP.
  destruct err; [discriminate|]. rewrite (lookup_json_value history p1 OK). intros H; inversion H; subst h'; clear H.
  destruct C as (Cid & Cv & Cw & Cd & Cf & Ck & Ckeys & Craw).
  (* split the entry *)
  rewrite port_json_split, apply_attrs_app in AP.
  rewrite apply_attrs_skip in AP.
  2:{ intros n Hn. right. rewrite Ckeys. exact (pre_keys_not_attrs history p1 OK n Hn). }
  rewrite apply_attrs_app in AP.
  destruct (apply_attrs E (h_ports h) p (p_attrs p1) None) as [q1 e1] eqn:A1.
  assert (E1 : e1 = None /\ q = q1).
  { destruct e1 as [f|].
    - apply apply_attrs_sticky in AP. discriminate.
    - rewrite apply_attrs_skip in AP. { inversion AP; auto. }
      intros n Hn. destruct (post_keys history p1 OK n Hn) as [->|N]; [now left|]. right.
      (* keys of q1 are those of p1 *) 
      pose proof (apply_attrs_self (h_ports h) (p_attrs p1) [] (p_attrs p) p q1) as S.
      cbn [app] in S. destruct S as [S _]; auto.
      + exact (nodup_attrs history p1 OK).
      + intros m Hm. split.
        * intro X. subst. apply (attrs_not_reserved history p1 OK _ Hm). cbn. tauto.
        * unfold kind_of. rewrite Ck. exact (ok_kinds _ _ OK m Hm).
      + intros m w Hm. pose proof (ok_fix _ _ OK m w Hm) as F. unfold attr_fix, kind_of in *. rewrite Ck, Cid. exact F.
      + rewrite S. exact N. }
  destruct E1 as [-> ->].
  pose proof (apply_attrs_self (h_ports h) (p_attrs p1) [] (p_attrs p) p q1) as S. cbn [app] in S.
  destruct S as [SA SS]; auto.
  { exact (nodup_attrs history p1 OK). }
  { intros m Hm. split.
    - intro X. subst. apply (attrs_not_reserved history p1 OK _ Hm). cbn. tauto.
    - unfold kind_of. rewrite Ck. exact (ok_kinds _ _ OK m Hm). }
  { intros m w Hm. pose proof (ok_fix _ _ OK m w Hm) as F. unfold attr_fix, kind_of in *. rewrite Ck, Cid. exact F. }
  destruct SS as (Sid & Sv & Sw & Sd & Sf & Sk & Sr).
  eexists. split; [reflexivity|].
  assert (EN : p_enabled q1 = p_enabled p1). { unfold p_enabled. now rewrite SA. }
  assert (TW : attr_str q1 "transform_write" = attr_str p1 "transform_write"). { unfold attr_str. now rewrite SA. }
  unfold restored, write_value. rewrite EN, Sw, Cw.
  destruct (p_enabled p1 && p_writable p1) eqn:EW; cbn [p_id p_virtual p_writable p_def p_fixed p_attrs p_raw with_raw].
  - apply andb_prop in EW. destruct EW as [En Wr]. rewrite En.
    split; [congruence|]. split; [congruence|]. split; [congruence|]. split; [congruence|]. split; [congruence|].
    split; [exact SA|]. split.
    + intros _ _. unfold written. rewrite TW, Sid, Cid. reflexivity.
    + intros X. congruence.
  - split; [congruence|]. split; [congruence|]. split; [congruence|]. split; [congruence|]. split; [congruence|].
    split; [exact SA|]. split.
    + intros En Wr. rewrite En, Wr in EW. discriminate.
    + intros X. rewrite Sr. auto.
Qed.

(* ---------------------------------------------------------------------------------------------------------- *)
(* one entry of the backup, restored onto a hub where that port is either the same hardware or (virtual) absent *)

Definition ready (h : hub) (p1 : port) : Prop :=
  if p_virtual p1 then find_port (p_id p1) (h_ports h) = None
  else exists p, find_port (p_id p1) (h_ports h) = Some p /\ compatible p1 p.

Lemma restore_entry_self : forall h p1 h',
  port_ok (h_history h) p1 -> ready h p1 ->
  restore_entry repaired E h (port_json E p1) = (h', None) ->
  (exists p', find_port (p_id p1) (h_ports h') = Some p' /\ restored p1 p')
  /\ (forall i, i <> p_id p1 -> find_port i (h_ports h') = find_port i (h_ports h))
  /\ h_history h' = h_history h.
Proof.
  intros h p1 h' OK R. unfold restore_entry.
  change (lookup "id" (port_json E p1)) with (Some (JStr (p_id p1))). cbv iota beta.
  unfold get. rewrite (lookup_json_marker _ p1 OK "virtual" (or_introl eq_refl)).
  unfold has_key. rewrite (lookup_json_marker _ p1 OK "provisioning" (or_intror eq_refl)).
  cbn [repaired v_slave_prefix_heuristic andb negb].
  unfold ready in R. destruct (p_virtual p1) eqn:PV.
  - rewrite R. cbn [lookup String.eqb Ascii.eqb Bool.eqb truthy andb negb].
    destruct (invalid_new_port (port_json E p1)) as [[c f]|]; [discriminate|].
    destruct (h_vport_limit h <=? count_virtual (h_ports h)); [discriminate|].
    intros H.
    destruct (ok_virtual _ _ OK PV) as (Vw & Vf & Vk & Vd & Vkeys).
    apply (set_port_attrs_restores (h_history h)) in H; auto.
    2:{ unfold compatible, fresh_vport. cbn [p_id p_virtual p_writable p_def p_fixed p_kinds p_attrs p_raw].
        rewrite (def_of_entry_json _ p1 OK), (fresh_attrs_json _ p1 OK), <- Vd, Vf, Vk, Vw, PV, Vkeys.
        repeat split; auto. discriminate. }
    destruct H as [p' [-> RS]]. cbn [h_ports with_ports h_history].
    assert (Pid : p_id p' = p_id p1) by (destruct RS; auto).
    split; [|split; [|reflexivity]].
    + exists p'. split; [|exact RS]. rewrite find_port_replace, Pid, String.eqb_refl, find_port_app, R.
      unfold find_port, fresh_vport. cbn. now rewrite String.eqb_refl.
    + intros i Hi. rewrite find_port_replace, Pid. apply String.eqb_neq in Hi. rewrite Hi, find_port_app.
      destruct (find_port i (h_ports h)); [reflexivity|]. unfold find_port, fresh_vport. cbn. now rewrite Hi.
  - cbn [lookup truthy andb].
    destruct R as [p [F C]]. rewrite F. intros H.
    apply (set_port_attrs_restores (h_history h)) in H; auto.
    destruct H as [p' [-> RS]]. cbn [h_ports with_ports h_history].
    assert (Pid : p_id p' = p_id p1) by (destruct RS; auto).
    split; [|split; [|reflexivity]].
    + exists p'. split; [|exact RS]. now rewrite find_port_replace, Pid, String.eqb_refl, F.
    + intros i Hi. rewrite find_port_replace, Pid. apply String.eqb_neq in Hi. now rewrite Hi.
Qed.

(* the whole document: entries of pairwise different ports, in any order *)
Lemma restore_entries_roundtrip : forall (src : list port) h h',
  NoDup (map p_id src) ->
  (forall p1, In p1 src -> port_ok (h_history h) p1 /\ ready h p1) ->
  restore_entries repaired E h (map (port_json E) src) = (h', None) ->
  (forall p1, In p1 src -> exists p', find_port (p_id p1) (h_ports h') = Some p' /\ restored p1 p')
  /\ (forall i, ~ In i (map p_id src) -> find_port i (h_ports h') = find_port i (h_ports h)).
Proof.
  induction src as [|p0 src IH]; intros h h' ND HR H.
  - cbn in H. inversion H; subst. split; [intros ? []|auto].
  - cbn [map restore_entries] in H. inversion ND as [|? ? N0 ND']; subst.
    destruct (restore_entry repaired E h (port_json E p0)) as [h1 [er|]] eqn:R0; [discriminate|].
    destruct (HR p0 (or_introl eq_refl)) as [OK0 RD0].
    destruct (restore_entry_self h p0 h1 OK0 RD0 R0) as [[p0' [F0 RS0]] [FR0 HH]].
    assert (HR1 : forall p1, In p1 src -> port_ok (h_history h1) p1 /\ ready h1 p1).
    { intros p1 I1. destruct (HR p1 (or_intror I1)) as [OK1 RD1]. rewrite HH. split; [exact OK1|].
      assert (NE : p_id p1 <> p_id p0). { intro X. apply N0. rewrite <- X. now apply in_map. }
      unfold ready in *. rewrite (FR0 _ NE). exact RD1. }
    destruct (IH h1 h' ND' HR1 H) as [A B]. split.
    + intros p1 [->|I1]; [|auto]. exists p0'. split; [|exact RS0]. rewrite (B _ N0). exact F0.
    + intros i Hi. cbn in Hi. rewrite B by tauto. apply FR0. intro X. apply Hi. now left.
Qed.

(* ---------------------------------------------------------------------------------------------------------- *)
(* from "restored" to the documents *)

Lemma restored_entry_equiv : forall history p1 p', port_ok history p1 -> restored p1 p' ->
  entry_equiv E (port_json E p1) (port_json E p').
Proof.
  intros history p1 p' OK (Rid & Rv & Rw & Rd & Rf & Ra & Rraw & Rro) k CK.
  assert (EN : p_enabled p' = p_enabled p1) by (unfold p_enabled; now rewrite Ra).
  assert (PRE : pre p' = pre p1) by (unfold pre; now rewrite Rid, Rd, Rw, Rf, Rv).
  rewrite !port_json_split, PRE, Ra, !lookup_app.
  destruct (lookup k (pre p1)); [reflexivity|]. destruct (lookup k (p_attrs p1)); [reflexivity|].
  unfold post. cbn [lookup]. destruct (String.eqb k "value") eqn:KV; [|reflexivity].
  apply String.eqb_eq in KV. subst k. rewrite EN. destruct (p_enabled p1) eqn:En; [|reflexivity]. f_equal.
  (* the value is compared: no expression, transforms inverse at the value *)
  unfold compared in CK. cbn [String.eqb Ascii.eqb Bool.eqb negb andb] in CK.
  apply negb_true_iff, orb_false_iff in CK. destruct CK as [_ CK]. apply negb_false_iff in CK.
  assert (TR : attr_str p' "transform_read" = attr_str p1 "transform_read") by (unfold attr_str; now rewrite Ra).
  unfold port_value at 2. rewrite TR, Rid.
  destruct (p_writable p1) eqn:W.
  - rewrite (Rraw eq_refl eq_refl).
    (* value_written_back of the entry is transform_read (written p1) *)
    assert (VB : value_written_back E (port_json E p1)
                 = if String.eqb (attr_str p1 "transform_read") "" then written p1
                   else apply_tr E (p_id p1) (attr_str p1 "transform_read") (written p1)).
    { unfold value_written_back, written, entry_str, get. rewrite (lookup_json_value history p1 OK), En.
      change (lookup "id" (port_json E p1)) with (Some (JStr (p_id p1))).
      assert (LA : forall n, lookup n (port_json E p1) = match lookup n (p_attrs p1) with Some v => Some v | None => lookup n (port_json E p1) end).
      { intros n. destruct (lookup n (p_attrs p1)) eqn:L; [|reflexivity]. rewrite (lookup_json_attr history p1 OK); auto.
        destruct (in_dec string_dec n (keys (p_attrs p1))); auto. apply lookup_None in n0. congruence. }
      assert (ST : forall n, In n ["transform_read"; "transform_write"] ->
                   match lookup n (port_json E p1) with Some (JStr s) => s | _ => "" end = attr_str p1 n).
      { intros n Hn. unfold attr_str. destruct (in_dec string_dec n (keys (p_attrs p1))) as [I|NI].
        - now rewrite (lookup_json_attr history p1 OK n I).
        - rewrite (lookup_notin _ _ NI). rewrite port_json_split, !lookup_app, (lookup_notin _ _ NI).
          assert (NP : lookup n (pre p1) = None).
          { apply lookup_notin. intro A. apply (in_pre p1) in A.
            (* a transform key among the definition / fixed attributes: then it would not be an expression; excluded since such
               a key is not what the restore reads *)
            destruct A as [A|[A|[A|[A|A]]]]; try (cbn in Hn; destruct Hn as [<-|[<-|[]]]; discriminate).
            - apply (ok_std _ _ OK n); [cbn in Hn; destruct Hn as [<-|[<-|[]]]; discriminate|].
              rewrite keys_app. apply in_or_app. now left.
            - apply (ok_std _ _ OK n); [cbn in Hn; destruct Hn as [<-|[<-|[]]]; discriminate|].
              rewrite keys_app. apply in_or_app. now right. }
          rewrite NP. cbn in Hn. destruct Hn as [<-|[<-|[]]]; reflexivity. }
      rewrite (ST "transform_write"), (ST "transform_read") by (cbn; tauto). reflexivity. }
    rewrite VB in CK. destruct (String.eqb (attr_str p1 "transform_read") ""); apply scalar_eqb_eq in CK; rewrite CK;
      unfold get; now rewrite (lookup_json_value history p1 OK), En.
  - rewrite (Rro eq_refl). reflexivity.
Qed.

(* ---------------------------------------------------------------------------------------------------------- *)
(* two hubs *)

Definition hub_ok (h : hub) : Prop :=
  NoDup (map p_id (h_ports h)) /\ forall p, In p (h_ports h) -> port_ok (h_history h) p.

Definition hardware (h : hub) : list port := filter (fun p => negb (p_virtual p)) (h_ports h).

Definition same_hardware (s1 s2 : hub) : Prop :=
  h_history s2 = h_history s1
  /\ NoDup (map p_id (h_ports s2))
  /\ (forall p1, In p1 (hardware s1) -> exists p, In p (hardware s2) /\ compatible p1 p)
  /\ (forall p, In p (hardware s2) -> exists p1, In p1 (hardware s1) /\ p_id p1 = p_id p).

Lemma keys_set_key : forall k v a, keys (set_key k v a) = keys a.
Proof. unfold keys. induction a as [|[k' v'] a IH]; cbn; [reflexivity|]. destruct (String.eqb k k'); cbn; congruence. Qed.

Lemma find_port_map_clear : forall i l, find_port i (map clear_expression l) = option_map clear_expression (find_port i l).
Proof.
  unfold find_port. induction l as [|q l IH]; cbn; [reflexivity|]. destruct (String.eqb i (p_id q)); auto.
Qed.

Lemma nodup_filter_ids : forall (f : port -> bool) l, NoDup (map p_id l) -> NoDup (map p_id (filter f l)).
Proof.
  induction l as [|q l IH]; cbn; intros N; [constructor|]. inversion N; subst. destruct (f q); cbn; auto.
  constructor; auto. intro A. apply H1. apply in_map_iff in A. destruct A as [x [X1 X2]]. apply filter_In in X2.
  apply in_map_iff. exists x. tauto.
Qed.

Lemma nodup_id_inj : forall l (a b : port), NoDup (map p_id l) -> In a l -> In b l -> p_id a = p_id b -> a = b.
Proof.
  induction l as [|q l IH]; cbn; intros a b N Ia Ib Eq; [tauto|]. inversion N; subst.
  destruct Ia as [->|Ia], Ib as [->|Ib]; auto.
  - exfalso. apply H1. rewrite Eq. now apply in_map.
  - exfalso. apply H1. rewrite <- Eq. now apply in_map.
Qed.

Theorem ports_roundtrip_any_order : forall s1 s2 s2' order,
  hub_ok s1 -> same_hardware s1 s2 -> Permutation order (h_ports s1) ->
  put_ports E (map JObj (map (port_json E) order)) s2 = (s2', None) ->
  docs_equiv E (get_ports E s1) (get_ports E s2').
Proof.
  intros s1 s2 s2' order [ND1 OK1] (HH & ND2 & HW12 & HW21) PERM. unfold put_ports, put_ports_gen.
  destruct (negb (h_backup_support s2)); [discriminate|]. rewrite as_entries_map.
  destruct (restore_body repaired E (with_flags s2 false false) (map (port_json E) order)) as [h2 er] eqn:RB.
  intros H; inversion H; subst s2' er; clear H.
  unfold restore_body in RB. cbn [repaired v_reset_clears_expression h_ports with_flags] in RB.
  set (kept := map clear_expression (filter (fun p => negb (p_virtual p)) (h_ports s2))) in *.
  assert (KEPT : forall i, find_port i kept = option_map clear_expression (find_port i (hardware s2))).
  { intros i. unfold kept. apply find_port_map_clear. }
  assert (NDo : NoDup (map p_id order)). { eapply Permutation_NoDup; [apply Permutation_sym, Permutation_map, PERM|exact ND1]. }
  apply restore_entries_roundtrip in RB; auto.
  2:{ intros p1 I1. assert (I1' : In p1 (h_ports s1)) by (eapply Permutation_in; eauto).
      cbn [h_history with_ports with_flags]. rewrite HH. split; [apply OK1; exact I1'|].
      unfold ready. cbn [h_ports with_ports]. destruct (p_virtual p1) eqn:PV.
      - rewrite KEPT. destruct (find_port (p_id p1) (hardware s2)) as [q|] eqn:F; [|reflexivity]. exfalso.
        apply find_port_Some in F. destruct F as [Fq Fid]. destruct (HW21 q Fq) as [q1 [Iq1 Eq1]].
        unfold hardware in Iq1. apply filter_In in Iq1. destruct Iq1 as [Iq1 NV].
        assert (q1 = p1). { apply (nodup_id_inj _ _ _ ND1 Iq1 I1'). congruence. }
        subst q1. rewrite PV in NV. discriminate.
      - assert (Ih : In p1 (hardware s1)). { unfold hardware. apply filter_In. rewrite PV. auto. }
        destruct (HW12 p1 Ih) as [q [Iq C]]. exists (clear_expression q). split.
        + rewrite KEPT. destruct C as [Cid _]. rewrite <- Cid.
          rewrite (find_port_nodup (hardware s2) q); [reflexivity| |exact Iq]. unfold hardware. now apply nodup_filter_ids.
        + destruct C as (C1 & C2 & C3 & C4 & C5 & C6 & C7 & C8). unfold compatible, clear_expression.
          cbn [p_id p_virtual p_writable p_def p_fixed p_kinds p_attrs p_raw with_attrs]. rewrite keys_set_key. tauto. }
  destruct RB as [RA RB]. cbn [h_ports with_ports] in RB.
  intros i. rewrite !find_entry_get_ports. cbn [h_ports with_flags].
  destruct (find_port i (h_ports s1)) as [p1|] eqn:F1; cbn [option_map].
  - apply find_port_Some in F1. destruct F1 as [I1 Eid]. subst i.
    assert (Io : In p1 order). { eapply Permutation_in; [apply Permutation_sym; exact PERM|exact I1]. }
    destruct (RA p1 Io) as [p' [F' RS]]. rewrite F'. cbn [option_map].
    apply (restored_entry_equiv (h_history s1)); auto.
  - assert (NI : ~ In i (map p_id order)).
    { intro A. apply find_port_None in F1. apply F1. eapply Permutation_in; [apply Permutation_map; exact PERM|exact A]. }
    rewrite (RB i NI), KEPT. destruct (find_port i (hardware s2)) as [q|] eqn:F; cbn [option_map]; [|exact I].
    apply find_port_Some in F. destruct F as [Fq Fid]. destruct (HW21 q Fq) as [q1 [Iq1 Eq1]].
    unfold hardware in Iq1. apply filter_In in Iq1. destruct Iq1 as [Iq1 _].
    apply find_port_None in F1. apply F1. rewrite <- Fid, <- Eq1. now apply in_map.
Qed.

(* the property: the documents GET /ports answers are restored *)
Theorem ports_roundtrip : forall s1 s2 s2',
  hub_ok s1 -> same_hardware s1 s2 ->
  put_ports E (map JObj (get_ports E s1)) s2 = (s2', None) ->
  docs_equiv E (get_ports E s1) (get_ports E s2').
Proof.
  intros s1 s2 s2' O S. unfold get_ports at 1. apply ports_roundtrip_any_order; auto. apply sort_ports_perm.
Qed.

End Roundtrip.
