(* C02 — facts about the regenerated function registry (Gen/FuncTable.v), re-proved on every run: finite, complete checks. *)
From QT Require Import Expr.Spec Expr.EvalThm Expr.OrderThm Expr.Deps Expr.FuncInfo Gen.FuncTable C02.Run.
Open Scope Z_scope.
Open Scope string_scope.
Open Scope list_scope.

Definition stateless_names : list string :=
  ["ADD"; "SUB"; "MUL"; "DIV"; "MOD"; "POW"; "IF"; "EQ"; "GT"; "GTE"; "LT"; "LTE"; "AND"; "OR"; "NOT"; "XOR";
   "BITAND"; "BITOR"; "BITNOT"; "BITXOR"; "SHL"; "SHR"; "FLOOR"; "CEIL"; "ROUND"; "ABS"; "SGN"; "MIN"; "MAX"; "AVG";
   "AVAILABLE"; "DEFAULT"; "ONOFFAUTO"; "LUT"; "LUTLI"; "TIME"; "TIMEMS"].

(* the code's SGN takes the sign of the number itself *)
Lemma sgn_fixed : sgn_int_first = false.
Proof. reflexivity. Qed.

(* eager in the model <-> `_eval` only uses eval_args in the source; lazy <-> only awaits individual arguments *)
Definition shape_ok (name : string) : bool :=
  match find_func name func_table with
  | None => false
  | Some fi =>
      fi_enabled fi &&
      (if String.eqb name "TIME" || String.eqb name "TIMEMS" then Z.eqb (fi_shape fi) 3
       else if eager_name name then Z.eqb (fi_shape fi) 0 else Z.eqb (fi_shape fi) 1)
  end.

Lemma shapes_ok : forallb shape_ok stateless_names = true.
Proof. vm_compute. reflexivity. Qed.

(* DEPS of the registry = the time dependence the model knows about *)
Definition deps_ok (name : string) : bool :=
  match find_func name func_table with
  | None => false
  | Some fi =>
      if String.eqb name "TIME" then list_eqb String.eqb (fi_deps fi) ["second"]
      else if String.eqb name "TIMEMS" then list_eqb String.eqb (fi_deps fi) ["asap"]
      else match fi_deps fi with [] => true | _ => false end
  end.

Lemma table_deps_ok : forallb deps_ok stateless_names = true.
Proof. vm_compute. reflexivity. Qed.

(* arities the model's functions are defined for *)
Definition arity_ok (name : string) (lo : Z) (hi : option Z) : bool :=
  match find_func name func_table with
  | Some fi => option_eqb Z.eqb (fi_min fi) (Some lo) && option_eqb Z.eqb (fi_max fi) hi
  | None => false
  end.

Lemma arities_ok :
  forallb (fun n => arity_ok n 2 None) ["ADD"; "MUL"; "AND"; "OR"; "MIN"; "MAX"; "AVG"]
  && forallb (fun n => arity_ok n 2 (Some 2))
       ["SUB"; "DIV"; "MOD"; "POW"; "EQ"; "GT"; "GTE"; "LT"; "LTE"; "XOR"; "BITAND"; "BITOR"; "BITXOR"; "SHL"; "SHR"; "DEFAULT"; "ONOFFAUTO"]
  && forallb (fun n => arity_ok n 1 (Some 1)) ["NOT"; "BITNOT"; "FLOOR"; "CEIL"; "ABS"; "SGN"; "AVAILABLE"]
  && arity_ok "IF" 3 (Some 3) && arity_ok "ROUND" 1 (Some 2) && arity_ok "LUT" 5 None && arity_ok "LUTLI" 5 None
  && arity_ok "TIME" 0 (Some 0) && arity_ok "TIMEMS" 0 (Some 0) = true.
Proof. vm_compute. reflexivity. Qed.

Theorem eval_matches_reference_gen :
  order_laws -> forall c e, nan_sensitive_free c e = true -> eval sgn_int_first c e = sem c e.
Proof. intros L c e H. rewrite sgn_fixed. apply eval_matches_reference; assumption. Qed.

(* the canonicity test the case files apply to every input is the premise of the headline theorem *)
Lemma run_canonical_same : forall c e, run_ctx_canonical c && run_lits_canonical e = ctx_canonical c && lits_canonical e.
Proof. reflexivity. Qed.
