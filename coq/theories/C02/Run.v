(* C02 — dispatch used by the generated case files. *)
From QT Require Export Expr.Spec.
From QT Require Import Gen.FuncTable.
Open Scope Z_scope.

Definition model (c : ctx) (e : expr) : outcome := eval sgn_int_first c e.

Definition bad_model (cases : list (ctx * expr * outcome)) : list nat :=
  mismatches (fun '(c, e, o) => outcome_le o (model c e)) cases 0.
Definition bad_spec (cases : list (ctx * expr * outcome)) : list nat :=
  mismatches (fun '(c, e, o) => outcome_le o (sem c e)) cases 0.
(* cases on which the model itself gives no definite answer (counted, not compared) *)
Definition unspecified_cases (cases : list (ctx * expr * outcome)) : list nat :=
  mismatches (fun '(c, e, o) => match sem c e with Fail ks => negb (unspecified ks) | _ => true end) cases 0.

(* inputs outside the canonicity premise of C02_eval_matches_reference (non-canonical binary64 data in the context or in a
   literal): must be empty — the harness encodes Python floats canonically; same definitions as Expr.OrderThm
   (C02.GenOk.run_canonical_same) *)
Definition run_canonical_val (v : pyval) : bool := match v with VFloat f => valid_binary prec emax f | _ => true end.
Definition run_ctx_canonical (c : ctx) : bool :=
  forallb (fun kv => match snd kv with Some v => run_canonical_val v | None => true end) (port_values c)
  && match self_last c with Some v => run_canonical_val v | None => true end.
Fixpoint run_lits_canonical (e : expr) : bool :=
  match e with
  | Lit (Some v) => run_canonical_val v
  | Call _ args => forallb run_lits_canonical args
  | _ => true
  end.
Definition noncanonical_cases (cases : list (ctx * expr * outcome)) : list nat :=
  mismatches (fun '(c, e, _) => run_ctx_canonical c && run_lits_canonical e) cases 0.

(* Expression.get_deps(): "$id" per port value read, DEPS of every called function *)
Open Scope string_scope.
Fixpoint model_deps (self : string) (e : expr) : list string :=
  match e with
  | PortVal id => [String.append "$" id]
  | SelfVal => [String.append "$" self]
  | Call f args =>
      List.app (match Expr.FuncInfo.find_func f func_table with Some fi => Expr.FuncInfo.fi_deps fi | None => [] end)
        (flat_map (model_deps self) args)
  | _ => []
  end.

Definition subset (a b : list string) : bool := forallb (fun x => existsb (String.eqb x) b) a.
Definition bad_deps (cases : list (string * expr * list string)) : list nat :=
  mismatches (fun '(self, e, d) => let m := model_deps self e in subset m d && subset d m) cases 0.
