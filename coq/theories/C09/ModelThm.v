(* C09 — theorems about the model, for ANY tables that pass the finite check [table_ok] and whose wrapper decision is
   sound.  Nothing here depends on the generated file: GenOk.v discharges the three hypotheses for the regenerated
   tables, Props/C09.v instantiates. *)
From QT Require Import C09.Model.
From Coq Require Import ZifyBool.
Open Scope string_scope.
Open Scope Z_scope.

Lemma meth_eqb_eq : forall a b, meth_eqb a b = true -> a = b.
Proof. destruct a, b; simpl; intros H; try reflexivity; discriminate H. Qed.

Lemma all_meths_complete : forall m, In m all_meths.
Proof. destruct m; simpl; auto 10. Qed.

Lemma all_routes_complete : forall r, In r all_routes.
Proof. destruct r; simpl; auto 40. Qed.

Lemma route_of_template_template : forall r, route_of_template (route_template r) = Some r.
Proof. destruct r; vm_compute; reflexivity. Qed.

Lemma route_of_template_inv : forall t r, route_of_template t = Some r -> route_template r = t.
Proof.
  unfold route_of_template. intros t r H. apply find_some in H. destruct H as [_ H].
  apply String.eqb_eq in H. exact H.
Qed.

(* the levels of the specification are the four levels, and a caller below a required level exists only above none *)
Lemma required_spec_range : forall r m, In (required_spec r m) [LV_NONE; LV_VIEWONLY; LV_NORMAL; LV_ADMIN].
Proof. destruct r, m; vm_compute; tauto. Qed.

Section Generic.
  Variable T : tables.

  Lemma dispatch_serve_inv : forall fl t m h f rq,
    dispatch T fl t m = DServe h f rq ->
    exists e hm,
      In e (t_routes T) /\ In hm (t_hmeths T) /\ e_kind e = KApi /\ e_tmpl e = t /\ e_handler e = h
      /\ hm_handler hm = h /\ hm_meth hm = m /\ hm_func hm = f /\ level_of T f = Some rq
      /\ guard_on fl (e_guard e) = true /\ guard_on fl (hm_pre hm) = true.
  Proof.
    intros fl t m h f rq. unfold dispatch.
    destruct (find_entry T fl t) as [e|] eqn:He; [|discriminate].
    destruct (e_kind e) eqn:Hk; try discriminate.
    destruct (find_hmeth T (e_handler e) m) as [hm|] eqn:Hm; [|discriminate].
    destruct (guard_on fl (hm_pre hm)) eqn:Hp; [|discriminate].
    destruct (level_of T (hm_func hm)) as [lv|] eqn:Hl; [|discriminate].
    intros H. inversion H; subst h f rq. clear H.
    unfold find_entry in He. apply find_some in He. destruct He as [Hin He].
    apply andb_true_iff in He. destruct He as [Hg Ht]. apply String.eqb_eq in Ht.
    unfold find_hmeth in Hm. apply find_some in Hm. destruct Hm as [Hin2 Hm].
    apply andb_true_iff in Hm. destruct Hm as [Hh Hme]. apply String.eqb_eq in Hh. apply meth_eqb_eq in Hme.
    exists e, hm. repeat split; auto.
  Qed.

  Lemma not_known_404 : forall fl t m l json, route_known T fl t = false -> handle T fl t m l json = Status 404.
  Proof.
    intros fl t m l json Hk. unfold handle, dispatch.
    destruct (find_entry T fl t) as [e|] eqn:He; [|reflexivity].
    unfold find_entry in He. apply find_some in He. destruct He as [Hin He].
    destruct (e_kind e) eqn:Hkind; try reflexivity; exfalso.
    - assert (route_known T fl t = true); [|congruence].
      unfold route_known. apply existsb_exists. exists e. split; [exact Hin|]. rewrite He, Hkind. reflexivity.
    - assert (route_known T fl t = true); [|congruence].
      unfold route_known. apply existsb_exists. exists e. split; [exact Hin|]. rewrite He, Hkind. reflexivity.
  Qed.

  Hypothesis Hserve : forall l r, t_wrapper T l r = Serve <-> r <= l.
  Hypothesis Hdeny : forall l r, l < r -> t_wrapper T l r = Deny (refusal_status l).
  Hypothesis Hok : table_ok T = true.

  (* every function reachable through the routing table carries exactly the level of the specification *)
  Lemma served_level_spec : forall fl r m h f rq,
    dispatch T fl (route_template r) m = DServe h f rq ->
    rq = required_spec r m /\ (str_mem h (t_noauth T) = true -> rq = LV_NONE) /\ t_none T = LV_NONE.
  Proof.
    intros fl r m h f rq H.
    apply dispatch_serve_inv in H.
    destruct H as (e & hm & Hin & Hin2 & Hk & Ht & Hh & Hh2 & Hm & Hf & Hl & _ & _).
    unfold table_ok in Hok. apply andb_true_iff in Hok. destruct Hok as [Hall Hnone].
    rewrite forallb_forall in Hall. specialize (Hall e Hin).
    unfold entry_ok in Hall. rewrite Hk, Ht, route_of_template_template in Hall.
    rewrite forallb_forall in Hall. specialize (Hall hm Hin2).
    unfold hmeth_ok in Hall.
    assert (He : String.eqb (hm_handler hm) (e_handler e) = true) by (apply String.eqb_eq; congruence).
    rewrite He, Hf, Hl, Hm, Hh in Hall.
    apply andb_true_iff in Hall. destruct Hall as [H1 H2].
    apply Z.eqb_eq in H1. apply Z.eqb_eq in Hnone.
    repeat split; auto.
    intros Hna. rewrite Hna in H2. simpl in H2. apply Z.eqb_eq in H2. exact H2.
  Qed.

  (* a request carrying what the method needs: a JSON content type on the methods for which call_api_func demands one *)
  Definition well_formed (m : meth) (json : bool) : bool := json || negb (meth_mem m (t_json_methods T)).

  Theorem enforced : forall fl r m l json h f rq,
    dispatch T fl (route_template r) m = DServe h f rq ->
    0 <= l -> well_formed m json = true ->
    (handle T fl (route_template r) m l json = Ran f <-> required_spec r m <= l)
    /\ (l < required_spec r m -> handle T fl (route_template r) m l json = Status (refusal_status l)).
  Proof.
    intros fl r m l json h f rq Hd Hl Hwf.
    destruct (served_level_spec _ _ _ _ _ _ Hd) as (Hrq & Hna & Hnone).
    unfold handle. rewrite Hd.
    assert (Hj : meth_mem m (t_json_methods T) && negb json = false).
    { unfold well_formed in Hwf. destruct json, (meth_mem m (t_json_methods T)); simpl in *; congruence. }
    rewrite Hj. unfold eff_level.
    destruct (str_mem h (t_noauth T)) eqn:Hn.
    - (* the handler does no consumer authentication: the function must be open to everybody *)
      specialize (Hna eq_refl). rewrite Hnone.
      assert (Hs : t_wrapper T LV_NONE rq = Serve) by (apply Hserve; unfold LV_NONE in *; lia).
      rewrite Hs. rewrite <- Hrq, Hna. unfold LV_NONE in *. split; [split; [intros; lia | reflexivity] | intros; lia].
    - split.
      + destruct (t_wrapper T l rq) eqn:Hw.
        * apply Hserve in Hw. split; [intros; lia | reflexivity].
        * split; [discriminate|]. intros Hle. assert (Hs : t_wrapper T l rq = Serve) by (apply Hserve; lia).
          congruence.
      + intros Hlt. rewrite Hdeny by lia. reflexivity.
  Qed.

  (* the safety core, with no side condition on the request: a body that ran was allowed to run *)
  Theorem no_run_below_level : forall fl r m l json f,
    0 <= l -> handle T fl (route_template r) m l json = Ran f -> required_spec r m <= l.
  Proof.
    intros fl r m l json f Hl. unfold handle.
    destruct (dispatch T fl (route_template r) m) as [h f' rq| | |] eqn:Hd; try discriminate.
    destruct (served_level_spec _ _ _ _ _ _ Hd) as (Hrq & Hna & Hnone).
    destruct (meth_mem m (t_json_methods T) && negb json); [discriminate|].
    unfold eff_level. destruct (str_mem h (t_noauth T)) eqn:Hn.
    - specialize (Hna eq_refl). intros _. unfold LV_NONE in *. lia.
    - destruct (t_wrapper T l rq) eqn:Hw; [|discriminate]. apply Hserve in Hw. intros _. lia.
  Qed.

  (* whatever the request, the answer to a caller below the required level is 401/403, or 404/400 from the checks that
     come before the level check — never the function *)
  Theorem refused_below_level : forall fl r m l json,
    0 <= l -> l < required_spec r m ->
    let a := handle T fl (route_template r) m l json in
    a = Status (refusal_status l) \/ a = Status 404 \/ a = Status 400 \/ a = NonApi \/ a = Broken.
  Proof.
    intros fl r m l json Hl Hlt. cbv zeta. unfold handle.
    destruct (dispatch T fl (route_template r) m) as [h f rq| | |] eqn:Hd; auto.
    destruct (served_level_spec _ _ _ _ _ _ Hd) as (Hrq & Hna & Hnone).
    destruct (meth_mem m (t_json_methods T) && negb json); auto.
    unfold eff_level. destruct (str_mem h (t_noauth T)) eqn:Hn.
    - specialize (Hna eq_refl). unfold LV_NONE in *. lia.
    - rewrite Hdeny by lia. auto.
  Qed.
End Generic.
