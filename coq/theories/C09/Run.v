(* C09 — dispatch used by the generated case files.
   A case = (class, URL shape, method, caller level, JSON content type sent?, what the real application did).
   bad_model: indices where the model over the regenerated tables predicts something else (tie);
   bad_spec : indices where the real application contradicts the hand-written specification (violation). *)
From QT Require Export C09.Model C09.SpecRun C09.Events.
From QT Require Import Gen.C09Gen C09.Stateful C09.Listen.
Open Scope string_scope.
Open Scope Z_scope.

(* on = the atomic facts that hold; guard names defined from them (history.is_enabled()) are expanded *)
Definition flags_of (on : list string) : flags := flags_from gen_derived (fun f => str_mem f on).

Definition model_agrees (on : list string) (c : case) : bool :=
  let '(cls, tmpl, m, l, json, o) := c in
  match handle gen_tables (flags_of on) tmpl m l json, o with
  | Ran f, ORan g => String.eqb f g
  | Status s, OStatus s' => s =? s'
  | NonApi, OStatus _ => true
  | _, _ => false
  end.

(* groups of cases, each under its own set of flags that are on; indices are global over the concatenation *)
Fixpoint bad_model_from (gs : list (list string * list case)) (i : nat) : list nat :=
  match gs with
  | [] => []
  | (on, cs) :: r => (mismatches (model_agrees on) cs i ++ bad_model_from r (i + List.length cs)%nat)%list
  end.
Definition bad_model (gs : list (list string * list case)) : list nat := bad_model_from gs 0.

(* routing only (used for the sweep over all flag sets): which handler class serves shape t under the flags?  A shape
   with no enabled entry falls to the catch-all entries, as a concrete path of that shape does in tornado.
   Cases carry the class the real tornado application resolved for a sample path of the shape. *)
Definition model_handler (on : list string) (t : string) : string :=
  let fl := flags_of on in
  match find_entry gen_tables fl t with
  | Some e => e_handler e
  | None =>
      match find_entry gen_tables fl (if String.prefix "/api/" t then "/api/*" else "/*") with
      | Some e => e_handler e
      | None => "<none>"
      end
  end.

Definition bad_routing (tmpls : list string) (sets : list (list string * list string)) : list nat :=
  mismatches (fun p : list string * list string =>
                list_eqb String.eqb (map (model_handler (fst p)) tmpls) (snd p))
             sets 0.

Definition bad_events_model (cs : list evcase) : list nat :=
  mismatches (fun x : evcase => let '(s, c, o) := x in events_model_ok s c o) cs 0.

Definition bad_auth_model (on : list string) (cs : list acase) : list nat :=
  mismatches (fun x : acase => let '(t, m, p, v, a, tl, o) := x in
                resp_agrees (handle gen_tables (flags_of on) t m (grant p v a tl) true) o) cs 0.

Definition bad_hist_model (on : list string) (hs : list hcase) : list nat :=
  mismatches (fun h : hcase => hist_model_ok gen_tables grant (flags_of on) pw_init (fst h) (snd h)) hs 0.

Definition bad_listen_model (cs : list lcase) : list nat :=
  mismatches (fun x : lcase => let '(l, tm, tr, dl) := x in same_set dl (listen_model l (if tm =? 0 then 60 else tm) tr)) cs 0.
