(* C09 — model of how the web layer decides a request (definitions only).

   The tables (routing table, handler methods, API function levels, the wrapper's decision) are NOT written here: they
   are regenerated from /repo on every run into Gen/C09Gen.v as a value of type [tables].  This file defines what the
   code does with them:

     web/server.py _make_routing_table   entries, each under the conjunction of the `if` guards around it, in order;
                                         tornado serves the first entry whose pattern matches
     web/handlers.py                     handler class -> HTTP method -> (pre-check flags, API function);
                                         a method the class does not define is BaseHandler's: NoSuchFunction (404)
     web/base.py APIHandler              access_level starts at ACCESS_LEVEL_NONE and is raised by prepare() only when
                                         AUTH_ENABLED; call_api_func rejects POST/PATCH/PUT without a JSON content type
                                         (400) before calling the function
     core/api/__init__.py api_call       wrapper level required : Serve | Deny status

   Paths are abstracted to their class: the URL shape ("template") of the URLSpec, e.g. "/api/ports/{}/value".  That a
   concrete path is routed to the entry of its shape is checked against the real tornado application by the harness. *)
From QT Require Export C09.Spec.
Open Scope string_scope.
Open Scope Z_scope.

(* the decision of the api_call wrapper *)
Inductive outcome := Serve | Deny (status : Z).

(* kind of the handler class of a routing entry *)
Inductive ekind :=
  | KApi        (* subclass of APIHandler: methods call API functions *)
  | KNotFound   (* subclass of BaseHandler that calls no API function: every method answers 404 *)
  | KOpaque.    (* routes of the frontend package (qui): static files and templates, no API function *)

Record entry := {
  e_guard : list string;    (* every one of these flags must be on for the entry to exist *)
  e_tmpl : string;          (* URL shape *)
  e_kind : ekind;
  e_handler : string        (* handler class name *)
}.

Record hmeth := {
  hm_handler : string;
  hm_meth : meth;
  hm_pre : list string;     (* flags that must be on, else the method raises NoSuchFunction *)
  hm_func : string          (* API function, "module.name" *)
}.

Record tables := {
  t_routes : list entry;
  t_derived : list (string * list string);   (* guard names that are functions of atomic facts: name -> conjunction *)
  t_hmeths : list hmeth;
  t_noauth : list string;              (* handler classes with AUTH_ENABLED = False *)
  t_levels : list (string * Z);        (* API function -> level given to @api_call *)
  t_none : Z;                          (* ACCESS_LEVEL_NONE, the level of a request before/without authentication *)
  t_json_methods : list meth;          (* methods for which call_api_func demands a JSON content type *)
  t_wrapper : Z -> Z -> outcome        (* caller level -> required level -> decision *)
}.

Definition flags := string -> bool.
Definition guard_on (fl : flags) (g : list string) : bool := forallb fl g.

Definition str_mem (s : string) (l : list string) : bool := existsb (String.eqb s) l.
Definition meth_mem (m : meth) (l : list meth) : bool := existsb (meth_eqb m) l.

Fixpoint assoc (k : string) (l : list (string * Z)) : option Z :=
  match l with
  | [] => None
  | (k', v) :: r => if String.eqb k k' then Some v else assoc k r
  end.

Definition level_of (T : tables) (f : string) : option Z := assoc f (t_levels T).

Inductive dres :=
  | DServe (h f : string) (required : Z)   (* the request reaches API function f of handler h *)
  | DNotFound                              (* 404 *)
  | DNonApi                                (* a frontend route *)
  | DBroken.                               (* the handler names a function that has no api_call level *)

Definition find_entry (T : tables) (fl : flags) (t : string) : option entry :=
  find (fun e => guard_on fl (e_guard e) && String.eqb (e_tmpl e) t) (t_routes T).

Definition find_hmeth (T : tables) (h : string) (m : meth) : option hmeth :=
  find (fun hm => String.eqb (hm_handler hm) h && meth_eqb (hm_meth hm) m) (t_hmeths T).

Definition dispatch (T : tables) (fl : flags) (t : string) (m : meth) : dres :=
  match find_entry T fl t with
  | None => DNotFound      (* falls to the catch-all entries *)
  | Some e =>
      match e_kind e with
      | KNotFound => DNotFound
      | KOpaque => DNonApi
      | KApi =>
          match find_hmeth T (e_handler e) m with
          | None => DNotFound
          | Some hm =>
              if guard_on fl (hm_pre hm)
              then match level_of T (hm_func hm) with
                   | Some r => DServe (e_handler e) (hm_func hm) r
                   | None => DBroken
                   end
              else DNotFound
          end
      end
  end.

(* what the client sees / whether the function body runs *)
Inductive resp := Ran (f : string) | Status (s : Z) | NonApi | Broken.

Definition eff_level (T : tables) (h : string) (l : Z) : Z := if str_mem h (t_noauth T) then t_none T else l.

Definition handle (T : tables) (fl : flags) (t : string) (m : meth) (l : Z) (json : bool) : resp :=
  match dispatch T fl t m with
  | DNotFound => Status 404
  | DNonApi => NonApi
  | DBroken => Broken
  | DServe h f r =>
      if meth_mem m (t_json_methods T) && negb json then Status 400
      else match t_wrapper T (eff_level T h l) r with
           | Serve => Ran f
           | Deny s => Status s
           end
  end.

(* ---- the finite check that ties the tables to the specification ------------------------------------------------ *)

Definition hmeth_ok (T : tables) (e : entry) (r : route) (hm : hmeth) : bool :=
  if String.eqb (hm_handler hm) (e_handler e)
  then match level_of T (hm_func hm) with
       | Some lv => (lv =? required_spec r (hm_meth hm))
                    && (negb (str_mem (e_handler e) (t_noauth T)) || (lv =? LV_NONE))
       | None => false
       end
  else true.

Definition entry_ok (T : tables) (e : entry) : bool :=
  match e_kind e with
  | KApi =>
      match route_of_template (e_tmpl e) with
      | Some r => forallb (hmeth_ok T e r) (t_hmeths T)
      | None => false
      end
  | _ => true
  end.

Definition table_ok (T : tables) : bool :=
  forallb (entry_ok T) (t_routes T) && (t_none T =? LV_NONE).

(* is t the shape of some enabled API or frontend entry? *)
Definition route_known (T : tables) (fl : flags) (t : string) : bool :=
  existsb (fun e => guard_on fl (e_guard e) && String.eqb (e_tmpl e) t
                    && match e_kind e with KNotFound => false | _ => true end) (t_routes T).

(* the list of (route, method, required level, handler, function) the tables define — for the evidence *)
Definition api_functions (T : tables) : list (string * meth * string) :=
  flat_map (fun e => match e_kind e with
                     | KApi => map (fun hm => (e_tmpl e, hm_meth hm, hm_func hm))
                                 (filter (fun hm => String.eqb (hm_handler hm) (e_handler e)) (t_hmeths T))
                     | _ => []
                     end) (t_routes T).

(* ---- guards as conditions on atomic facts ---------------------------------------------------------------------------- *)

Fixpoint assoc_l (k : string) (l : list (string * list string)) : option (list string) :=
  match l with
  | [] => None
  | (k', v) :: r => if String.eqb k k' then Some v else assoc_l k r
  end.

(* a guard name is either atomic or defined (core/history.py is_enabled) as a conjunction of atomic facts *)
Definition expand1 (D : list (string * list string)) (g : string) : list string :=
  match assoc_l g D with Some atoms => atoms | None => [g] end.
Definition expand (D : list (string * list string)) (gs : list string) : list string := flat_map (expand1 D) gs.

(* the flag assignment determined by the atomic facts *)
Definition flags_from (D : list (string * list string)) (at_ : string -> bool) : flags :=
  fun g => forallb at_ (expand1 D g).

Definition incl_b (a b : list string) : bool := forallb (fun x => str_mem x b) a.
Definition set_eqb (a b : list string) : bool := incl_b a b && incl_b b a.

(* finite check: every API routing entry is guarded by exactly the conditions the specification gives to its route, every
   handler method by exactly its method conditions, and no non-API entry sits on an API route's shape *)
Definition cond_ok (T : tables) : bool :=
  forallb (fun e =>
    match e_kind e, route_of_template (e_tmpl e) with
    | KApi, Some r =>
        set_eqb (expand (t_derived T) (e_guard e)) (route_condition_spec r)
        && forallb (fun hm => if String.eqb (hm_handler hm) (e_handler e)
                              then set_eqb (expand (t_derived T) (hm_pre hm)) (method_condition_spec r (hm_meth hm))
                              else true) (t_hmeths T)
    | KApi, None => false
    | _, Some _ => false
    | _, None => true
    end) (t_routes T).
