(* C09 — routes exist only with their feature: for ANY tables passing the finite check [cond_ok], a request for a route
   whose specified conditions do not all hold is answered 404, whatever the method, level and the other facts. *)
From QT Require Import C09.Model C09.ModelThm.
Open Scope string_scope.
Open Scope Z_scope.

Lemma str_mem_in : forall x l, str_mem x l = true -> In x l.
Proof.
  intros x l H. unfold str_mem in H. apply existsb_exists in H. destruct H as (y & Hy & He).
  apply String.eqb_eq in He. subst. exact Hy.
Qed.

Lemma incl_b_in : forall a b x, incl_b a b = true -> In x a -> In x b.
Proof.
  intros a b x H Hx. unfold incl_b in H. rewrite forallb_forall in H. apply str_mem_in. apply H. exact Hx.
Qed.

Section Cond.
  Variable T : tables.
  Variable at_ : string -> bool.
  Let fl := flags_from (t_derived T) at_.

  Lemma guard_on_expand : forall g, guard_on fl g = forallb at_ (expand (t_derived T) g).
  Proof.
    induction g as [|x r IH]; [reflexivity|].
    unfold guard_on in *. simpl. unfold expand in *. simpl. rewrite forallb_app. rewrite IH. reflexivity.
  Qed.

  Hypothesis Hc : cond_ok T = true.

  Theorem route_without_feature_404 : forall r m l json,
    forallb at_ (route_condition_spec r) = false -> handle T fl (route_template r) m l json = Status 404.
  Proof.
    intros r m l json Hoff. unfold handle, dispatch.
    destruct (find_entry T fl (route_template r)) as [e|] eqn:He; [|reflexivity].
    unfold find_entry in He. apply find_some in He. destruct He as [Hin He].
    apply andb_true_iff in He. destruct He as [Hg Ht]. apply String.eqb_eq in Ht.
    unfold cond_ok in Hc. rewrite forallb_forall in Hc. specialize (Hc e Hin).
    rewrite Ht, route_of_template_template in Hc.
    destruct (e_kind e); try discriminate Hc.
    exfalso. apply andb_true_iff in Hc. destruct Hc as [Hs _].
    unfold set_eqb in Hs. apply andb_true_iff in Hs. destruct Hs as [_ Hincl].
    rewrite guard_on_expand in Hg. rewrite forallb_forall in Hg.
    assert (Hall : forallb at_ (route_condition_spec r) = true).
    { apply forallb_forall. intros x Hx. apply Hg. eapply incl_b_in; eauto. }
    congruence.
  Qed.
End Cond.
