(* C09 — model of the decision sequence of slaves/api/funcs/devices.py post_slave_device_events (hand-written, tied to
   the real body by the case files: the harness runs the REAL body against a registered slave object whose
   handle_event/save/... are recorders) and its theorems.

     slave = slaves_devices.get(name); if not slave: 404
     auth = request.headers.get('Authorization'); if not auth: 401
     try: parse_auth_header(auth, ORIGIN_DEVICE, lambda u: slave.get_admin_password_hash(), require_usr=False)
            regex "Bearer <token>" + unverified decode   -> AuthError
            iss != "qToggle"                             -> AuthError
            ori != origin                                -> AuthError
            iat outside the allowed skew                 -> AuthError
            (usr not required)
            no password hash                             -> AuthError
            verified decode (HS256, key = hash)          -> AuthError
     except AuthError: 401
     schema validation of the body (the harness sends a valid one)
     if poll_interval > 0: 400;  if listen enabled: 400
     await slave.handle_event(params) ... *)
From QT Require Export C09.Spec.
Open Scope string_scope.
Open Scope Z_scope.

Definition events_decide (s : slave_st) (c : cred) : ev_out :=
  if negb (s_exists s) then EvStatus 404 else
  if negb (c_present c) then EvStatus 401 else
  if negb (c_jwt c) then EvStatus 401 else
  if negb (c_iss c) then EvStatus 401 else
  if negb (c_device c) then EvStatus 401 else
  if negb (c_fresh c) then EvStatus 401 else
  if negb (s_has_hash s) then EvStatus 401 else
  if negb (c_slave_key c) then EvStatus 401 else
  if s_poll s then EvStatus 400 else
  if s_listen s then EvStatus 400 else
  EvServed.

Definition events_model_ok (s : slave_st) (c : cred) (o : obs) : bool :=
  match events_decide s c, o with
  | EvServed, ORan _ => true
  | EvStatus a, OStatus b => a =? b
  | _, _ => false
  end.

Ltac all_bools s c :=
  destruct s as [e h p l], c as [c1 c2 c3 c4 c5 c6];
  destruct e, h, p, l, c1, c2, c3, c4, c5, c6.

Lemma events_decide_spec : forall s c, events_decide s c = events_spec s c.
Proof. intros s c. all_bools s c; reflexivity. Qed.

(* served iff the slave exists, the token verifies under the slave's admin hash, and the slave is permanently offline *)
Lemma events_served_iff : forall s c,
  events_decide s c = EvServed
  <-> s_exists s = true /\ token_verifies s c = true /\ s_poll s = false /\ s_listen s = false.
Proof.
  intros s c. all_bools s c; cbv; split; intros H; try discriminate H; try (repeat split; reflexivity);
    try (destruct H as (H1 & H2 & H3 & H4); discriminate).
Qed.

Lemma events_unverified_401 : forall s c,
  s_exists s = true -> token_verifies s c = false -> events_decide s c = EvStatus 401.
Proof. intros s c. all_bools s c; cbv; intros H1 H2; try reflexivity; discriminate. Qed.

Lemma events_unknown_404 : forall s c, s_exists s = false -> events_decide s c = EvStatus 404.
Proof. intros s c. all_bools s c; cbv; intros H; try reflexivity; discriminate. Qed.
