(* C09 — the level granted by prepare() as regenerated from the source ([grant], Gen/C09Gen.v), password state and
   histories: the model follows the code (regenerated grant order, regenerated tables), the specification is in Spec.v;
   theorems say they coincide for every history, whatever the flags.  Proved for ANY tables / grant function meeting the
   obligations of GenOk.v (so that no proof step computes on the concrete tables), instantiated in Props/C09.v. *)
From QT Require Import C09.Model C09.ModelThm.
From Coq Require Import ZifyBool.
Open Scope string_scope.
Open Scope Z_scope.

Definition resp_agrees (r : resp) (ob : obs) : bool :=
  match r, ob with
  | Ran f, ORan g => String.eqb f g
  | Status s, OStatus s' => s =? s'
  | _, _ => false
  end.

Fixpoint run (step : pwstate -> op -> credential -> pwstate * bool) (st : pwstate) (h : list (op * credential)) : pwstate :=
  match h with
  | [] => st
  | (o, c) :: r => run step (fst (step st o c)) r
  end.

Lemma cred_level_nonneg : forall st c, 0 <= cred_level grant_spec st c.
Proof.
  intros st c. destruct c as [|u p|]; unfold cred_level, grant_spec, LV_NONE, LV_ADMIN;
    try destruct u; unfold user_level, LV_ADMIN, LV_NORMAL, LV_VIEWONLY, LV_NONE;
    repeat match goal with |- context [if ?b then _ else _] => destruct b end; lia.
Qed.

Section Hist.
  Variable T : tables.
  Variable g : bool -> bool -> bool -> Z -> Z.
  Variable fl : flags.

  Definition step_model (st : pwstate) (o : op) (c : credential) : pwstate * bool :=
    if is_restart o then (st, true) else   (* startup reloads what every served operation saved *)
    match handle T fl (route_template RDevice) (op_meth o) (cred_level g st c) true with
    | Ran _ => (apply_op o st, true)
    | _ => (st, false)
    end.

  Fixpoint hist_model_ok (st : pwstate) (steps : list hstep) (probes : list hprobe) : bool :=
    match steps with
    | (o, c, ob) :: r =>
        (is_restart o || resp_agrees (handle T fl (route_template RDevice) (op_meth o) (cred_level g st c) true) ob)
        && hist_model_ok (fst (step_model st o c)) r probes
    | [] => forallb (fun p : hprobe => let '(t, m, c, ob) := p in
                                       resp_agrees (handle T fl t m (cred_level g st c) true) ob) probes
    end.

  Hypothesis Hserve : forall l r, t_wrapper T l r = Serve <-> r <= l.
  Hypothesis Hdeny : forall l r, l < r -> t_wrapper T l r = Deny (refusal_status l).
  Hypothesis Hok : table_ok T = true.
  Hypothesis Hg : forall p v a tl, (v = true -> p = true) -> g p v a tl = grant_spec p v a tl.
  (* the /device functions exist under these flags (they are behind no flag) *)
  Hypothesis Hput : exists h f rq, dispatch T fl (route_template RDevice) PUT = DServe h f rq.
  Hypothesis Hpatch : exists h f rq, dispatch T fl (route_template RDevice) PATCH = DServe h f rq.

  Lemma cred_level_ok : forall st c, cred_level g st c = cred_level grant_spec st c.
  Proof. intros st c. destruct c; unfold cred_level; apply Hg; intros H; try reflexivity; discriminate H. Qed.

  (* a credential operation takes effect in the model exactly when the specification serves it *)
  Lemma step_model_spec : forall st o c, step_model st o c = step_spec st o c.
  Proof.
    intros st o c. unfold step_model, step_spec. destruct (is_restart o) eqn:Hr; [reflexivity|]. rewrite cred_level_ok.
    generalize (cred_level_nonneg st c). generalize (cred_level grant_spec st c). intros l Hl.
    assert (Hd : exists h f rq, dispatch T fl (route_template RDevice) (op_meth o) = DServe h f rq)
      by (destruct o; try assumption; discriminate Hr).
    destruct Hd as (h & f & rq & Hd).
    assert (Hwf : well_formed T (op_meth o) true = true) by reflexivity.
    destruct (enforced T Hserve Hdeny Hok fl RDevice (op_meth o) l true h f rq Hd Hl Hwf) as [Hiff _].
    destruct (Z.leb_spec (required_spec RDevice (op_meth o)) l) as [Hle|Hlt].
    - apply Hiff in Hle. rewrite Hle. reflexivity.
    - destruct (handle T fl (route_template RDevice) (op_meth o) l true) eqn:Hh; try reflexivity.
      apply (no_run_below_level T Hserve Hok) in Hh; [lia | exact Hl].
  Qed.

  Theorem run_model_spec : forall h st, run step_model st h = run step_spec st h.
  Proof. induction h as [|[o c] r IH]; intros st; simpl; [reflexivity|]. rewrite step_model_spec. apply IH. Qed.

  Theorem no_credential_change_below_admin : forall st o c,
    cred_level grant_spec st c < LV_ADMIN -> fst (step_model st o c) = st.
  Proof.
    intros st o c Hlt. rewrite step_model_spec. unfold step_spec. destruct (is_restart o); [reflexivity|].
    assert (Hr : required_spec RDevice (op_meth o) = LV_ADMIN) by (destruct o; reflexivity).
    rewrite Hr. destruct (Z.leb_spec LV_ADMIN (cred_level grant_spec st c)); [lia | reflexivity].
  Qed.

  (* a restart changes no credential *)
  Theorem restart_keeps_state : forall st c, fst (step_model st OpRestart c) = st.
  Proof. reflexivity. Qed.
End Hist.
