(* C09 — specification: the minimum access level of every API function, written by hand from the property statement
   (properties.jsonl C09) and the qToggle API specification, independently of the code's tables and control flow.

   A request is described by a *route* (path class of the API: one constructor per URL shape), an HTTP method and the
   caller's level (0 none / 10 view-only / 20 normal / 30 admin).  [required_spec r m] is the least level at which
   method m on route r may be served.  It is total; see "choices" for the pairs the property text does not determine.

   From the statement:
     admin      device, port management (PUT/POST /ports, PATCH/DELETE /ports/id), slaves (devices, forward),
                discovered, peripherals, webhooks, reverse, firmware, reset, history deletion, system, backup,
                frontend configuration, dashboard panels write, introspect
     normal     value and sequence writes
     view-only  reading ports, values, history, panels, prefs; listening; writing one's own prefs
     none       GET /access; the slave event push POST /devices/name/events, which authenticates inside the function
                with a token signed by the slave's own admin password (the handler does no consumer authentication)

   Choices where the text does not determine a level (documented in notes/C09.md):
     * GET /device, GET /webhooks, GET /reverse, GET /firmware, GET /system, GET /devices, GET /peripherals,
       GET /backup/endpoints, GET /frontend are admin: the statement lists these areas as admin without separating
       reads from writes, and the API specification makes them admin (they expose configuration and credentials).
     * PUT /frontend/prefs is view-only: preferences are per user ("own prefs"); every authenticated user writes
       only the entry stored under its own user name.
     * (route, method) pairs that are not API functions today (e.g. DELETE /device, HEAD anything) have no level in
       the statement.  The code answers 404 for them and the oracle accepts 404 at any level.  So that the oracle
       stays meaningful if such a pair starts being served, [required_spec] extends each route by method kind:
       a read method (GET, HEAD) takes the route's read level, any other method the route's write level; routes
       with no read (or no write) function take admin for the missing kind, except /access and /events where only the
       listed method is open.
     * a route that appears in the routing table but not in this file is outside the specification: the finite check
       [table_ok] fails (the specification must be extended by hand), and the oracle reports it if it is served. *)
From QT Require Export Base.Prelude.
Open Scope string_scope.
Open Scope Z_scope.

Inductive meth := GET | POST | PUT | PATCH | DELETE | HEAD | OPTIONS.

Definition all_meths : list meth := [GET; POST; PUT; PATCH; DELETE; HEAD; OPTIONS].

Definition meth_eqb (a b : meth) : bool :=
  match a, b with
  | GET, GET | POST, POST | PUT, PUT | PATCH, PATCH | DELETE, DELETE | HEAD, HEAD | OPTIONS, OPTIONS => true
  | _, _ => false
  end.

Definition is_read (m : meth) : bool := match m with GET | HEAD => true | _ => false end.
(* methods whose request carries a JSON body *)
Definition has_body (m : meth) : bool := match m with POST | PUT | PATCH => true | _ => false end.

Definition LV_NONE := 0.
Definition LV_VIEWONLY := 10.
Definition LV_NORMAL := 20.
Definition LV_ADMIN := 30.

Inductive route :=
  | RDevice | RReset | RAccess
  | RPorts | RPort | RPortValue | RPortSequence | RPortHistory
  | RPeripherals | RPeripheral
  | RBackupEndpoints | RFirmware
  | RSlaveDevices | RSlaveDevice | RSlaveDeviceEvents | RSlaveDeviceForward
  | RDiscovered | RDiscoveredDevice
  | RWebhooks | RListen | RReverse | RSystem | RIntrospect
  | RFrontendPanels | RFrontendPrefs | RFrontendConfig.

Definition all_routes : list route :=
  [RDevice; RReset; RAccess; RPorts; RPort; RPortValue; RPortSequence; RPortHistory; RPeripherals; RPeripheral;
   RBackupEndpoints; RFirmware; RSlaveDevices; RSlaveDevice; RSlaveDeviceEvents; RSlaveDeviceForward;
   RDiscovered; RDiscoveredDevice; RWebhooks; RListen; RReverse; RSystem; RIntrospect;
   RFrontendPanels; RFrontendPrefs; RFrontendConfig].

(* the URL shape of each route: "{}" is one path segment (an identifier), "{+}" the non-empty rest of the path;
   a trailing slash is optional and not part of the shape *)
Definition route_template (r : route) : string :=
  match r with
  | RDevice => "/api/device"
  | RReset => "/api/reset"
  | RAccess => "/api/access"
  | RPorts => "/api/ports"
  | RPort => "/api/ports/{}"
  | RPortValue => "/api/ports/{}/value"
  | RPortSequence => "/api/ports/{}/sequence"
  | RPortHistory => "/api/ports/{}/history"
  | RPeripherals => "/api/peripherals"
  | RPeripheral => "/api/peripherals/{}"
  | RBackupEndpoints => "/api/backup/endpoints"
  | RFirmware => "/api/firmware"
  | RSlaveDevices => "/api/devices"
  | RSlaveDevice => "/api/devices/{}"
  | RSlaveDeviceEvents => "/api/devices/{}/events"
  | RSlaveDeviceForward => "/api/devices/{}/forward/{+}"
  | RDiscovered => "/api/discovered"
  | RDiscoveredDevice => "/api/discovered/{}"
  | RWebhooks => "/api/webhooks"
  | RListen => "/api/listen"
  | RReverse => "/api/reverse"
  | RSystem => "/api/system"
  | RIntrospect => "/api/introspect"
  | RFrontendPanels => "/api/frontend/dashboard/panels"
  | RFrontendPrefs => "/api/frontend/prefs"
  | RFrontendConfig => "/api/frontend"
  end.

Definition route_of_template (t : string) : option route :=
  find (fun r => String.eqb (route_template r) t) all_routes.

(* read level / write level of a route *)
Definition rw (m : meth) (rd wr : Z) : Z := if is_read m then rd else wr.

Definition required_spec (r : route) (m : meth) : Z :=
  match r with
  | RAccess => match m with GET | HEAD => LV_NONE | _ => LV_ADMIN end
  | RSlaveDeviceEvents => match m with POST => LV_NONE | _ => LV_ADMIN end
  | RPorts => rw m LV_VIEWONLY LV_ADMIN
  | RPortValue => rw m LV_VIEWONLY LV_NORMAL
  | RPortSequence => rw m LV_NORMAL LV_NORMAL
  | RPortHistory => rw m LV_VIEWONLY LV_ADMIN
  | RListen => rw m LV_VIEWONLY LV_ADMIN
  | RFrontendPanels => rw m LV_VIEWONLY LV_ADMIN
  | RFrontendPrefs => rw m LV_VIEWONLY LV_VIEWONLY
  | RDevice | RReset | RPort | RPeripherals | RPeripheral | RBackupEndpoints | RFirmware
  | RSlaveDevices | RSlaveDevice | RSlaveDeviceForward | RDiscovered | RDiscoveredDevice
  | RWebhooks | RReverse | RSystem | RIntrospect | RFrontendConfig => LV_ADMIN
  end.

(* status a refused caller must get: 401 when unauthenticated (level none), 403 when authenticated *)
Definition refusal_status (l : Z) : Z := if l =? LV_NONE then 401 else 403.

(* ---- the oracle the harness evaluates against what the real application answered ------------------------------- *)

(* what was observed for one request: an API function body ran (name), or only a status came back *)
Inductive obs := ORan (f : string) | OStatus (s : Z).

(* class of the requested path, decided by the harness from the *running* routing table:
   0 = matches an API URLSpec whose shape is [tmpl]; 1 = matches no specific URLSpec (unknown route);
   2 = a non-API (frontend file) route, outside the property *)
Definition spec_ok (cls : Z) (tmpl : string) (m : meth) (l : Z) (json : bool) (o : obs) : bool :=
  match cls with
  | 1 => match o with OStatus 404 => true | _ => false end
  | 2 => match o with ORan _ => false | OStatus _ => true end
  | _ =>
      match route_of_template tmpl with
      | None => match o with ORan _ => false | OStatus _ => true end  (* a route the specification does not know *)
      | Some r =>
          let rq := required_spec r m in
          match o with
          | ORan _ => rq <=? l
          | OStatus s =>
              if l <? rq
              then (s =? refusal_status l) || (s =? 404) || ((s =? 400) && has_body m && negb json)
              else negb ((s =? 401) || (s =? 403))
          end
      end
  end.

(* ---- POST /devices/{name}/events: the function's OWN authentication ------------------------------------------------
   The wrapper level of this function is none (above); the property is kept by the function itself: it serves only a
   caller that proves knowledge of the slave's admin password, i.e. presents a device-origin token whose HS256 signature
   verifies under the SHA-256 of that password.  Everything else is answered 401 and leaves the slave untouched; an
   unknown slave name is 404 (decided first).  Hand-written from the property statement ("the slave-event push
   authenticates by its own token") and the comment in slaves/api/funcs/devices.py; the 400 for a slave that is polled
   or listened to is the function's documented behaviour ("events are only for permanently offline slaves").

   A presented credential is described by facts the harness knows by construction of the header: *)
Record cred := {
  c_present : bool;     (* an Authorization header is present *)
  c_jwt : bool;         (* it is "Bearer <decodable JWT>" *)
  c_iss : bool;         (* iss = "qToggle" *)
  c_device : bool;      (* ori = "device" (consumer tokens, whatever their level or key, are not device tokens) *)
  c_fresh : bool;       (* iat absent or within the allowed clock skew *)
  c_slave_key : bool    (* HS256 signature made with the slave's admin password hash *)
}.

Record slave_st := {
  s_exists : bool;      (* a slave of that name is registered *)
  s_has_hash : bool;    (* it has an admin password hash (without one nothing can verify) *)
  s_poll : bool;        (* polling enabled *)
  s_listen : bool       (* listening enabled *)
}.

Definition token_verifies (s : slave_st) (c : cred) : bool :=
  c_present c && c_jwt c && c_iss c && c_device c && c_fresh c && s_has_hash s && c_slave_key c.

Inductive ev_out := EvServed | EvStatus (st : Z).

Definition events_spec (s : slave_st) (c : cred) : ev_out :=
  if negb (s_exists s) then EvStatus 404
  else if negb (token_verifies s c) then EvStatus 401
  else if s_poll s || s_listen s then EvStatus 400
  else EvServed.

(* oracle: o = ORan when the event reached the slave object (handle_event), OStatus otherwise *)
Definition events_spec_ok (s : slave_st) (c : cred) (o : obs) : bool :=
  match events_spec s c, o with
  | EvServed, ORan _ => true
  | EvStatus a, OStatus b => a =? b
  | _, _ => false
  end.

(* ---- the level a request is granted (APIHandler.prepare) ---------------------------------------------------------------
   Hand-written from the API specification: a request that carries an Authorization header is judged by that header
   alone — a token that verifies (consumer origin, signed with the CURRENT password hash of its user) gives that user's
   level, anything else gives none; only a request WITHOUT a header is admin when the admin password is empty (the
   factory state).  How a header is verified is property C10; here only the order of the two decisions matters. *)
Definition grant_spec (present valid admin_empty : bool) (token_level : Z) : Z :=
  if present then (if valid then token_level else LV_NONE)
  else (if admin_empty then LV_ADMIN else LV_NONE).

(* ---- credentials as state: short histories of admin requests that touch the passwords --------------------------------
   Passwords are abstract: 0 is the empty password, n > 0 is "password number n".  The state is the three current
   passwords.  A token is (user, password it was signed with): it verifies iff that is the user's current password.
   Operations (all on /device, admin): set a user's password (PATCH), restore the device document (PUT — "password
   fields are ignored", the passwords stay), change another attribute (PATCH).  An operation takes effect iff the
   specification serves it.  OpRestart is not a request: the hub process stops and starts again from its store — "a
   restart changes no credential".  Factory reset (POST /reset factory) legitimately empties the passwords; not used. *)
Inductive user := UAdmin | UNormal | UViewonly.
Definition user_level (u : user) : Z := match u with UAdmin => LV_ADMIN | UNormal => LV_NORMAL | UViewonly => LV_VIEWONLY end.

Record pwstate := { pw_admin : Z; pw_normal : Z; pw_viewonly : Z }.
Definition pw_init : pwstate := {| pw_admin := 0; pw_normal := 0; pw_viewonly := 0 |}.
Definition pw_of (st : pwstate) (u : user) : Z :=
  match u with UAdmin => pw_admin st | UNormal => pw_normal st | UViewonly => pw_viewonly st end.
Definition pw_set (st : pwstate) (u : user) (p : Z) : pwstate :=
  match u with
  | UAdmin => {| pw_admin := p; pw_normal := pw_normal st; pw_viewonly := pw_viewonly st |}
  | UNormal => {| pw_admin := pw_admin st; pw_normal := p; pw_viewonly := pw_viewonly st |}
  | UViewonly => {| pw_admin := pw_admin st; pw_normal := pw_normal st; pw_viewonly := p |}
  end.

Inductive credential := CrNone | CrToken (u : user) (p : Z) | CrGarbage.
Inductive op := OpSetPw (u : user) (p : Z) | OpPutDevice | OpPatchOther | OpRestart.
Definition op_meth (o : op) : meth := match o with OpPutDevice => PUT | _ => PATCH end.
Definition apply_op (o : op) (st : pwstate) : pwstate := match o with OpSetPw u p => pw_set st u p | _ => st end.

(* the facts of a credential in a state, then the level by any grant function g *)
Definition cred_level (g : bool -> bool -> bool -> Z -> Z) (st : pwstate) (c : credential) : Z :=
  let ae := pw_admin st =? 0 in
  match c with
  | CrNone => g false false ae LV_NONE
  | CrToken u p => g true (pw_of st u =? p) ae (user_level u)
  | CrGarbage => g true false ae LV_NONE
  end.

Definition is_restart (o : op) : bool := match o with OpRestart => true | _ => false end.

Definition step_spec (st : pwstate) (o : op) (c : credential) : pwstate * bool :=
  if is_restart o then (st, true)
  else if required_spec RDevice (op_meth o) <=? cred_level grant_spec st c then (apply_op o st, true) else (st, false).

(* a history: operations with the credential used and what was observed; then probes (URL shape, method, credential,
   observed) on the final state.  true = the real application did what the specification prescribes throughout *)
Definition hstep := (op * credential * obs)%type.
Definition hprobe := (string * meth * credential * obs)%type.

Fixpoint hist_spec_ok (st : pwstate) (steps : list hstep) (probes : list hprobe) : bool :=
  match steps with
  | (o, c, ob) :: r =>
      (is_restart o || spec_ok 0 (route_template RDevice) (op_meth o) (cred_level grant_spec st c) true ob)
      && hist_spec_ok (fst (step_spec st o c)) r probes
  | [] => forallb (fun p : hprobe => let '(t, m, c, ob) := p in spec_ok 0 t m (cred_level grant_spec st c) true ob) probes
  end.

(* ---- which optional feature each route belongs to --------------------------------------------------------------------
   Hand-written from the API specification / the device "flags" attribute: a route exists exactly when ALL the listed
   conditions hold; otherwise it is an unknown route (404 for every method and caller).  Conditions are atomic facts
   about the configuration and the environment, named by their source text:
     settings.a.b                          the setting is truthy
     persist.is_samples_supported()        the persistence driver can store samples
     is_discover_enabled()                 an AP interface for slave discovery is available
     system.conf.can_write_conf_file()     the configuration file exists and is writable
   History needs BOTH the setting and a samples-capable driver (the device lists the "history" flag only then). *)
Definition route_condition_spec (r : route) : list string :=
  match r with
  | RFrontendPanels | RFrontendPrefs | RFrontendConfig => ["settings.frontend.enabled"]
  | RPortSequence => ["settings.core.sequences_support"]
  | RPortHistory => ["settings.core.history_support"; "persist.is_samples_supported()"]
  | RBackupEndpoints => ["settings.core.backup_support"]
  | RFirmware => ["settings.system.fwupdate.driver"]
  | RSlaveDevices | RSlaveDevice | RSlaveDeviceEvents | RSlaveDeviceForward => ["settings.slaves.enabled"]
  | RDiscovered | RDiscoveredDevice => ["settings.slaves.enabled"; "is_discover_enabled()"]
  | RWebhooks => ["settings.webhooks.enabled"]
  | RListen => ["settings.core.listen_support"]
  | RReverse => ["settings.reverse.enabled"]
  | RSystem => ["system.conf.can_write_conf_file()"]
  | RIntrospect => ["settings.debug"]
  | RDevice | RReset | RAccess | RPorts | RPort | RPortValue | RPeripherals | RPeripheral => []
  end.

(* adding and removing ports needs virtual ports support *)
Definition method_condition_spec (r : route) (m : meth) : list string :=
  match r, m with
  | RPorts, POST | RPort, DELETE => ["settings.core.virtual_ports"]
  | _, _ => []
  end.

Definition str_in (s : string) (l : list string) : bool := existsb (String.eqb s) l.

(* on = the atomic facts that hold *)
Definition route_enabled_spec (on : list string) (r : route) (m : meth) : bool :=
  forallb (fun c => str_in c on) (route_condition_spec r) && forallb (fun c => str_in c on) (method_condition_spec r m).

(* the oracle with the configuration: a request for a route whose feature is off must be answered 404 *)
Definition spec_ok_on (on : list string) (cls : Z) (tmpl : string) (m : meth) (l : Z) (json : bool) (o : obs) : bool :=
  match cls, route_of_template tmpl with
  | 0, Some r => if route_enabled_spec on r m then spec_ok cls tmpl m l json o
                 else match o with OStatus 404 => true | _ => false end
  | _, _ => spec_ok cls tmpl m l json o
  end.

(* ---- GET /listen: what a listener is SERVED is a list of events; "never served above its level" is about its content ----
   Hand-written from the API specification: the minimum level of each event type.  A listener of level l receives,
   of the events triggered while it listens, exactly those whose level is <= l (whatever ?timeout= it asked for).
   An event type this table does not know is treated as admin-only by the oracle. *)
Definition event_level_spec (t : string) : option Z :=
  if String.eqb t "value-change" then Some LV_VIEWONLY
  else if String.eqb t "port-update" then Some LV_VIEWONLY
  else if String.eqb t "port-add" then Some LV_VIEWONLY
  else if String.eqb t "port-remove" then Some LV_VIEWONLY
  else if String.eqb t "full-update" then Some LV_VIEWONLY
  else if String.eqb t "device-update" then Some LV_ADMIN
  else if String.eqb t "slave-device-update" then Some LV_ADMIN
  else if String.eqb t "slave-device-add" then Some LV_ADMIN
  else if String.eqb t "slave-device-remove" then Some LV_ADMIN
  else if String.eqb t "dashboard-update" then Some LV_ADMIN
  else None.

Definition event_permitted_spec (l : Z) (t : string) : bool :=
  match event_level_spec t with Some r => r <=? l | None => LV_ADMIN <=? l end.

Definition same_set (a b : list string) : bool :=
  forallb (fun x => str_in x b) a && forallb (fun x => str_in x a) b.

(* l = the listener's level, triggered = the event types triggered while it listened, delivered = the types in its answer *)
Definition listen_spec_ok (l : Z) (triggered delivered : list string) : bool :=
  same_set delivered (filter (event_permitted_spec l) triggered).
