(* C09 — the specification oracle on generated case files; depends on Spec.v only (not on the generated tables), so it
   still runs when the translators or the model fail.
   A case = (class, URL shape, method, caller level, JSON content type sent?, what the real application did). *)
From QT Require Export C09.Spec.
Open Scope string_scope.
Open Scope Z_scope.

Definition case := (Z * string * meth * Z * bool * obs)%type.

(* groups of cases, each under its own set of flags that are on; indices are global over the concatenation *)
Definition bad_spec (gs : list (list string * list case)) : list nat :=
  mismatches (fun oc : list string * case =>
                let '(on, (cls, tmpl, m, l, json, o)) := oc in spec_ok_on on cls tmpl m l json o)
             (flat_map (fun g : list string * list case => map (fun c => (fst g, c)) (snd g)) gs) 0.

(* the level the specification requires in each contradicting case (-1: the route is not in the specification or the
   path is unknown; -2: the route's feature is off in this configuration) — printed into the replay file *)
Definition bad_spec_required (gs : list (list string * list case)) : list Z :=
  let cs := flat_map (fun g : list string * list case => map (fun c => (fst g, c)) (snd g)) gs in
  map (fun i => match nth_error cs i with
                | Some (on, (cls, tmpl, m, _, _, _)) =>
                    match cls, route_of_template tmpl with
                    | 0, Some r => if route_enabled_spec on r m then required_spec r m else -2
                    | _, _ => -1
                    end
                | None => -1
                end) (bad_spec gs).

(* cases of the slave events endpoint: (slave facts, credential facts, observed) *)
Definition evcase := (slave_st * cred * obs)%type.
Definition mk_slave (e h p l : bool) : slave_st := {| s_exists := e; s_has_hash := h; s_poll := p; s_listen := l |}.
Definition mk_cred (a b c d e f : bool) : cred :=
  {| c_present := a; c_jwt := b; c_iss := c; c_device := d; c_fresh := e; c_slave_key := f |}.
Definition bad_events_spec (cs : list evcase) : list nat :=
  mismatches (fun x : evcase => let '(s, c, o) := x in events_spec_ok s c o) cs 0.

(* requests under a password configuration (stubbed bodies): (URL shape, method, present, valid, admin_empty, level of
   the token's user, observed) *)
Definition acase := (string * meth * bool * bool * bool * Z * obs)%type.
Definition bad_auth_spec (cs : list acase) : list nat :=
  mismatches (fun x : acase => let '(t, m, p, v, a, tl, o) := x in spec_ok 0 t m (grant_spec p v a tl) true o) cs 0.

(* histories on the un-stubbed /device functions, from the factory state (all passwords empty) *)
Definition hcase := (list hstep * list hprobe)%type.
Definition bad_hist_spec (hs : list hcase) : list nat :=
  mismatches (fun h : hcase => hist_spec_ok pw_init (fst h) (snd h)) hs 0.

(* listeners on GET /listen: (listener level, ?timeout= (0 = default), triggered event types, delivered event types) *)
Definition lcase := (Z * Z * list string * list string)%type.
Definition bad_listen_spec (cs : list lcase) : list nat :=
  mismatches (fun x : lcase => let '(l, _, tr, dl) := x in listen_spec_ok l tr dl) cs 0.
