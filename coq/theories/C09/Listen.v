(* C09 — the content served by GET /listen.  Model: the session listens at [listen_session_level level timeout] — which
   of get_listen's two values reaches the access_level parameter of Session.reset_and_wait, regenerated from the call in
   core/api/funcs/various.py and the signature in core/sessions.py — and is handed the events whose REQUIRED_ACCESS
   (regenerated: gen_event_levels, read by C11's translator) is at most that.  The queueing itself is C11's model. *)
From QT Require Import C09.Model Gen.C09Gen.
From Coq Require Import ZifyBool.
Open Scope string_scope.
Open Scope Z_scope.

Definition event_required (t : string) : option Z := assoc t gen_event_levels.

Definition listen_model (level timeout : Z) (triggered : list string) : list string :=
  filter (fun t => match event_required t with Some r => r <=? listen_session_level level timeout | None => false end)
         triggered.

(* the session listens at the caller's level, not at anything else *)
Lemma listen_level_ok : forall level timeout, listen_session_level level timeout = level.
Proof. intros. reflexivity. Qed.

(* every event class carries the level the specification gives to its type (complete finite check) *)
Lemma gen_event_levels_ok :
  forallb (fun p : string * Z => match event_level_spec (fst p) with Some r => snd p =? r | None => false end)
          gen_event_levels = true.
Proof. vm_compute. reflexivity. Qed.

Lemma assoc_in : forall k l v, assoc k l = Some v -> In (k, v) l.
Proof.
  induction l as [|[k' v'] r IH]; intros v H; simpl in *; [discriminate|].
  destruct (String.eqb k k') eqn:E; [apply String.eqb_eq in E; inversion H; subst; auto | auto].
Qed.

(* whatever was triggered and whatever timeout was asked: a delivered event is one the listener's level permits *)
Theorem listen_only_permitted : forall level timeout triggered t,
  In t (listen_model level timeout triggered) -> exists r, event_level_spec t = Some r /\ r <= level.
Proof.
  intros level timeout triggered t H. unfold listen_model in H. apply filter_In in H. destruct H as [_ H].
  rewrite listen_level_ok in H. unfold event_required in H.
  destruct (assoc t gen_event_levels) as [r|] eqn:Ha; [|discriminate].
  apply assoc_in in Ha. pose proof gen_event_levels_ok as Hok. rewrite forallb_forall in Hok.
  specialize (Hok _ Ha). simpl in Hok. destruct (event_level_spec t) as [r'|]; [|discriminate].
  apply Z.eqb_eq in Hok. subst. exists r'. split; [reflexivity | lia].
Qed.
