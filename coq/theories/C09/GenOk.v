(* C09 — the obligations about the REGENERATED tables (Gen/C09Gen.v); re-proved on every run.
     wrapper_sound / wrapper_refuses : for all integers, whatever expression the translator read from api_call.wrapper
     gen_table_ok                    : complete finite check of every routing entry x handler method against Spec.v *)
From QT Require Import C09.Model C09.ModelThm Gen.C09Gen.
From Coq Require Import ZifyBool.
Open Scope Z_scope.

Ltac split_tests :=
  repeat match goal with
  | |- context [Z.ltb ?a ?b] => destruct (Z.ltb_spec a b)
  | |- context [Z.leb ?a ?b] => destruct (Z.leb_spec a b)
  | |- context [Z.eqb ?a ?b] => destruct (Z.eqb_spec a b)
  | |- context [Z.gtb ?a ?b] => rewrite (Z.gtb_ltb a b)
  | |- context [Z.geb ?a ?b] => rewrite (Z.geb_leb a b)
  end; cbn [negb andb orb].

Lemma wrapper_sound : forall l r, wrapper l r = Serve <-> r <= l.
Proof.
  intros l r. unfold wrapper. split_tests; split; intros Hx; try discriminate Hx; try reflexivity; try lia.
Qed.

Lemma wrapper_refuses : forall l r, l < r -> wrapper l r = Deny (refusal_status l).
Proof.
  intros l r Hlt. unfold wrapper, refusal_status, LV_NONE. split_tests; try reflexivity; try lia.
Qed.

Lemma gen_table_ok : table_ok gen_tables = true.
Proof. vm_compute. reflexivity. Qed.

(* spelled out: every (routing entry, method) pair of the generated tables carries the specified level *)
Lemma gen_table_matches_spec :
  forall e hm r,
    In e gen_routes -> In hm gen_hmeths -> e_kind e = KApi -> hm_handler hm = e_handler e ->
    route_of_template (e_tmpl e) = Some r ->
    level_of gen_tables (hm_func hm) = Some (required_spec r (hm_meth hm)).
Proof.
  intros e hm r He Hm Hk Hh Hr.
  pose proof gen_table_ok as H. unfold table_ok in H. apply andb_true_iff in H. destruct H as [H _].
  rewrite forallb_forall in H. specialize (H e He). unfold entry_ok in H. rewrite Hk, Hr in H.
  rewrite forallb_forall in H. specialize (H hm Hm). unfold hmeth_ok in H.
  assert (E : String.eqb (hm_handler hm) (e_handler e) = true) by (apply String.eqb_eq; exact Hh).
  rewrite E in H. destruct (level_of gen_tables (hm_func hm)) as [lv|]; [|discriminate H].
  apply andb_true_iff in H. destruct H as [H _]. apply Z.eqb_eq in H. congruence.
Qed.

(* the regenerated decision of prepare() is the specified one; "valid" (the header verifies) implies a header *)
Lemma grant_ok : forall present valid admin_empty tl,
  (valid = true -> present = true) -> grant present valid admin_empty tl = grant_spec present valid admin_empty tl.
Proof.
  intros p v a tl H. destruct p, v, a; try reflexivity; exfalso; specialize (H eq_refl); discriminate H.
Qed.

(* every routing entry is guarded by exactly the specified conditions of its route (history: setting AND driver) *)
Lemma gen_cond_ok : cond_ok gen_tables = true.
Proof. vm_compute. reflexivity. Qed.
