(* C19 — timed, executable model of core/sequences.py (Sequence._loop, start, cancel), of the port side
   (core/ports.py: set_sequence, _on_sequence_finish, the cancellations in attr_set_expression and disable) and of the
   request checks of core/api/funcs/ports.py:patch_port_sequence.  Definitions only.

   Time is virtual milliseconds (Z).  The unit of execution is one *step of the sequence task* (what asyncio runs between
   two suspension points); an API command is one step of another task, placed somewhere in that order.

   [guard] = how Sequence.cancel() treats the CancelledError of the awaited task:
     guard = false  the code at /repo HEAD: `self._loop_task.cancel(); await self._loop_task`.  If the task has not taken
                    its first step yet (just created by start() or by the re-arm after the last delay) asyncio cancels it
                    without ever entering the coroutine, so the `except CancelledError` inside _loop does not run and the
                    `await` re-raises CancelledError in the caller: set_sequence / disable / attr_set_expression are
                    aborted before `self._sequence = None`, and every later cancel() awaits the same cancelled task again.
     guard = true   fixes/C19-cancel-unstarted-task.diff: the wait does not re-raise.  The property theorems are about this. *)
From QT Require Import Base.Prelude.
Open Scope Z_scope.

Record seqdef := SeqDef { sd_vals : list Z; sd_delays : list Z; sd_repeat : Z }.

(* Sequence._loop_task *)
Inductive task :=
| TFresh (t : Z)                (* created at t by start() or by the re-arm; its first step is pending (call_soon) *)
| TSleep (i : nat) (wake : Z)   (* suspended in `await asyncio.sleep(delays[i]/1000)` after the call-back for values[i] *)
| TDead.                        (* refers to a task cancelled before its first step (only reachable with guard = false) *)

(* port._sequence (when not None): generation tag (0 = first request, 1 = the command's), definition, _counter, task *)
Record seqst := SeqSt { s_gen : Z; s_def : seqdef; s_counter : Z; s_task : task }.

(* what a step of the sequence task does to the outside *)
Inductive ev :=
| Sub (t v : Z)      (* self._callback(value): transform_and_write_value(value) submitted at t *)
| Fin (t : Z).       (* await self._finish_callback(): port._sequence = None *)

Definition nvals (sd : seqdef) : nat := List.length (sd_vals sd).
(* asyncio.sleep(d/1000.0) with d <= 0 yields once and resumes at the same instant *)
Definition dpos (d : Z) : Z := Z.max 0 d.
Definition dly (sd : seqdef) (i : nat) : Z := dpos (nth i (sd_delays sd) 0).

(* the body of the for loop for index i, entered at time now with _counter = c *)
Definition fire (g : Z) (sd : seqdef) (c : Z) (i : nat) (now : Z) : list ev * option seqst :=
  let v := nth i (sd_vals sd) 0 in
  if (S i <? nvals sd)%nat then                                   (* i < len(values) - 1 *)
    ([Sub now v], Some (SeqSt g sd c (TSleep i (now + dly sd i))))
  else if (0 <? sd_repeat sd) && (sd_repeat sd - 1 <=? c) then    (* repeat > 0 and counter >= repeat - 1 *)
    ([Sub now v; Fin now], None)
  else
    ([Sub now v], Some (SeqSt g sd (c + 1) (TSleep i (now + dly sd i)))).

(* instant at which the task's next step is due *)
Definition due (s : seqst) : option Z :=
  match s_task s with TFresh t => Some t | TSleep _ w => Some w | TDead => None end.

(* one step of the sequence task, taken at its due instant *)
Definition task_step (s : seqst) : list ev * option seqst :=
  match s_task s with
  | TFresh t => fire (s_gen s) (s_def s) (s_counter s) 0 t
  | TSleep i w =>
      if (S i <? nvals (s_def s))%nat then fire (s_gen s) (s_def s) (s_counter s) (S i) w
      else ([], Some (SeqSt (s_gen s) (s_def s) (s_counter s) (TFresh w)))   (* self._loop_task = create_task(self._loop()) *)
  | TDead => ([], Some s)
  end.

(* n steps of the task, uninterrupted *)
Fixpoint run_task (n : nat) (s : option seqst) : list ev * option seqst :=
  match n, s with
  | S n', Some st => let '(e, s') := task_step st in let '(e', s'') := run_task n' s' in (e ++ e', s'')
  | _, _ => ([], s)
  end.

Definition is_sub (e : ev) : bool := match e with Sub _ _ => true | Fin _ => false end.
Definition subs (l : list ev) : list (Z * Z) :=
  flat_map (fun e => match e with Sub t v => [(t, v)] | Fin _ => [] end) l.
Definition fins (l : list ev) : list Z :=
  flat_map (fun e => match e with Sub _ _ => [] | Fin t => [t] end) l.

(* ------------------------------------------------------------------------------------------------------------ *)
(* the port *)

Record port := Port { p_enabled : bool; p_writable : bool; p_expr : bool; p_seq : option seqst }.

Definition set_seq (p : port) (s : option seqst) : port := Port (p_enabled p) (p_writable p) (p_expr p) s.

(* Sequence.cancel() as seen by the port: (new value of port._sequence' task, CancelledError raised in the caller?) *)
Definition cancel (guard : bool) (s : seqst) : option seqst * bool :=
  match s_task s with
  | TSleep _ _ => (None, false)    (* CancelledError is delivered at the sleep (also when its timer has already fired but
                                      the task has not resumed yet), caught in _loop; the caller goes on *)
  | TFresh _ | TDead =>
      if guard then (None, false)
      else (Some (SeqSt (s_gen s) (s_def s) (s_counter s) TDead), true)
  end.

Inductive outcome := OOk | ODisabled | OReadOnly | OHasExpr | OBadDelays | OCancelled.

Definition outcome_code (o : outcome) : Z :=
  match o with OOk => 0 | ODisabled => 1 | OReadOnly => 2 | OHasExpr => 3 | OBadDelays => 4 | OCancelled => 5 end.

(* `if self._sequence: await self._sequence.cancel(); self._sequence = None` then k *)
Definition cancel_then (guard : bool) (p : port) (k : port -> outcome * port) : outcome * port :=
  match p_seq p with
  | None => k p
  | Some s =>
      match cancel guard s with
      | (s', true) => (OCancelled, set_seq p s')
      | (_, false) => k (set_seq p None)
      end
  end.

(* port.set_sequence(values, delays, repeat) at time now *)
Definition set_sequence (guard : bool) (g : Z) (p : port) (sd : seqdef) (now : Z) : outcome * port :=
  cancel_then guard p (fun p' =>
    match sd_vals sd with
    | [] => (OOk, p')
    | _ => (OOk, set_seq p' (Some (SeqSt g sd 0 (TFresh now))))
    end).

(* patch_port_sequence for a request that passed the JSON schema and whose values are in the port's domain (C05) *)
Definition patch (guard : bool) (g : Z) (p : port) (sd : seqdef) (now : Z) : outcome * port :=
  if negb (List.length (sd_vals sd) =? List.length (sd_delays sd))%nat then (OBadDelays, p)
  else if negb (p_enabled p) then (ODisabled, p)
  else if negb (p_writable p) then (OReadOnly, p)
  else if p_expr p then (OHasExpr, p)
  else set_sequence guard g p sd now.

Inductive cmd :=
| CNone
| CSeq (sd : seqdef)     (* PATCH /ports/{id}/sequence *)
| CExpr                  (* set_attr('expression', <non-empty expression>) *)
| CNoExpr                (* set_attr('expression', '') *)
| CDisable.              (* port.disable() *)

Definition exec_g (guard : bool) (g : Z) (c : cmd) (p : port) (now : Z) : outcome * port :=
  match c with
  | CNone => (OOk, p)
  | CSeq sd => patch guard g p sd now
  | CExpr =>
      if negb (p_writable p) then (OOk, p)       (* set_attr: get_attr('expression') is None: silently ignored *)
      else cancel_then guard p (fun p' => (OOk, Port (p_enabled p') (p_writable p') true (p_seq p')))
  | CNoExpr =>
      if negb (p_writable p) then (OOk, p)
      else cancel_then guard p (fun p' => (OOk, Port (p_enabled p') (p_writable p') false (p_seq p')))
  | CDisable =>
      if negb (p_enabled p) then (OOk, p)
      else cancel_then guard p (fun p' => (OOk, Port false (p_writable p') (p_expr p') (p_seq p')))
  end.

Definition exec (guard : bool) (c : cmd) (p : port) (now : Z) : outcome * port := exec_g guard 1 c p now.

(* ------------------------------------------------------------------------------------------------------------ *)
(* scenarios: first request at time 0, one command at time [at] after [pos] task steps due at that instant,
   observation until [horizon] *)

Inductive mev :=
| MP (o : outcome) (active : bool)            (* first request returned *)
| MSub (g : Z) (t v : Z)
| MFin (g : Z) (t : Z)
| MC (t : Z) (active : bool)                  (* command starts *)
| MD (t : Z) (o : outcome) (active : bool)    (* command returned *)
| ME (t : Z) (active : bool).                 (* horizon *)

Definition tag (g : Z) (e : ev) : mev := match e with Sub t v => MSub g t v | Fin t => MFin g t end.
Definition is_active (p : port) : bool := match p_seq p with Some _ => true | None => false end.

(* steps of the sequence task that are due before [at], and up to [pos] steps due exactly at [at] *)
Fixpoint run_until (fuel : nat) (p : port) (at_ : Z) (pos : nat) : list mev * port :=
  match fuel with
  | O => ([], p)
  | S f =>
      match p_seq p with
      | None => ([], p)
      | Some s =>
          match due s with
          | None => ([], p)
          | Some t =>
              if t <? at_ then
                let '(e, s') := task_step s in
                let '(l, p') := run_until f (set_seq p s') at_ pos in (map (tag (s_gen s)) e ++ l, p')
              else if t =? at_ then
                match pos with
                | O => ([], p)
                | S pos' =>
                    let '(e, s') := task_step s in
                    let '(l, p') := run_until f (set_seq p s') at_ pos' in (map (tag (s_gen s)) e ++ l, p')
                end
              else ([], p)
          end
      end
  end.

Record scenario := Scenario {
  sc_enabled : bool; sc_writable : bool; sc_expr : bool;
  sc_seq : seqdef; sc_cmd : cmd; sc_at : Z; sc_pos : nat; sc_horizon : Z;
  sc_dlat : Z   (* how long the driver's handle_disable() hook takes (ms); disable() returns that much later *) }.

(* disable(): cancel the sequence, mark the port disabled, THEN await the driver's hook *)
Definition hook_latency (sc : scenario) (p : port) : Z :=
  match sc_cmd sc with CDisable => if p_enabled p then dpos (sc_dlat sc) else 0 | _ => 0 end.

Definition no_cmd (c : cmd) : bool := match c with CNone => true | _ => false end.

Definition sim (guard : bool) (fuel : nat) (sc : scenario) : list mev :=
  let p0 := Port (sc_enabled sc) (sc_writable sc) (sc_expr sc) None in
  let '(o0, p1) := patch guard 0 p0 (sc_seq sc) 0 in
  let h := sc_horizon sc in
  MP o0 (is_active p1) ::
  (if no_cmd (sc_cmd sc) || (h <? sc_at sc) then
     let '(l, p2) := run_until fuel p1 (h + 1) 0 in l ++ [ME h (is_active p2)]
   else
     let '(l1, p2) := run_until fuel p1 (sc_at sc) (sc_pos sc) in
     let '(o, p3) := exec guard (sc_cmd sc) p2 (sc_at sc) in
     let '(l2, p4) := run_until fuel p3 (h + 1) 0 in
     l1 ++ [MC (sc_at sc) (is_active p2); MD (sc_at sc + hook_latency sc p2) o (is_active p3)] ++ l2
        ++ [ME h (is_active p4)]).

(* ------------------------------------------------------------------------------------------------------------ *)
(* two commands (each a new sequence or disable) started in the same loop iteration, c1's task step before c2's.
   Code with fixes/C19-concurrent-cancel.diff: every cancellation goes through
       while self._sequence: sequence, self._sequence = self._sequence, None; await sequence.cancel()
   and set_sequence installs only `if values and self._enabled and not self._expression`.
   A command that finds a sequence detaches it and is suspended until that sequence's task has ended (two loop iterations
   later); a command that finds none runs to completion in its first step.  A sequence installed by c2 while c1 is suspended
   takes exactly one step (its first delay is > 0 in these scenarios) before c1 resumes and cancels it. *)

Definition reaches_cancel (c : cmd) (p : port) : bool :=
  match c with
  | CSeq sd => (List.length (sd_vals sd) =? List.length (sd_delays sd))%nat && p_enabled p && p_writable p && negb (p_expr p)
  | CDisable => p_enabled p
  | CExpr | CNoExpr => p_writable p
  | CNone => false
  end.

(* first step of a command: completes (outcome, port) or is suspended with the running sequence detached *)
Definition cmd_start (g : Z) (c : cmd) (p : port) (now : Z) : (outcome * port) + port :=
  if reaches_cancel c p then
    match p_seq p with
    | Some _ => inr (set_seq p None)
    | None => inl (exec_g true g c p now)
    end
  else inl (exec_g true g c p now).

(* what a resumed command does once nothing is left to cancel *)
Definition resume_body (g : Z) (c : cmd) (p : port) (now : Z) : outcome * port :=
  match c with
  | CSeq sd =>
      match sd_vals sd with
      | [] => (OOk, p)
      | _ => if p_enabled p && negb (p_expr p) then (OOk, set_seq p (Some (SeqSt g sd 0 (TFresh now)))) else (OOk, p)
      end
  | CExpr => (OOk, Port (p_enabled p) (p_writable p) true (p_seq p))
  | CNoExpr => (OOk, Port (p_enabled p) (p_writable p) false (p_seq p))
  | CDisable => (OOk, Port false (p_writable p) (p_expr p) (p_seq p))
  | CNone => (OOk, p)
  end.

Inductive mev2 := M1 (m : mev) | MD2 (t : Z) (o : outcome) (active : bool).   (* MD2: the second command returned *)

Definition sim2 (fuel : nat) (sc : scenario) (c2 : cmd) : list mev2 :=
  let p0 := Port (sc_enabled sc) (sc_writable sc) (sc_expr sc) None in
  let '(o0, p1) := patch true 0 p0 (sc_seq sc) 0 in
  let h := sc_horizon sc in
  let at_ := sc_at sc in
  let '(l1, p2) := run_until fuel p1 at_ (sc_pos sc) in
  let '(mid, pend) :=
    match cmd_start 1 (sc_cmd sc) p2 at_ with
    | inl (o1, p3) =>
        match cmd_start 2 c2 p3 at_ with
        | inl (o2, p4) => ([M1 (MD at_ o1 (is_active p3)); MD2 at_ o2 (is_active p4)], p4)
        | inr p4 =>
            (* the detached sequence (just installed by c1, or the old one) ends without another step *)
            let '(o2, p5) := resume_body 2 c2 p4 at_ in
            ([M1 (MD at_ o1 (is_active p3)); MD2 at_ o2 (is_active p5)], p5)
        end
    | inr p3 =>
        (* c1 suspended; c2 finds no sequence and completes; what it installed takes one step; c1 resumes, cancels it *)
        let '(o2, p4) := exec_g true 2 c2 p3 at_ in
        let e := match p_seq p4 with Some s => fst (task_step s) | None => [] end in
        let '(o1, p5) := resume_body 1 (sc_cmd sc) (set_seq p4 None) at_ in
        ([MD2 at_ o2 (is_active p4)] ++ map (fun x => M1 (tag 2 x)) e ++ [M1 (MD at_ o1 (is_active p5))], p5)
    end in
  let '(l2, p6) := run_until fuel pend (h + 1) 0 in
  M1 (MP o0 (is_active p1)) :: map M1 l1 ++ [M1 (MC at_ (is_active p2))] ++ mid ++ map M1 l2 ++ [M1 (ME h (is_active p6))].

(* what the harness observes: (kind, ms, value or outcome code, active) *)
Definition enc (m : mev) : Z * Z * Z * bool :=
  match m with
  | MP o a => (0, 0, outcome_code o, a)
  | MSub _ t v => (1, t, v, true)
  | MFin _ t => (2, t, 0, false)
  | MC t a => (3, t, 0, a)
  | MD t o a => (4, t, outcome_code o, a)
  | ME t a => (5, t, 0, a)
  end.

Definition enc2 (m : mev2) : Z * Z * Z * bool :=
  match m with M1 x => enc x | MD2 t o a => (6, t, outcome_code o, a) end.
