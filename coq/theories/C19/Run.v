(* C19 — dispatch used by the generated case files: run the model / the specification oracle on observed logs. *)
From QT Require Export Base.Prelude C19.Model C19.Spec.
Open Scope Z_scope.

Record rcase := Case {
  c_enabled : bool; c_writable : bool; c_expr : bool;
  c_vals : list Z; c_delays : list Z; c_repeat : Z;
  c_ckind : Z; c_cvals : list Z; c_cdelays : list Z; c_crepeat : Z;
  c_at : Z; c_pos : nat; c_horizon : Z; c_fuel : nat;
  c_dlat : Z;                                                       (* handle_disable() latency *)
  c_ckind2 : Z; c_cvals2 : list Z; c_cdelays2 : list Z; c_crepeat2 : Z;   (* concurrent second command (0 = none) *)
  c_obs : list obs_ev }.

Definition cmd2_of (c : rcase) : cmd :=
  match c_ckind2 c with
  | 1 => CSeq (SeqDef (c_cvals2 c) (c_cdelays2 c) (c_crepeat2 c))
  | 4 => CDisable
  | _ => CNone
  end.

Definition cmd_of (c : rcase) : cmd :=
  match c_ckind c with
  | 1 => CSeq (SeqDef (c_cvals c) (c_cdelays c) (c_crepeat c))
  | 2 => CExpr
  | 3 => CNoExpr
  | 4 => CDisable
  | _ => CNone
  end.

Definition scenario_of (c : rcase) : scenario :=
  Scenario (c_enabled c) (c_writable c) (c_expr c) (SeqDef (c_vals c) (c_delays c) (c_repeat c))
           (cmd_of c) (c_at c) (c_pos c) (c_horizon c) (c_dlat c).

Definition spec_scn_of (c : rcase) : spec_scn :=
  SpecScn (c_enabled c) (c_writable c) (c_expr c) (c_vals c) (c_delays c) (c_repeat c)
          (c_ckind c) (c_cvals c) (c_cdelays c) (c_crepeat c) (c_at c) (c_horizon c) (c_dlat c).

Definition is_pair (c : rcase) : bool := negb (c_ckind2 c =? 0).

Definition model_log (guard : bool) (c : rcase) : list obs_ev :=
  if is_pair c then map enc2 (sim2 (c_fuel c) (scenario_of c) (cmd2_of c))
  else map enc (sim guard (c_fuel c) (scenario_of c)).

(* indices of the cases whose observed log differs from the model's (guard = true: cancel() does not re-raise) *)
Definition bad_model (cases : list rcase) : list nat :=
  mismatches (fun c => list_eqb ev_eqb (model_log true c) (c_obs c)) cases 0.
(* same against the model of the code before fixes/C19-cancel-unstarted-task.diff (diagnostic only) *)
Definition bad_model_old (cases : list rcase) : list nat :=
  mismatches (fun c => list_eqb ev_eqb (model_log false c) (c_obs c)) cases 0.
(* indices of the cases whose observed log contradicts the specification *)
Definition bad_spec (cases : list rcase) : list nat :=
  mismatches (fun c => if is_pair c then spec2_ok (spec_scn_of c) (c_ckind2 c) (c_cvals2 c) (c_cdelays2 c) (c_crepeat2 c) (c_obs c)
                       else spec_ok (spec_scn_of c) (c_obs c)) cases 0.
