(* C19 — what a scenario without command submits is a prefix of the closed-form schedule (the scenario runner only ever
   takes steps of the uninterrupted playback). *)
From QT Require Import Base.Prelude C19.Model C19.Spec C19.SchedThm C19.CancelThm.
Open Scope Z_scope.

Definition msubs (l : list mev) : list (Z * Z) :=
  flat_map (fun m => match m with MSub _ t v => [(t, v)] | _ => [] end) l.

Lemma msubs_tag : forall g l, msubs (map (tag g) l) = subs l.
Proof.
  induction l as [|[t v|t] l IH]; [reflexivity| |]; cbn [map tag msubs subs flat_map app]; [f_equal|]; exact IH.
Qed.

Lemma msubs_app : forall a b, msubs (a ++ b) = msubs a ++ msubs b.
Proof. intros. unfold msubs. apply flat_map_app. Qed.

Lemma run_until_run_task : forall fuel p s at_ pos, p_seq p = Some s ->
  exists k, fst (run_until fuel p at_ pos) = map (tag (s_gen s)) (fst (run_task k (Some s))).
Proof.
  induction fuel as [|f IH]; intros p s at_ pos Hs; [exists 0%nat; reflexivity|].
  cbn [run_until]. rewrite Hs.
  destruct (due s) as [t|]; [|exists 0%nat; reflexivity].
  assert (Hstep : forall pos', exists k,
    fst (let '(e, s') := task_step s in
         let '(l, p') := run_until f (set_seq p s') at_ pos' in (map (tag (s_gen s)) e ++ l, p')) =
    map (tag (s_gen s)) (fst (run_task k (Some s)))).
  { intros pos'. destruct (task_step s) as [e [s1|]] eqn:TS.
    - destruct (IH (set_seq p (Some s1)) s1 at_ pos' eq_refl) as [k Hk].
      exists (S k). cbn [run_task]. rewrite TS.
      destruct (run_until f _ at_ pos') as [l p']. destruct (run_task k (Some s1)) as [e' s''].
      cbn [fst] in *. rewrite Hk, map_app. rewrite (task_step_gen s s1) by (now rewrite TS). reflexivity.
    - exists 1%nat. cbn [run_task]. rewrite TS. rewrite run_until_idle by reflexivity. cbn [run_task fst]. now rewrite !app_nil_r. }
  destruct (t <? at_); [apply Hstep|].
  destruct (t =? at_); [|exists 0%nat; reflexivity].
  destruct pos as [|pos']; [exists 0%nat; reflexivity | apply Hstep].
Qed.

Lemma run_task_done : forall a b s, snd (run_task a s) = None -> fst (run_task (a + b) s) = fst (run_task a s).
Proof.
  intros a b s H. rewrite run_task_app. destruct (run_task a s) as [e s']. cbn [snd] in H. subst s'.
  rewrite run_task_none. cbn [fst]. apply app_nil_r.
Qed.

Section Steps.
  Variables (g : Z) (vs ds : list Z) (r : Z).
  Let n := List.length vs.
  Hypothesis Hn : (0 < n)%nat.
  Hypothesis Hlen : List.length ds = n.

  (* whatever the number of steps taken, the submissions are whole passes and a prefix of the next *)
  Lemma steps_form : forall t0 k, exists j k', (k' <= n)%nat /\ (r <= 0 \/ Z.of_nat j < r) /\
    subs (fst (run_task k (start g vs ds r t0))) =
      shift t0 (schedule vs ds j ++ firstn k' (pass vs ds (Z.of_nat j * total ds))).
  Proof.
    intros t0 k.
    assert (Hdm : k = ((k / S n) * S n + k mod S n)%nat) by (rewrite Nat.mul_comm; apply Nat.div_mod; lia).
    assert (Hmod : (k mod S n <= n)%nat) by (pose proof (Nat.mod_upper_bound k (S n)); lia).
    destruct (Z_le_gt_dec r 0) as [Hr|Hr].
    - exists (k / S n)%nat, (k mod S n)%nat. repeat split; [exact Hmod | now left |].
      rewrite Hdm at 1. apply playback_prefix; auto.
    - set (N := ((Z.to_nat r - 1) * S n + n)%nat).
      destruct (le_gt_dec k N) as [Hk|Hk].
      + assert (Hj : (k / S n < Z.to_nat r)%nat).
        { apply Nat.div_lt_upper_bound; [lia|]. subst N. nia. }
        exists (k / S n)%nat, (k mod S n)%nat. repeat split; [exact Hmod | right; lia |].
        rewrite Hdm at 1. apply playback_prefix; auto. right; lia.
      + exists (Z.to_nat r - 1)%nat, n. repeat split; [lia | right; lia |].
        replace k with (N + (k - N))%nat by lia. rewrite run_task_done.
        * subst N. apply playback_prefix; auto. right; lia.
        * subst N. unfold n. rewrite playback_finite by (auto; lia). reflexivity.
  Qed.
End Steps.

(* C19_schedule at scenario level: an accepted sequence that is not interfered with submits, up to any horizon, whole
   passes of the schedule followed by a prefix of the next pass — nothing else, in that order, at those instants *)
Theorem sim_schedule : forall fuel sc,
  sc_enabled sc = true -> sc_writable sc = true -> sc_expr sc = false ->
  sc_cmd sc = CNone ->
  let vs := sd_vals (sc_seq sc) in let ds := sd_delays (sc_seq sc) in let r := sd_repeat (sc_seq sc) in
  vs <> [] -> List.length ds = List.length vs ->
  exists l a j k, (k <= List.length vs)%nat /\ (r <= 0 \/ Z.of_nat j < r) /\
    sim true fuel sc = MP OOk true :: l ++ [ME (sc_horizon sc) a] /\
    msubs l = schedule vs ds j ++ firstn k (pass vs ds (Z.of_nat j * total ds)).
Proof.
  intros fuel sc He Hw Hx Hc vs ds r Hvs Hlen. unfold sim.
  set (p0 := Port (sc_enabled sc) (sc_writable sc) (sc_expr sc) None).
  assert (Hadm : admits p0) by (repeat split; assumption).
  rewrite (patch_accepted true 0 p0 (sc_seq sc) 0 Hadm eq_refl) by (symmetry; exact Hlen).
  rewrite Hc. cbn [no_cmd orb].
  destruct (sc_seq sc) as [vs0 ds0 r0] eqn:Esd. cbn [sd_vals sd_delays sd_repeat] in *. subst vs ds r.
  destruct vs0 as [|v0 vs0']; [congruence|]. set (vs := v0 :: vs0') in *.
  set (s0 := SeqSt 0 (SeqDef vs ds0 r0) 0 (TFresh 0)).
  destruct (run_until_run_task fuel (set_seq p0 (Some s0)) s0 (sc_horizon sc + 1) 0 eq_refl) as [k Hk].
  destruct (run_until fuel (set_seq p0 (Some s0)) (sc_horizon sc + 1) 0) as [l p2]. cbn [fst] in Hk.
  assert (Hn : (0 < List.length vs)%nat) by (cbn; lia).
  destruct (steps_form 0 vs ds0 r0 Hn Hlen 0 k) as (j & k' & Hk' & Hj & Hs).
  exists l, (is_active p2), j, k'. repeat split; auto.
  rewrite Hk, msubs_tag. subst s0. cbn [s_gen]. unfold start in Hs. rewrite Hs.
  unfold shift. rewrite <- (map_id (schedule _ _ _ ++ _)) at 2. apply map_ext. intros [t v]. f_equal.
Qed.
