(* C19 — specification, written without reference to the control flow of Sequence._loop:
   the closed-form schedule of a sequence, and an executable acceptance test for an observed log of one scenario. *)
From QT Require Import Base.Prelude.
Open Scope Z_scope.

(* delays are milliseconds; a delay <= 0 (the request schema admits negative ones) means "immediately" *)
Definition dclip (d : Z) : Z := Z.max 0 d.

Fixpoint sumz (l : list Z) : Z := match l with [] => 0 | x :: r => x + sumz r end.
Definition prefix_sum (ds : list Z) (k : nat) : Z := sumz (map dclip (firstn k ds)).
Definition total (ds : list Z) : Z := sumz (map dclip ds).

(* one pass over the list, started at [base]: value k is submitted at base + d_0 + ... + d_(k-1) *)
Definition pass (vs ds : list Z) (base : Z) : list (Z * Z) :=
  map (fun k => (base + prefix_sum ds k, nth k vs 0)) (seq 0 (List.length vs)).

(* r passes, pass j starting j * (d_0 + ... + d_(n-1)) after the first *)
Definition schedule (vs ds : list Z) (r : nat) : list (Z * Z) :=
  flat_map (fun j => pass vs ds (Z.of_nat j * total ds)) (seq 0 r).

(* repeat = 0 (or negative): every finite prefix of the infinite repetition; m entries need at most m passes *)
Definition schedule_prefix (vs ds : list Z) (m : nat) : list (Z * Z) := firstn m (schedule vs ds m).

Definition shift (t0 : Z) (l : list (Z * Z)) : list (Z * Z) := map (fun '(t, v) => (t0 + t, v)) l.

(* the submissions of a sequence started at t0 that fall at or before the horizon h *)
Definition expected_upto (vs ds : list Z) (r t0 h : Z) : list (Z * Z) :=
  let passes :=
    if 0 <? r then Z.to_nat r
    else if 0 <? total ds then Z.to_nat ((h - t0) / total ds + 1)
    else 1%nat   (* repeat <= 0 with no positive delay never lets time advance: outside the statement *) in
  filter (fun '(t, _) => t <=? h) (shift t0 (schedule vs ds passes)).

(* ------------------------------------------------------------------------------------------------------------ *)
(* acceptance test for an observed log.
   obs entry = (kind, ms, value / outcome code, sequence reported active right after the event)
   kinds: 0 first request returned, 1 value submitted, 2 finish call-back ran, 3 command starts, 4 command returned,
          5 horizon, 6 second (concurrent) command returned.  Which sequence a submitted value belongs to is decided by its
          position in the log (before the command starts: the first sequence; after it returned: the replacement), never
          by the value itself — a replacement may repeat the running sequence exactly.
   command kinds: 0 none, 1 new sequence, 2 expression, 3 empty expression, 4 disable *)

Definition obs_ev := (Z * Z * Z * bool)%type.
Definition kind_of (e : obs_ev) : Z := let '(k, _, _, _) := e in k.
Definition time_of (e : obs_ev) : Z := let '(_, t, _, _) := e in t.
Definition val_of (e : obs_ev) : Z := let '(_, _, v, _) := e in v.
Definition act_of (e : obs_ev) : bool := let '(_, _, _, a) := e in a.

Definition pair_eqb (a b : Z * Z) : bool := (fst a =? fst b) && (snd a =? snd b).
Definition ev_eqb (a b : obs_ev) : bool :=
  (kind_of a =? kind_of b) && (time_of a =? time_of b) && (val_of a =? val_of b) && Bool.eqb (act_of a) (act_of b).

Definition is_sub_ev (e : obs_ev) : bool := kind_of e =? 1.
Definition tv (l : list obs_ev) : list (Z * Z) := map (fun e => (time_of e, val_of e)) l.

(* split at the first event of kind k *)
Fixpoint split_at (k : Z) (l : list obs_ev) : list obs_ev * option (obs_ev * list obs_ev) :=
  match l with
  | [] => ([], None)
  | e :: r => if kind_of e =? k then ([], Some (e, r))
              else let '(a, b) := split_at k r in (e :: a, b)
  end.

(* a stretch of log that must consist of exactly the submissions [exp] (in order), each reported active, followed — iff
   [fin] — by one finish event at the time of the last submission, reported inactive *)
Fixpoint stretch_ok (l : list obs_ev) (exp : list (Z * Z)) (fin : bool) (last_t : Z) : bool :=
  match exp, l with
  | x :: exp', e :: l' => (kind_of e =? 1) && pair_eqb (time_of e, val_of e) x && act_of e && stretch_ok l' exp' fin (fst x)
  | [], [e] => fin && (kind_of e =? 2) && (time_of e =? last_t) && negb (act_of e)
  | [], [] => negb fin
  | _, _ => false
  end.

Record spec_scn := SpecScn {
  ss_enabled : bool; ss_writable : bool; ss_expr : bool;
  ss_vals : list Z; ss_delays : list Z; ss_repeat : Z;
  ss_ckind : Z; ss_cvals : list Z; ss_cdelays : list Z; ss_crepeat : Z;
  ss_at : Z; ss_horizon : Z;
  ss_dlat : Z   (* latency of the driver's handle_disable() hook: disable() returns that much later *) }.

(* outcome of a sequence request: 0 accepted, else the refusal *)
Definition request_outcome (enabled writable expr : bool) (vs ds : list Z) : Z :=
  if negb (List.length vs =? List.length ds)%nat then 4
  else if negb enabled then 1 else if negb writable then 2 else if expr then 3 else 0.

Definition whole (vs ds : list Z) (r : Z) : nat := (Z.to_nat r * List.length vs)%nat.
(* did a sequence that submitted [m] values finish? *)
Definition finished (vs ds : list Z) (r : Z) (m : nat) : bool := (0 <? r) && (whole vs ds r =? m)%nat.

(* the last part of the log: the horizon event *)
Definition end_ok (l : list obs_ev) (h : Z) (a : bool) : bool :=
  match l with [e] => ev_eqb e (5, h, 0, a) | _ => false end.

Definition degenerate (vs ds : list Z) (r : Z) : bool := (r <=? 0) && (total ds <=? 0) && negb (List.length vs =? 0)%nat.

Definition spec_ok (s : spec_scn) (obs : list obs_ev) : bool :=
  let h := ss_horizon s in
  let vs := ss_vals s in let ds := ss_delays s in let r := ss_repeat s in
  let o0 := request_outcome (ss_enabled s) (ss_writable s) (ss_expr s) vs ds in
  if degenerate vs ds r || degenerate (ss_cvals s) (ss_cdelays s) (ss_crepeat s) then true else
  match obs with
  | p :: rest =>
      let accepted := (o0 =? 0) && negb (List.length vs =? 0)%nat in
      ev_eqb p (0, 0, o0, accepted) &&
      let full := if accepted then expected_upto vs ds r 0 h else [] in
      if (ss_ckind s =? 0) || (h <? ss_at s) then
        (* no command: the whole schedule up to the horizon, then finished / still active *)
        let '(body, tl) := split_at 5 rest in
        let fin := accepted && finished vs ds r (List.length full) in
        stretch_ok body full fin 0 &&
        match tl with Some (e, []) => ev_eqb e (5, h, 0, accepted && negb fin) | _ => false end
      else
        let at_ := ss_at s in
        let '(before, tl) := split_at 3 rest in
        match tl with
        | Some (c, d :: after) =>
            (* everything of the first sequence is before the command, in schedule order, nothing later than [at_],
               nothing due before [at_] is missing *)
            let olds := tv (filter is_sub_ev before) in
            let n_old := List.length olds in
            let strictly := List.length (filter (fun '(t, _) => t <? at_) full) in
            let upto := List.length (filter (fun '(t, _) => t <=? at_) full) in
            let fin := accepted && finished vs ds r n_old in
            let act_c := accepted && negb fin in
            let act_p := ss_enabled s in   (* the port is enabled at the command iff it was at the start *)
            stretch_ok before (firstn n_old full) fin 0 &&
            (strictly <=? n_old)%nat && (n_old <=? upto)%nat &&
            ev_eqb c (3, at_, 0, act_c) &&
            (* the command's own outcome, and what follows *)
            let k := ss_ckind s in
            let cvs := ss_cvals s in let cds := ss_cdelays s in let cr := ss_crepeat s in
            let '(body, tl2) := split_at 5 after in
            match tl2 with
            | Some (e, []) =>
                if k =? 1 then
                  (* the port is still enabled, writable and without expression iff the first request was accepted *)
                  let oc := request_outcome (ss_enabled s) (ss_writable s) (ss_expr s) cvs cds in
                  if oc =? 0 then
                    let installed := negb (List.length cvs =? 0)%nat in
                    let nfull := if installed then expected_upto cvs cds cr at_ h else [] in
                    let nfin := installed && finished cvs cds cr (List.length nfull) in
                    ev_eqb d (4, at_, 0, installed) &&
                    stretch_ok body nfull nfin at_ &&
                    ev_eqb e (5, h, 0, installed && negb nfin)
                  else
                    (* refused: the running sequence is not disturbed *)
                    let rest_old := skipn n_old full in
                    let fin2 := accepted && negb fin && finished vs ds r (List.length full) in
                    ev_eqb d (4, at_, oc, act_c) &&
                    stretch_ok body rest_old fin2 0 &&
                    ev_eqb e (5, h, 0, act_c && negb fin2)
                else
                  (* expression / empty expression / disable: accepted, nothing is active or submitted afterwards.
                     (expression commands on a read-only port are ignored by set_attr: no sequence can be running there) *)
                  let ret := if (k =? 4) && act_p then at_ + dclip (ss_dlat s) else at_ in
                  ev_eqb d (4, ret, 0, false) && (List.length body =? 0)%nat && ev_eqb e (5, h, 0, false)
            | _ => false
            end
        | _ => false
        end
  | [] => false
  end.

(* ------------------------------------------------------------------------------------------------------------ *)
(* two concurrent commands (each a new sequence, kind 1, or disable, kind 4) started at [at_] in the same loop iteration.
   Whatever the interleaving, the outcome must be that of one of the two serial orders from the moment both have returned:
   - the first sequence submits nothing after the commands start;
   - until both have returned, only a prefix of ONE new sequence's schedule may appear, all of it at the instant [at_]
     (a request that was served and then superseded);
   - after both have returned exactly one survivor plays: with a disable among the commands, nothing; with two sequence
     requests, one of the two, from v1 at [at_], following its schedule, finishing once — never both, never an orphan. *)

Definition is_ret (e : obs_ev) : bool := (kind_of e =? 4) || (kind_of e =? 6).

(* split at the LAST returned-event: (transient, tail after it) *)
Fixpoint split_last_ret (l : list obs_ev) : option (list obs_ev * list obs_ev) :=
  match l with
  | [] => None
  | e :: r =>
      match split_last_ret r with
      | Some (a, b) => Some (e :: a, b)
      | None => if is_ret e then Some ([], r) else None
      end
  end.

Fixpoint prefix_of (a b : list (Z * Z)) : bool :=
  match a, b with
  | [], _ => true
  | x :: a', y :: b' => pair_eqb x y && prefix_of a' b'
  | _, _ => false
  end.

(* candidates for the surviving sequence: (values, delays, repeat) *)
Definition survivor_ok (tail : list obs_ev) (at_ h : Z) (c : list Z * list Z * Z) : bool :=
  let '(vs, ds, r) := c in
  let installed := negb (List.length vs =? 0)%nat in
  let full := if installed then expected_upto vs ds r at_ h else [] in
  let fin := installed && finished vs ds r (List.length full) in
  let '(body, tl) := split_at 5 tail in
  stretch_ok body full fin at_ &&
  match tl with Some (e, []) => ev_eqb e (5, h, 0, installed && negb fin) | _ => false end.

Definition spec2_ok (s : spec_scn) (k2 : Z) (cvs2 cds2 : list Z) (cr2 : Z) (obs : list obs_ev) : bool :=
  let h := ss_horizon s in let at_ := ss_at s in
  let vs := ss_vals s in let ds := ss_delays s in let r := ss_repeat s in
  let k1 := ss_ckind s in
  match obs with
  | p :: rest =>
      ev_eqb p (0, 0, 0, true) &&
      let full := expected_upto vs ds r 0 h in
      let '(before, tl) := split_at 3 rest in
      match tl with
      | Some (c, after) =>
          let n_old := List.length (filter is_sub_ev before) in
          let strictly := List.length (filter (fun '(t, _) => t <? at_) full) in
          let upto := List.length (filter (fun '(t, _) => t <=? at_) full) in
          let fin := finished vs ds r n_old in
          stretch_ok before (firstn n_old full) fin 0 && (strictly <=? n_old)%nat && (n_old <=? upto)%nat &&
          ev_eqb c (3, at_, 0, negb fin) &&
          match split_last_ret after with
          | Some (trans, tail) =>
              (* both commands returned, once each, both accepted or (sequence request after the disable) port-disabled *)
              let rets := filter is_ret after in
              (List.length (filter (fun e => (kind_of e =? 4)%Z) rets) =? 1)%nat &&
              (List.length (filter (fun e => (kind_of e =? 6)%Z) rets) =? 1)%nat &&
              forallb (fun e => (val_of e =? 0) || ((val_of e =? 1) && ((k1 =? 4) || (k2 =? 4)))) rets &&
              let seq1 := (ss_cvals s, ss_cdelays s, ss_crepeat s) in
              let seq2 := (cvs2, cds2, cr2) in
              let nothing := ([], [], 1) in
              let tsubs := tv (filter is_sub_ev trans) in
              let trans_ok (c : list Z * list Z * Z) :=
                let '(cv, cd, cr) := c in
                forallb (fun '(t, _) => t =? at_) tsubs && prefix_of tsubs (expected_upto cv cd cr at_ h) in
              if (k1 =? 4) || (k2 =? 4) then
                survivor_ok tail at_ h nothing && (trans_ok seq1 || trans_ok seq2 || (List.length tsubs =? 0)%nat)
              else
                (survivor_ok tail at_ h seq1 && trans_ok seq2) || (survivor_ok tail at_ h seq2 && trans_ok seq1)
          | None => false
          end
      | None => false
      end
  | [] => false
  end.
