(* C19 — the uninterrupted playback of the model equals the closed-form schedule; it finishes exactly once, in the step of
   the last submission.  Induction over the task steps of a pass, then over the passes. *)
From QT Require Import Base.Prelude C19.Model C19.Spec.
Open Scope Z_scope.

Definition evs_of (l : list (Z * Z)) : list ev := map (fun '(t, v) => Sub t v) l.

Lemma subs_evs_of : forall l, subs (evs_of l) = l.
Proof. induction l as [|[t v] l IH]; [reflexivity|]. cbn [evs_of map subs flat_map app]. f_equal. exact IH. Qed.

Lemma fins_evs_of : forall l, fins (evs_of l) = [].
Proof. induction l as [|[t v] l IH]; [reflexivity|]. cbn [evs_of map fins flat_map app]. exact IH. Qed.

Lemma subs_app : forall a b, subs (a ++ b) = subs a ++ subs b.
Proof. intros. unfold subs. apply flat_map_app. Qed.

Lemma fins_app : forall a b, fins (a ++ b) = fins a ++ fins b.
Proof. intros. unfold fins. apply flat_map_app. Qed.

Lemma evs_of_app : forall a b, evs_of (a ++ b) = evs_of a ++ evs_of b.
Proof. intros. unfold evs_of. apply map_app. Qed.

Lemma prefix_sum_0 : forall ds, prefix_sum ds 0 = 0.
Proof. reflexivity. Qed.

Lemma prefix_sum_cons : forall d ds k, prefix_sum (d :: ds) (S k) = dclip d + prefix_sum ds k.
Proof. reflexivity. Qed.

Lemma prefix_sum_S : forall ds k, prefix_sum ds (S k) = prefix_sum ds k + dclip (nth k ds 0).
Proof.
  induction ds as [|d ds IH]; intros k.
  - destruct k; reflexivity.
  - destruct k as [|k].
    + rewrite prefix_sum_cons. cbn [nth]. unfold prefix_sum. cbn [firstn map sumz]. lia.
    + rewrite !prefix_sum_cons, IH. cbn [nth]. lia.
Qed.

Lemma prefix_sum_all : forall ds, prefix_sum ds (List.length ds) = total ds.
Proof. intros. unfold prefix_sum, total. now rewrite firstn_all. Qed.

Lemma run_task_none : forall n, run_task n None = ([], None).
Proof. destruct n; reflexivity. Qed.

Lemma run_task_app : forall a b s,
  run_task (a + b) s =
  let '(e, s') := run_task a s in let '(e', s'') := run_task b s' in (e ++ e', s'').
Proof.
  induction a as [|a IH]; intros b s.
  - cbn [Nat.add run_task]. destruct (run_task b s). reflexivity.
  - destruct s as [st|].
    + cbn [Nat.add run_task]. destruct (task_step st) as [e s1]. rewrite IH.
      destruct (run_task a s1) as [e1 s2]. destruct (run_task b s2) as [e2 s3]. now rewrite app_assoc.
    + cbn. rewrite run_task_none. reflexivity.
Qed.

(* the task state just before the loop body for index i runs at time T *)
Definition pre_fire (i : nat) (T : Z) : task := match i with O => TFresh T | S i' => TSleep i' T end.

Section Playback.
  Variables (g : Z) (vs ds : list Z) (r : Z).
  Let sd := SeqDef vs ds r.
  Let n := List.length vs.

  Definition finishing (c : Z) : bool := (0 <? r) && (r - 1 <=? c).

  Lemma step_pre_fire : forall i c T, (i < n)%nat ->
    task_step (SeqSt g sd c (pre_fire i T)) = fire g sd c i T.
  Proof.
    intros [|i] c T Hi; [reflexivity|].
    cbn [pre_fire task_step s_task s_def s_gen s_counter]. unfold nvals. cbn [sd sd_vals].
    fold n. now apply Nat.ltb_lt in Hi as ->.
  Qed.

  Lemma fire_nonlast : forall i c T, (S i < n)%nat ->
    fire g sd c i T = ([Sub T (nth i vs 0)], Some (SeqSt g sd c (pre_fire (S i) (T + dclip (nth i ds 0))))).
  Proof.
    intros i c T Hi. unfold fire, nvals. cbn [sd sd_vals]. fold n. apply Nat.ltb_lt in Hi as ->. reflexivity.
  Qed.

  Lemma fire_last : forall i c T, S i = n ->
    fire g sd c i T =
      if finishing c then ([Sub T (nth i vs 0); Fin T], None)
      else ([Sub T (nth i vs 0)], Some (SeqSt g sd (c + 1) (TSleep i (T + dclip (nth i ds 0))))).
  Proof.
    intros i c T Hi. unfold fire, nvals. cbn [sd sd_vals]. fold n. rewrite Hi, Nat.ltb_irrefl. reflexivity.
  Qed.

  Definition entry (B : Z) (k : nat) : Z * Z := (B + prefix_sum ds k, nth k vs 0).

  (* m consecutive non-last loop bodies *)
  Lemma fires : forall m i c B, (i + m < n)%nat ->
    run_task m (Some (SeqSt g sd c (pre_fire i (B + prefix_sum ds i)))) =
      (evs_of (map (entry B) (seq i m)), Some (SeqSt g sd c (pre_fire (i + m) (B + prefix_sum ds (i + m))))).
  Proof.
    induction m as [|m IH]; intros i c B H.
    - cbn [run_task seq map evs_of]. now rewrite Nat.add_0_r.
    - cbn [run_task]. rewrite step_pre_fire by lia. rewrite fire_nonlast by lia.
      replace (B + prefix_sum ds i + dclip (nth i ds 0)) with (B + prefix_sum ds (S i))
        by (rewrite prefix_sum_S; lia).
      rewrite (IH (S i) c B) by lia. replace (S i + m)%nat with (i + S m)%nat by lia. reflexivity.
  Qed.

  Lemma fires0 : forall m c B, (m < n)%nat ->
    run_task m (Some (SeqSt g sd c (TFresh B))) =
      (evs_of (map (entry B) (seq 0 m)), Some (SeqSt g sd c (pre_fire m (B + prefix_sum ds m)))).
  Proof.
    intros m c B H. pose proof (fires m 0 c B) as F. rewrite prefix_sum_0, Z.add_0_r in F.
    cbn [Nat.add] in F. apply F. lia.
  Qed.

  Lemma pass_entries : forall B, pass vs ds B = map (entry B) (seq 0 n).
  Proof. reflexivity. Qed.

  Hypothesis Hn : (0 < n)%nat.
  Hypothesis Hlen : List.length ds = n.

  (* a whole pass that does not finish: n loop bodies and the re-arm step *)
  Lemma pass_steps : forall c B, finishing c = false ->
    run_task (S n) (Some (SeqSt g sd c (TFresh B))) =
      (evs_of (pass vs ds B), Some (SeqSt g sd (c + 1) (TFresh (B + total ds)))).
  Proof.
    intros c B Hf. destruct n as [|n'] eqn:En; [lia|].
    replace (S (S n')) with (n' + 2)%nat by lia. rewrite run_task_app.
    rewrite (fires0 n' c B) by lia.
    cbn [run_task]. rewrite step_pre_fire by lia. rewrite fire_last by lia. rewrite Hf.
    cbn [task_step s_task s_def s_gen s_counter]. unfold nvals. cbn [sd sd_vals]. fold n. rewrite En, Nat.ltb_irrefl.
    rewrite pass_entries, En, seq_S, map_app, evs_of_app. cbn [Nat.add map evs_of app].
    replace (B + prefix_sum ds n' + dclip (nth n' ds 0)) with (B + total ds)
      by (rewrite <- prefix_sum_all, Hlen, prefix_sum_S; lia).
    reflexivity.
  Qed.

  (* the pass that finishes: n loop bodies, the last one runs the finish call-back *)
  Lemma last_pass_steps : forall c B, finishing c = true ->
    run_task n (Some (SeqSt g sd c (TFresh B))) =
      (evs_of (pass vs ds B) ++ [Fin (B + prefix_sum ds (n - 1))], None).
  Proof.
    intros c B Hf. destruct n as [|n'] eqn:En; [lia|].
    replace (S n') with (n' + 1)%nat at 1 by lia. rewrite run_task_app.
    rewrite (fires0 n' c B) by lia.
    cbn [run_task]. rewrite step_pre_fire by lia. rewrite fire_last by lia. rewrite Hf.
    rewrite pass_entries, En, seq_S, map_app, evs_of_app. cbn [Nat.add map evs_of app].
    replace (S n' - 1)%nat with n' by lia. rewrite <- app_assoc. reflexivity.
  Qed.

  (* the first k <= n steps of any pass submit the first k entries of the pass *)
  Lemma pass_prefix_steps : forall k c B, (k <= n)%nat ->
    subs (fst (run_task k (Some (SeqSt g sd c (TFresh B))))) = firstn k (pass vs ds B).
  Proof.
    intros k c B Hk.
    assert (Hfs : forall m, (m <= n)%nat -> firstn m (map (entry B) (seq 0 n)) = map (entry B) (seq 0 m)).
    { intros m Hm. rewrite firstn_map. f_equal. clear -Hm. revert Hm. generalize 0%nat. generalize n. 
      induction m as [|m IH]; intros [|q] s Hm; try reflexivity; try lia. cbn [seq firstn]. f_equal. apply IH. lia. }
    rewrite pass_entries, Hfs by exact Hk.
    destruct (Nat.eq_dec k n) as [->|Hne].
    - destruct (finishing c) eqn:Hf.
      + rewrite last_pass_steps by exact Hf. cbn [fst]. rewrite subs_app, subs_evs_of. cbn. now rewrite app_nil_r.
      + destruct n as [|n'] eqn:En; [lia|].
        replace (S n') with (n' + 1)%nat at 1 by lia. rewrite run_task_app.
        rewrite (fires0 n' c B) by lia.
        cbn [run_task]. rewrite step_pre_fire by lia. rewrite fire_last by lia. rewrite Hf. cbn [fst].
        rewrite seq_S, map_app, subs_app, subs_evs_of. reflexivity.
    - rewrite (fires0 k c B) by lia. cbn [fst]. apply subs_evs_of.
  Qed.

  Lemma shift_pass : forall t0 B, shift t0 (pass vs ds B) = pass vs ds (t0 + B).
  Proof.
    intros. unfold shift, pass. rewrite map_map. apply map_ext. intros k. f_equal. lia.
  Qed.

  Lemma shift_app : forall t0 a b, shift t0 (a ++ b) = shift t0 a ++ shift t0 b.
  Proof. intros. unfold shift. apply map_app. Qed.

  Lemma schedule_S : forall j, schedule vs ds (S j) = schedule vs ds j ++ pass vs ds (Z.of_nat j * total ds).
  Proof.
    intros. unfold schedule. rewrite seq_S, flat_map_app. cbn [Nat.add flat_map]. now rewrite app_nil_r.
  Qed.

  (* j whole passes, none of which finishes *)
  Lemma passes_steps : forall j t0, (r <= 0 \/ Z.of_nat j <= r - 1) ->
    run_task (j * S n) (Some (SeqSt g sd 0 (TFresh t0))) =
      (evs_of (shift t0 (schedule vs ds j)), Some (SeqSt g sd (Z.of_nat j) (TFresh (t0 + Z.of_nat j * total ds)))).
  Proof.
    induction j as [|j IH]; intros t0 Hr.
    - cbn [Nat.mul run_task]. cbn. now rewrite Z.add_0_r.
    - replace (S j * S n)%nat with (j * S n + S n)%nat by lia. rewrite run_task_app, IH by lia.
      rewrite pass_steps.
      + rewrite schedule_S, shift_app, evs_of_app, shift_pass.
        replace (Z.of_nat (S j)) with (Z.of_nat j + 1) by lia.
        replace (t0 + Z.of_nat j * total ds + total ds) with (t0 + (Z.of_nat j + 1) * total ds) by lia.
        reflexivity.
      + unfold finishing. destruct (0 <? r) eqn:E0; [|reflexivity]. apply Z.ltb_lt in E0.
        cbn [andb]. apply Z.leb_gt. lia.
  Qed.

  Definition start (t0 : Z) : option seqst := Some (SeqSt g sd 0 (TFresh t0)).

  (* repeat > 0: after r*(n+1) - 1 steps everything has been submitted, the finish call-back has run once, nothing is
     active; the last submission and the finish are in the same step *)
  Theorem playback_finite : forall t0, 0 < r ->
    run_task ((Z.to_nat r - 1) * S n + n) (start t0) =
      (evs_of (shift t0 (schedule vs ds (Z.to_nat r)))
         ++ [Fin (t0 + (r - 1) * total ds + prefix_sum ds (n - 1))], None).
  Proof.
    intros t0 Hr. unfold start. rewrite run_task_app, passes_steps by lia.
    rewrite last_pass_steps.
    - replace (schedule vs ds (Z.to_nat r)) with (schedule vs ds (S (Z.to_nat r - 1))) by (f_equal; lia).
      rewrite schedule_S, shift_app, evs_of_app, shift_pass, <- app_assoc.
      replace (Z.of_nat (Z.to_nat r - 1)) with (r - 1) by lia.
      reflexivity.
    - unfold finishing. apply andb_true_intro. split; [now apply Z.ltb_lt | apply Z.leb_le; lia].
  Qed.

  (* any repeat count: j whole passes and k <= n further steps submit j passes and the first k entries of the next,
     as long as pass j exists (always, for repeat <= 0) *)
  Theorem playback_prefix : forall t0 j k, (r <= 0 \/ Z.of_nat j < r) -> (k <= n)%nat ->
    subs (fst (run_task (j * S n + k) (start t0))) =
      shift t0 (schedule vs ds j ++ firstn k (pass vs ds (Z.of_nat j * total ds))).
  Proof.
    intros t0 j k Hr Hk. unfold start. rewrite run_task_app, passes_steps by lia.
    pose proof (pass_prefix_steps k (Z.of_nat j) (t0 + Z.of_nat j * total ds) Hk) as P.
    destruct (run_task k _) as [e s']. cbn [fst] in *. rewrite subs_app, subs_evs_of, P, shift_app.
    f_equal. rewrite <- shift_pass. unfold shift. now rewrite firstn_map.
  Qed.

  Lemma pass_prefix_alive : forall k c B, finishing c = false -> (k <= n)%nat ->
    fins (fst (run_task k (Some (SeqSt g sd c (TFresh B))))) = [] /\
    snd (run_task k (Some (SeqSt g sd c (TFresh B)))) <> None.
  Proof.
    intros k c B Hf Hk. destruct (Nat.eq_dec k n) as [->|Hne].
    - destruct n as [|n'] eqn:En; [lia|].
      replace (S n') with (n' + 1)%nat by lia. rewrite run_task_app.
      rewrite (fires0 n' c B) by lia.
      cbn [run_task]. rewrite step_pre_fire by lia. rewrite fire_last by lia. rewrite Hf. cbn [fst snd].
      rewrite !fins_app, !fins_evs_of. split; [reflexivity | discriminate].
    - rewrite (fires0 k c B) by lia. cbn [fst snd]. rewrite fins_evs_of. split; [reflexivity | discriminate].
  Qed.

  (* repeat <= 0 never finishes *)
  Theorem playback_endless : forall t0 j k, r <= 0 -> (k <= n)%nat ->
    fins (fst (run_task (j * S n + k) (start t0))) = [] /\ snd (run_task (j * S n + k) (start t0)) <> None.
  Proof.
    intros t0 j k Hr Hk. unfold start. rewrite run_task_app, passes_steps by lia.
    assert (Hnf : finishing (Z.of_nat j) = false).
    { unfold finishing. apply Z.ltb_ge in Hr. now rewrite Hr. }
    pose proof (pass_prefix_alive k (Z.of_nat j) (t0 + Z.of_nat j * total ds) Hnf Hk) as [P1 P2].
    destruct (run_task k _) as [e s']. cbn [fst snd] in *. rewrite fins_app, fins_evs_of, P1. split; [reflexivity | exact P2].
  Qed.
End Playback.

Theorem playback_finishes :
  forall g vs ds r, (0 < List.length vs)%nat -> List.length ds = List.length vs -> forall t0, 0 < r ->
    let N := ((Z.to_nat r - 1) * S (List.length vs) + List.length vs)%nat in
    snd (run_task N (start g vs ds r t0)) = None /\
    fins (fst (run_task N (start g vs ds r t0))) = [t0 + (r - 1) * total ds + prefix_sum ds (List.length vs - 1)] /\
    subs (fst (run_task N (start g vs ds r t0))) = shift t0 (schedule vs ds (Z.to_nat r)).
Proof.
  intros g vs ds r Hn Hlen t0 Hr N. subst N. rewrite (playback_finite g vs ds r Hn Hlen t0 Hr). cbn [fst snd].
  rewrite fins_app, fins_evs_of, subs_app, subs_evs_of. cbn. rewrite app_nil_r. auto.
Qed.
