(* C19 — scenario-level theorems: a cancelling command (new sequence / expression / empty expression / disable) stops the
   running sequence at once; refusals leave the port untouched. *)
From QT Require Import Base.Prelude C19.Model C19.Spec.
Open Scope Z_scope.

Definition ev_time (e : ev) : Z := match e with Sub t _ => t | Fin t => t end.

Lemma task_step_time : forall s t e, due s = Some t -> In e (fst (task_step s)) -> ev_time e = t.
Proof.
  intros [g sd c tk] t e. unfold due, task_step, fire. cbn [s_task s_gen s_def s_counter].
  destruct tk as [t0|i w|]; intros [= <-].
  - destruct (_ <? _)%nat; [|destruct (_ && _)]; cbn [fst In]; intuition (subst; reflexivity).
  - destruct (S i <? nvals sd)%nat; [|cbn [fst In]; tauto].
    destruct (_ <? _)%nat; [|destruct (_ && _)]; cbn [fst In]; intuition (subst; reflexivity).
Qed.

Lemma task_step_gen : forall s s', snd (task_step s) = Some s' -> s_gen s' = s_gen s.
Proof.
  intros [g sd c tk] s'. unfold task_step, fire. cbn [s_task s_gen s_def s_counter].
  destruct tk as [t0|i w|].
  - destruct (_ <? _)%nat; [|destruct (_ && _)]; cbn [snd]; intros [= <-]; reflexivity.
  - destruct (S i <? nvals sd)%nat.
    + destruct (_ <? _)%nat; [|destruct (_ && _)]; cbn [snd]; intros [= <-]; reflexivity.
    + cbn [snd]; intros [= <-]; reflexivity.
  - cbn [snd]; intros [= <-]; reflexivity.
Qed.

(* an event of generation g at a time allowed before a command at [at_] placed after [pos] steps of that instant *)
Definition before_cmd (g at_ : Z) (pos : nat) (m : mev) : Prop :=
  match m with
  | MSub g' t _ | MFin g' t => g' = g /\ (t < at_ \/ (t = at_ /\ (0 < pos)%nat))
  | _ => False
  end.

Definition gen_is (g : Z) (p : port) : Prop := forall s, p_seq p = Some s -> s_gen s = g.
Definition same_flags (p p' : port) : Prop :=
  p_enabled p' = p_enabled p /\ p_writable p' = p_writable p /\ p_expr p' = p_expr p.

Lemma run_until_events : forall fuel p at_ pos g, gen_is g p ->
  (forall m, In m (fst (run_until fuel p at_ pos)) -> before_cmd g at_ pos m) /\
  gen_is g (snd (run_until fuel p at_ pos)) /\ same_flags p (snd (run_until fuel p at_ pos)).
Proof.
  induction fuel as [|f IH]; intros p at_ pos g Hg.
  - cbn. repeat split; auto. intros m [].
  - cbn [run_until]. destruct (p_seq p) as [s|] eqn:Es; [|cbn; repeat split; auto; intros m []].
    destruct (due s) as [t|] eqn:Ed; [|cbn; repeat split; auto; intros m []].
    assert (Hgs : s_gen s = g) by (apply Hg; exact Es).
    assert (Hstep : forall pos' : nat, (pos' <= pos)%nat /\ (t < at_ \/ (t = at_ /\ (pos' < pos)%nat)) ->
      let '(e, s') := task_step s in
      let '(l, p') := run_until f (set_seq p s') at_ pos' in
      (forall m, In m (map (tag (s_gen s)) e ++ l) -> before_cmd g at_ pos m) /\ gen_is g p' /\ same_flags p p').
    { intros pos' [Hle Ht]. destruct (task_step s) as [e s'] eqn:TS.
      assert (Hg' : gen_is g (set_seq p s')).
      { intros s2 H2. cbn in H2. subst s'. rewrite (task_step_gen s s2); [exact Hgs | now rewrite TS]. }
      destruct (IH (set_seq p s') at_ pos' g Hg') as (A & B & C).
      destruct (run_until f (set_seq p s') at_ pos') as [l p'] eqn:RU. cbn [fst snd] in *.
      repeat split; try exact B; try apply C.
      intros m Hm. apply in_app_or in Hm as [Hm|Hm].
      - apply in_map_iff in Hm as (e0 & <- & He0).
        assert (ev_time e0 = t) by (apply (task_step_time s); [exact Ed | now rewrite TS]).
        destruct e0; cbn in *; subst; split; auto; lia.
      - specialize (A m Hm). destruct m; cbn in *; try tauto. all: destruct A as [-> A]; split; auto; lia. }
    destruct (t <? at_) eqn:Elt.
    + apply Z.ltb_lt in Elt. specialize (Hstep pos (conj (Nat.le_refl pos) (or_introl Elt))).
      destruct (task_step s) as [e s']. destruct (run_until f (set_seq p s') at_ pos) as [l p']. exact Hstep.
    + destruct (t =? at_) eqn:Eeq; [|cbn; repeat split; auto; intros m []].
      apply Z.eqb_eq in Eeq. destruct pos as [|pos']; [cbn; repeat split; auto; intros m []|].
      assert (Ht : (pos' <= S pos')%nat /\ (t < at_ \/ t = at_ /\ (pos' < S pos')%nat)) by (split; [lia | right; split; [exact Eeq | lia]]).
      specialize (Hstep pos' Ht).
      destruct (task_step s) as [e s']. destruct (run_until f (set_seq p s') at_ pos') as [l p']. exact Hstep.
Qed.

(* the requests that cancel a running sequence *)
Definition cancelling (c : cmd) : Prop :=
  match c with
  | CNone => False
  | CSeq sd => List.length (sd_vals sd) = List.length (sd_delays sd)
  | CExpr | CNoExpr | CDisable => True
  end.

Definition admits (p : port) : Prop := p_enabled p = true /\ p_writable p = true /\ p_expr p = false.

Lemma exec_cancels : forall c p now, cancelling c -> admits p ->
  exists p', exec true c p now = (OOk, p') /\ gen_is 1 p'.
Proof.
  intros c p now Hc (He & Hw & Hx).
  destruct c as [|sd| | |]; cbn [cancelling] in Hc; try tauto; unfold exec; cbn [exec_g]; unfold patch, set_sequence, cancel_then;
    rewrite ?Hc, ?Nat.eqb_refl, ?He, ?Hw, ?Hx; cbn [negb];
    destruct (p_seq p) as [s|] eqn:Es; try (unfold cancel; destruct (s_task s)); try destruct (sd_vals sd);
    eexists; (split; [reflexivity|]); intros s0 H0; cbn in H0; rewrite ?Es in H0; try discriminate;
    injection H0 as <-; reflexivity.
Qed.

Lemma patch_accepted : forall guard g p sd now, admits p -> p_seq p = None ->
  List.length (sd_vals sd) = List.length (sd_delays sd) ->
  patch guard g p sd now =
    (OOk, match sd_vals sd with [] => p | _ => set_seq p (Some (SeqSt g sd 0 (TFresh now))) end).
Proof.
  intros guard g p sd now (He & Hw & Hx) Hs Hl. unfold patch, set_sequence, cancel_then.
  rewrite Hl, Nat.eqb_refl, He, Hw, Hx, Hs. cbn [negb]. destruct p as [e w x q]. cbn in Hs. subst q.
  destruct (sd_vals sd); reflexivity.
Qed.

Definition after_cmd (m : mev) : Prop :=
  match m with MSub g _ _ | MFin g _ => g = 1 | ME _ _ => True | _ => False end.

(* C19_cancel_immediate *)
Theorem cancel_immediate : forall fuel sc,
  sc_enabled sc = true -> sc_writable sc = true -> sc_expr sc = false ->
  List.length (sd_vals (sc_seq sc)) = List.length (sd_delays (sc_seq sc)) ->
  cancelling (sc_cmd sc) -> sc_at sc <= sc_horizon sc ->
  exists a0 l1 a td a' l2,
    sim true fuel sc = MP OOk a0 :: l1 ++ [MC (sc_at sc) a; MD td OOk a'] ++ l2 /\
    sc_at sc <= td <= sc_at sc + dpos (sc_dlat sc) /\
    (forall m, In m l1 -> before_cmd 0 (sc_at sc) (sc_pos sc) m) /\
    (forall m, In m l2 -> after_cmd m).
Proof.
  intros fuel sc He Hw Hx Hl Hc Hat. unfold sim.
  set (p0 := Port (sc_enabled sc) (sc_writable sc) (sc_expr sc) None).
  assert (Hadm : admits p0) by (repeat split; assumption).
  rewrite (patch_accepted true 0 p0 (sc_seq sc) 0 Hadm eq_refl Hl).
  set (p1 := match sd_vals (sc_seq sc) with [] => p0 | _ => _ end).
  assert (Hg1 : gen_is 0 p1).
  { subst p1. destruct (sd_vals (sc_seq sc)); intros s Hs; cbn in Hs; [discriminate|]. now injection Hs as <-. }
  assert (Hf1 : same_flags p0 p1) by (subst p1; destruct (sd_vals (sc_seq sc)); repeat split).
  replace (no_cmd (sc_cmd sc)) with false by (destruct (sc_cmd sc); cbn in Hc; tauto || reflexivity).
  replace (sc_horizon sc <? sc_at sc) with false by (symmetry; apply Z.ltb_ge; exact Hat).
  cbn [orb].
  destruct (run_until_events fuel p1 (sc_at sc) (sc_pos sc) 0 Hg1) as (A & B & C).
  destruct (run_until fuel p1 (sc_at sc) (sc_pos sc)) as [l1 p2]. cbn [fst snd] in *.
  assert (Hadm2 : admits p2).
  { destruct C as (C1 & C2 & C3), Hf1 as (F1 & F2 & F3), Hadm as (H1 & H2 & H3).
    repeat split; congruence. }
  destruct (exec_cancels (sc_cmd sc) p2 (sc_at sc) Hc Hadm2) as (p3 & -> & Hg3).
  destruct (run_until_events fuel p3 (sc_horizon sc + 1) 0 1 Hg3) as (A2 & _ & _).
  destruct (run_until fuel p3 (sc_horizon sc + 1) 0) as [l2 p4]. cbn [fst snd] in *.
  exists (is_active p1), l1, (is_active p2), (sc_at sc + hook_latency sc p2), (is_active p3),
         (l2 ++ [ME (sc_horizon sc) (is_active p4)]).
  split; [reflexivity|]. split.
  { unfold hook_latency, dpos. destruct (sc_cmd sc); try lia. destruct (p_enabled p2); lia. }
  split; [exact A|].
  intros m Hm. apply in_app_or in Hm as [Hm|[<-|[]]]; [|exact I].
  specialize (A2 m Hm). destruct m; cbn in *; tauto.
Qed.

(* which side of an exact tie wins: a command ordered before the task step due at the same instant (pos = 0) sees
   nothing submitted at that instant — the wake-up is delivered as CancelledError *)
Corollary cancel_wins_tie : forall g at_ m, before_cmd g at_ 0 m ->
  match m with MSub _ t _ | MFin _ t => t < at_ | _ => False end.
Proof. intros g at_ m. destruct m; cbn; try tauto; intros [_ [H|[_ H]]]; [exact H | lia | exact H | lia]. Qed.

(* ------------------------------------------------------------------------------------------------------------ *)
(* refusals *)

Definition refusal (p : port) (sd : seqdef) : option outcome :=
  if negb (List.length (sd_vals sd) =? List.length (sd_delays sd))%nat then Some OBadDelays
  else if negb (p_enabled p) then Some ODisabled
  else if negb (p_writable p) then Some OReadOnly
  else if p_expr p then Some OHasExpr
  else None.

Theorem patch_refused : forall guard g p sd now o, refusal p sd = Some o ->
  patch guard g p sd now = (o, p) /\ o <> OOk.
Proof.
  intros guard g p sd now o. unfold refusal, patch.
  destruct (negb (_ =? _)%nat); [intros [= <-]; split; [reflexivity|discriminate]|].
  destruct (negb (p_enabled p)); [intros [= <-]; split; [reflexivity|discriminate]|].
  destruct (negb (p_writable p)); [intros [= <-]; split; [reflexivity|discriminate]|].
  destruct (p_expr p); [intros [= <-]; split; [reflexivity|discriminate]|]. discriminate.
Qed.

Lemma refusal_cases : forall p sd,
  p_enabled p = false \/ p_writable p = false \/ p_expr p = true \/
  List.length (sd_vals sd) <> List.length (sd_delays sd) -> exists o, refusal p sd = Some o.
Proof.
  intros p sd H. unfold refusal.
  destruct (List.length (sd_vals sd) =? List.length (sd_delays sd))%nat eqn:E; cbn [negb]; [|eauto].
  apply Nat.eqb_eq in E. destruct (p_enabled p); cbn [negb]; [|eauto].
  destruct (p_writable p); cbn [negb]; [|eauto]. destruct (p_expr p); [eauto|].
  destruct H as [H|[H|[H|H]]]; try discriminate. contradiction.
Qed.

Lemma run_until_idle : forall fuel p at_ pos, p_seq p = None -> run_until fuel p at_ pos = ([], p).
Proof. intros [|f] p at_ pos H; cbn; [reflexivity | now rewrite H]. Qed.

(* a refused first request: nothing is ever submitted, no sequence is ever reported active *)
Theorem refused_scenario : forall guard fuel sc o,
  refusal (Port (sc_enabled sc) (sc_writable sc) (sc_expr sc) None) (sc_seq sc) = Some o -> sc_cmd sc = CNone ->
  sim guard fuel sc = [MP o false; ME (sc_horizon sc) false] /\ o <> OOk.
Proof.
  intros guard fuel sc o Hr Hc. unfold sim.
  destruct (patch_refused guard 0 _ (sc_seq sc) 0 o Hr) as [-> Ho]. rewrite Hc. cbn [no_cmd orb].
  rewrite run_until_idle by reflexivity. split; [reflexivity | exact Ho].
Qed.

(* ------------------------------------------------------------------------------------------------------------ *)
(* two concurrent commands (Model.sim2, the code with fixes/C19-concurrent-cancel.diff): whatever the two commands are and
   wherever they fall, everything submitted after both have returned belongs to ONE sequence generation — the port never
   plays two sequences, none is left playing unreferenced *)

Lemma last_app_ne : forall {A} (a b : list A) d, b <> [] -> last (a ++ b) d = last b d.
Proof.
  intros A a b d Hb. induction a as [|x a IH]; [reflexivity|]. cbn [app].
  destruct (a ++ b) as [|y r] eqn:E. { apply app_eq_nil in E as [_ E]. contradiction. }
  change (last (x :: y :: r) d) with (last (y :: r) d). exact IH.
Qed.

Lemma gen_exists : forall p, exists g, gen_is g p.
Proof.
  intros p. destruct (p_seq p) as [s|] eqn:E.
  - exists (s_gen s). intros s' H. rewrite E in H. now injection H as <-.
  - exists 0. intros s' H. rewrite E in H. discriminate.
Qed.

Theorem pair_single_survivor : forall fuel sc c2,
  exists pre l2 a g,
    sim2 fuel sc c2 = pre ++ map M1 l2 ++ [M1 (ME (sc_horizon sc) a)] /\
    (exists t o b, last pre (MD2 0 OOk false) = MD2 t o b \/ last pre (MD2 0 OOk false) = M1 (MD t o b)) /\
    (forall m, In m l2 -> before_cmd g (sc_horizon sc + 1) 0 m).
Proof.
  intros fuel sc c2. unfold sim2.
  destruct (patch true 0 _ (sc_seq sc) 0) as [o0 p1].
  destruct (run_until fuel p1 (sc_at sc) (sc_pos sc)) as [l1 p2].
  set (mp := match cmd_start 1 (sc_cmd sc) p2 (sc_at sc) with inl _ => _ | inr _ => _ end).
  assert (Hmid : exists m0 t o b, fst mp = m0 /\ (last m0 (MD2 0 OOk false) = MD2 t o b \/ last m0 (MD2 0 OOk false) = M1 (MD t o b))
                                  /\ m0 <> []).
  { subst mp. destruct (cmd_start 1 (sc_cmd sc) p2 (sc_at sc)) as [[o1 p3]|p3].
    - destruct (cmd_start 2 c2 p3 (sc_at sc)) as [[o2 p4]|p4].
      + eexists _, _, _, _. split; [reflexivity|]. split; [left; reflexivity | discriminate].
      + destruct (resume_body 2 c2 p4 (sc_at sc)) as [o2 p5].
        eexists _, _, _, _. split; [reflexivity|]. split; [left; reflexivity | discriminate].
    - destruct (exec_g true 2 c2 p3 (sc_at sc)) as [o2 p4].
      destruct (resume_body 1 (sc_cmd sc) (set_seq p4 None) (sc_at sc)) as [o1 p5].
      eexists _, _, _, _. split; [reflexivity|]. split.
      + right. cbn [fst]. rewrite app_assoc. apply last_last.
      + cbn [fst app]. discriminate. }
  destruct mp as [mid pend]. cbn [fst] in Hmid. destruct Hmid as (m0 & t & o & b & <- & Hlast & Hne).
  destruct (gen_exists pend) as [g Hg].
  destruct (run_until_events fuel pend (sc_horizon sc + 1) 0 g Hg) as (A & _ & _).
  destruct (run_until fuel pend (sc_horizon sc + 1) 0) as [l2 p6]. cbn [fst] in A.
  exists (M1 (MP o0 (is_active p1)) :: map M1 l1 ++ [M1 (MC (sc_at sc) (is_active p2))] ++ mid), l2, (is_active p6), g.
  split; [cbn [app]; now rewrite <- !app_assoc|]. split; [|exact A].
  exists t, o, b.
  replace (M1 (MP o0 (is_active p1)) :: map M1 l1 ++ [M1 (MC (sc_at sc) (is_active p2))] ++ mid)
    with ((M1 (MP o0 (is_active p1)) :: map M1 l1 ++ [M1 (MC (sc_at sc) (is_active p2))]) ++ mid)
    by (cbn [app]; now rewrite <- app_assoc).
  rewrite last_app_ne by exact Hne. exact Hlast.
Qed.
