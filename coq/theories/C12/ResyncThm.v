(* C12 — a full resynchronisation (fetch_and_update_ports on the answer of GET /ports) makes the mirror equal to the
   slave; plus the pointwise lemmas on find_port / find_sport that MirrorThm.v and OrderThm.v share. *)
From QT Require Import C12.Mirror C12.Spec.
Open Scope string_scope.

(* ------------------------------------------------------------------------------------------------------------------ *)
(* val_eqb is equality *)

Lemma val_eqb_refl : forall v, val_eqb v v = true.
Proof.
  destruct v; cbn.
  - reflexivity.
  - destruct b; reflexivity.
  - apply Z.eqb_refl.
  - apply String.eqb_refl.
  - apply Z.eqb_refl.
Qed.

Lemma val_eqb_eq : forall a b, val_eqb a b = true <-> a = b.
Proof.
  intros a b; split.
  - destruct a, b; cbn; intro H; try discriminate; try reflexivity.
    + apply Bool.eqb_prop in H. congruence.
    + apply Z.eqb_eq in H. congruence.
    + apply String.eqb_eq in H. congruence.
    + apply Z.eqb_eq in H. congruence.
  - intros ->. apply val_eqb_refl.
Qed.

(* ------------------------------------------------------------------------------------------------------------------ *)
(* dicts *)

Lemma lookup_remove_key : forall n k a, n <> k -> lookup n (remove_key k a) = lookup n a.
Proof.
  intros n k a Hn. unfold remove_key.
  induction a as [|[k' v] r IH]; [reflexivity|].
  cbn [filter fst]. destruct (String.eqb k k') eqn:E; cbn [negb lookup].
  - apply String.eqb_eq in E. subst k'.
    destruct (String.eqb n k) eqn:E2; [apply String.eqb_eq in E2; contradiction|]. exact IH.
  - rewrite IH. reflexivity.
Qed.

Lemma get_remove_key : forall n k a, n <> k -> get n (remove_key k a) = get n a.
Proof. intros. unfold get. rewrite lookup_remove_key by assumption. reflexivity. Qed.

Lemma id_of_remove_value : forall a, id_of (remove_key "value" a) = id_of a.
Proof. intros. unfold id_of. rewrite get_remove_key by discriminate. reflexivity. Qed.

Lemma mem_In : forall n l, mem n l = true <-> In n l.
Proof.
  intros n l. unfold mem. rewrite existsb_exists. split.
  - intros [x [Hx E]]. apply String.eqb_eq in E. subst. assumption.
  - intros H. exists n. split; [assumption|apply String.eqb_refl].
Qed.

Lemma mem_false : forall n l, mem n l = false <-> ~ In n l.
Proof.
  intros n l. rewrite <- mem_In. destruct (mem n l); split; intros; congruence.
Qed.

(* ------------------------------------------------------------------------------------------------------------------ *)
(* mp_id is never changed *)

Lemma mp_id_update_cached : forall a p, mp_id (update_cached a p) = mp_id p.
Proof. intros. unfold update_cached. destruct (lookup "value" a); reflexivity. Qed.

Lemma mp_id_update_enabled : forall r aux p, mp_id (update_enabled r aux p) = mp_id p.
Proof.
  intros. unfold update_enabled.
  destruct (truthy (get "enabled" (mp_cached p)) && negb (mp_enabled p)).
  - destruct r; [|reflexivity]. destruct aux as [v|]; [|reflexivity]. destruct (is_none v); reflexivity.
  - destruct (negb (truthy (get "enabled" (mp_cached p))) && mp_enabled p); reflexivity.
Qed.

Lemma mp_id_port_update_on : forall c r a aux p, mp_id (port_update_on c r a aux p) = mp_id p.
Proof. intros. unfold port_update_on. rewrite mp_id_update_enabled, mp_id_update_cached. reflexivity. Qed.

Lemma mp_id_new_port : forall r aux id a, mp_id (new_port r aux id a) = id.
Proof. intros. unfold new_port. rewrite mp_id_update_enabled, mp_id_update_cached. reflexivity. Qed.

Lemma mp_id_tick_port : forall p, mp_id (tick_port p) = mp_id p.
Proof. intros. unfold tick_port. destruct (mp_enabled p); [|reflexivity]. destruct (mp_queue p); reflexivity. Qed.

(* ------------------------------------------------------------------------------------------------------------------ *)
(* find_port, pointwise *)

Lemma find_port_upd : forall id id' f ps, (forall p, mp_id (f p) = mp_id p) ->
  find_port id (upd_port id' f ps) =
  if String.eqb id id' then option_map f (find_port id ps) else find_port id ps.
Proof.
  intros id id' f ps Hf. induction ps as [|p r IH]; cbn [upd_port find_port].
  - destruct (String.eqb id id'); reflexivity.
  - destruct (String.eqb id' (mp_id p)) eqn:E1.
    + apply String.eqb_eq in E1. subst id'. cbn [find_port]. rewrite Hf.
      destruct (String.eqb id (mp_id p)) eqn:E2; reflexivity.
    + cbn [find_port]. destruct (String.eqb id (mp_id p)) eqn:E2.
      * apply String.eqb_eq in E2. subst id. rewrite String.eqb_sym, E1. reflexivity.
      * exact IH.
Qed.

Lemma find_port_upd_same : forall id f ps, (forall p, mp_id (f p) = mp_id p) ->
  find_port id (upd_port id f ps) = option_map f (find_port id ps).
Proof. intros. rewrite find_port_upd by assumption. rewrite String.eqb_refl. reflexivity. Qed.

Lemma find_port_upd_other : forall id id' f ps, (forall p, mp_id (f p) = mp_id p) -> id <> id' ->
  find_port id (upd_port id' f ps) = find_port id ps.
Proof.
  intros. rewrite find_port_upd by assumption.
  destruct (String.eqb id id') eqn:E; [apply String.eqb_eq in E; contradiction|reflexivity].
Qed.

Lemma ids_upd : forall id f ps, (forall p, mp_id (f p) = mp_id p) -> ids (upd_port id f ps) = ids ps.
Proof.
  intros id f ps Hf. unfold ids. induction ps as [|p r IH]; [reflexivity|]. cbn [upd_port].
  destruct (String.eqb id (mp_id p)); cbn [map]; [rewrite Hf|rewrite IH]; reflexivity.
Qed.

Lemma find_port_app : forall id ps qs,
  find_port id (ps ++ qs) = match find_port id ps with Some p => Some p | None => find_port id qs end.
Proof.
  intros. induction ps as [|p r IH]; [reflexivity|]. cbn [app find_port].
  destruct (String.eqb id (mp_id p)); [reflexivity|exact IH].
Qed.

Lemma find_port_filter : forall id (f : mport -> bool) (g : string -> bool) ps, (forall p, f p = g (mp_id p)) ->
  find_port id (filter f ps) = if g id then find_port id ps else None.
Proof.
  intros id f g ps Hf. induction ps as [|p r IH]; cbn [filter find_port].
  - destruct (g id); reflexivity.
  - rewrite Hf. destruct (g (mp_id p)) eqn:G; cbn [find_port]; destruct (String.eqb id (mp_id p)) eqn:E.
    + apply String.eqb_eq in E. subst id. rewrite G. reflexivity.
    + exact IH.
    + apply String.eqb_eq in E. subst id. rewrite IH, G. reflexivity.
    + exact IH.
Qed.

Lemma find_port_del : forall id id' ps,
  find_port id (del_port id' ps) = if String.eqb id id' then None else find_port id ps.
Proof.
  intros. unfold del_port.
  rewrite (find_port_filter id _ (fun i => negb (String.eqb id' i))) by reflexivity.
  rewrite (String.eqb_sym id' id). destruct (String.eqb id id'); reflexivity.
Qed.

Lemma find_port_map : forall id f ps, (forall p, mp_id (f p) = mp_id p) ->
  find_port id (map f ps) = option_map f (find_port id ps).
Proof.
  intros id f ps Hf. induction ps as [|p r IH]; [reflexivity|]. cbn [map find_port]. rewrite Hf.
  destruct (String.eqb id (mp_id p)); [reflexivity|exact IH].
Qed.

Lemma find_port_some : forall id ps p, find_port id ps = Some p -> In p ps /\ mp_id p = id.
Proof.
  intros id ps p. induction ps as [|q r IH]; cbn [find_port]; [discriminate|].
  destruct (String.eqb id (mp_id q)) eqn:E.
  - intros H. injection H as <-. apply String.eqb_eq in E. split; [left; reflexivity|congruence].
  - intros H. destruct (IH H). split; [right; assumption|assumption].
Qed.

Lemma find_port_none : forall id ps, find_port id ps = None <-> ~ In id (ids ps).
Proof.
  intros id ps. unfold ids. induction ps as [|q r IH]; cbn [find_port map In].
  - split; auto.
  - destruct (String.eqb id (mp_id q)) eqn:E.
    + apply String.eqb_eq in E. split; [discriminate|]. intros H. exfalso. apply H. left. congruence.
    + apply String.eqb_neq in E. rewrite IH. split.
      * intros H [H1|H1]; [congruence|auto].
      * intros H H1. apply H. right. assumption.
Qed.

Lemma ids_filter : forall (f : mport -> bool) (g : string -> bool) ps, (forall p, f p = g (mp_id p)) ->
  ids (filter f ps) = filter g (ids ps).
Proof.
  intros f g ps Hf. unfold ids. induction ps as [|p r IH]; [reflexivity|]. cbn [filter map]. rewrite Hf.
  destruct (g (mp_id p)); cbn [map]; rewrite IH; reflexivity.
Qed.

(* ------------------------------------------------------------------------------------------------------------------ *)
(* find_sport, pointwise *)

Lemma sp_has_id_true : forall id sp, sp_has_id id sp = true <-> id_of (sp_attrs sp) = Some id.
Proof.
  intros. unfold sp_has_id. destruct (id_of (sp_attrs sp)) as [i|].
  - rewrite String.eqb_eq. split; congruence.
  - split; discriminate.
Qed.

Lemma sp_has_id_json : forall id a, sp_has_id id (sport_of_json a) = true <-> id_of a = Some id.
Proof. intros. rewrite sp_has_id_true. cbn [sport_of_json sp_attrs]. rewrite id_of_remove_value. reflexivity. Qed.

(* two ids of the same port are the same id *)
Lemma sp_has_id_two : forall id id' sp, sp_has_id id' sp = true -> sp_has_id id sp = String.eqb id id'.
Proof.
  intros id id' sp H. apply sp_has_id_true in H. unfold sp_has_id. rewrite H. reflexivity.
Qed.

Lemma find_sport_upd : forall id id' f l,
  (forall sp, sp_has_id id' sp = true -> sp_has_id id' (f sp) = true) ->
  find_sport id (upd_sport id' f l) =
  if String.eqb id id' then option_map f (find_sport id l) else find_sport id l.
Proof.
  intros id id' f l Hf. induction l as [|sp r IH]; cbn [upd_sport find_sport].
  - destruct (String.eqb id id'); reflexivity.
  - destruct (sp_has_id id' sp) eqn:E1.
    + cbn [find_sport]. rewrite (sp_has_id_two id id' (f sp)) by (apply Hf; assumption).
      rewrite (sp_has_id_two id id' sp) by assumption.
      destruct (String.eqb id id'); reflexivity.
    + cbn [find_sport]. destruct (sp_has_id id sp) eqn:E2.
      * destruct (String.eqb id id') eqn:E3; [|reflexivity].
        apply String.eqb_eq in E3. subst id'. congruence.
      * exact IH.
Qed.

Lemma find_sport_app : forall id l l',
  find_sport id (l ++ l') = match find_sport id l with Some sp => Some sp | None => find_sport id l' end.
Proof.
  intros. induction l as [|sp r IH]; [reflexivity|]. cbn [app find_sport].
  destruct (sp_has_id id sp); [reflexivity|exact IH].
Qed.

Lemma find_sport_remove : forall id id' l,
  find_sport id (filter (fun sp => negb (sp_has_id id' sp)) l) =
  if String.eqb id id' then None else find_sport id l.
Proof.
  intros. induction l as [|sp r IH]; cbn [filter find_sport].
  - destruct (String.eqb id id'); reflexivity.
  - destruct (sp_has_id id' sp) eqn:E1; cbn [negb find_sport].
    + rewrite (sp_has_id_two id id' sp) by assumption. rewrite IH.
      destruct (String.eqb id id'); reflexivity.
    + destruct (sp_has_id id sp) eqn:E2; [|exact IH].
      destruct (String.eqb id id') eqn:E3; [|reflexivity].
      apply String.eqb_eq in E3. subst id'. congruence.
Qed.

(* the slave's ports after a GET /ports answer *)
Definition sports_of (ports : list (attrs * option val)) : list sport := map (fun x => sport_of_json (fst x)) ports.

Lemma find_sport_json_some : forall id ports sp,
  find_sport id (sports_of ports) = Some sp ->
  exists l1 x l2, ports = (l1 ++ x :: l2)%list /\ ~ In (Some id) (json_ids l1) /\ id_of (fst x) = Some id /\
                  sp = sport_of_json (fst x).
Proof.
  intros id ports sp. unfold sports_of. induction ports as [|x r IH]; cbn [map find_sport]; [discriminate|].
  destruct (sp_has_id id (sport_of_json (fst x))) eqn:E.
  - intros H. injection H as <-. apply sp_has_id_json in E.
    exists [], x, r. repeat split; auto.
  - intros H. destruct (IH H) as (l1 & y & l2 & -> & Hn & Hy & Hsp).
    exists (x :: l1), y, l2. repeat split; auto.
    cbn [json_ids map In]. intros [H1|H1]; [|apply Hn; exact H1].
    apply sp_has_id_json in H1. congruence.
Qed.

Lemma find_sport_json_none : forall id ports,
  find_sport id (sports_of ports) = None <-> ~ In (Some id) (json_ids ports).
Proof.
  intros id ports. unfold sports_of, json_ids. induction ports as [|x r IH]; cbn [map find_sport In].
  - split; auto.
  - destruct (sp_has_id id (sport_of_json (fst x))) eqn:E.
    + apply sp_has_id_json in E. split; [discriminate|]. intros H. exfalso. apply H. left. assumption.
    + rewrite IH. split.
      * intros H [H1|H1]; [|auto]. apply sp_has_id_json in H1. congruence.
      * intros H H1. apply H. right. assumption.
Qed.

(* ------------------------------------------------------------------------------------------------------------------ *)
(* what a port update does to a port with nothing pending *)

Lemma port_update_dict_nopending : forall c p a, mp_prov p = [] -> port_update_dict c p a = a.
Proof.
  intros c p a H. unfold port_update_dict, prov_value. rewrite H.
  destruct (port_update_keeps_pending c); reflexivity.
Qed.

Lemma last_remote_push : forall v p, last_remote (push v p) = v.
Proof. intros. unfold last_remote, push, with_queue. cbn [mp_queue mp_cached_value]. apply last_last. Qed.

Lemma update_cached_facts : forall a p,
  let p1 := update_cached a p in
  mp_cached p1 = remove_key "value" a /\
  last_remote p1 = match lookup "value" a with Some v => v | None => last_remote p end /\
  mp_enabled p1 = mp_enabled p /\ mp_prov p1 = mp_prov p.
Proof.
  intros a p. unfold update_cached. destruct (lookup "value" a) as [v|].
  - cbn zeta. rewrite last_remote_push. repeat split; reflexivity.
  - repeat split; reflexivity.
Qed.

Lemma update_enabled_facts : forall r aux p,
  let p1 := update_enabled r aux p in
  mp_cached p1 = mp_cached p /\ mp_prov p1 = mp_prov p /\
  mp_enabled p1 = truthy (get "enabled" (mp_cached p)) /\
  (last_remote p1 = last_remote p \/ exists v, aux = Some v /\ is_none v = false /\ last_remote p1 = v).
Proof.
  intros r aux p. unfold update_enabled.
  destruct (truthy (get "enabled" (mp_cached p))) eqn:W; destruct (mp_enabled p) eqn:En; cbn [andb negb].
  - cbn zeta. rewrite En. repeat split; auto.
  - destruct r; [|repeat split; auto].
    destruct aux as [v|]; [|repeat split; auto].
    destruct (is_none v) eqn:N; [repeat split; auto|].
    cbn zeta. rewrite last_remote_push. repeat split; auto. right. exists v. auto.
  - repeat split; auto.
  - cbn zeta. rewrite En. repeat split; auto.
Qed.

(* the port after a port update (or a new port) against the slave's port after the same update *)
Lemma port_rel_update : forall c ready a aux p nv,
  mp_prov p = [] ->
  nv = match lookup "value" a with Some v => v | None => last_remote p end ->
  (forall v, aux = Some v -> v = VNone \/ v = nv) ->
  port_rel (port_update_on c ready a aux p) (mk_sport (remove_key "value" a) nv).
Proof.
  intros c ready a aux p nv Hp Hnv Haux. unfold port_update_on. rewrite port_update_dict_nopending by assumption.
  destruct (update_cached_facts a p) as (C1 & L1 & _ & P1).
  destruct (update_enabled_facts ready aux (update_cached a p)) as (C2 & P2 & E2 & L2).
  unfold port_rel. cbn [sp_attrs sp_value]. repeat split.
  - congruence.
  - destruct L2 as [L2|(v & Hv & Nv & L2)].
    + congruence.
    + destruct (Haux v Hv) as [->| ->]; [discriminate|assumption].
  - rewrite E2, C1. reflexivity.
  - congruence.
Qed.

Lemma new_port_as_update : forall c ready aux id a,
  new_port ready aux id a =
  port_update_on c ready a aux (mk_mport id [] [] VNone false VNone [] [("tag", VS "")] []).
Proof.
  intros. unfold new_port, port_update_on. rewrite port_update_dict_nopending by reflexivity. reflexivity.
Qed.

Lemma get_value_lookup : forall a (d : val), has_key "value" a = true ->
  get "value" a = match lookup "value" a with Some v => v | None => d end.
Proof. intros a d. unfold has_key, get. destruct (lookup "value" a); [reflexivity|discriminate]. Qed.

(* ------------------------------------------------------------------------------------------------------------------ *)
(* the handlers, pointwise *)

Lemma hpu_frame : forall c a aux m, let m' := fst (handle_port_update c a aux m) in
  m_dev m' = m_dev m /\ m_dev_prov m' = m_dev_prov m /\ m_ready m' = m_ready m /\ m_online m' = m_online m /\
  ids (m_ports m') = ids (m_ports m).
Proof.
  intros. subst m'. unfold handle_port_update.
  destruct (id_of a) as [id|]; [|repeat split; reflexivity].
  destruct (find_port id (m_ports m)); [|repeat split; reflexivity].
  cbn [fst set_ports m_dev m_dev_prov m_ready m_online m_ports]. repeat split; try reflexivity.
  apply ids_upd. intros. apply mp_id_port_update_on.
Qed.

Lemma hpu_same : forall c a aux m id, id_of a = Some id ->
  find_port id (m_ports (fst (handle_port_update c a aux m))) =
  option_map (port_update_on c (m_ready m) a aux) (find_port id (m_ports m)).
Proof.
  intros c a aux m id H. unfold handle_port_update. rewrite H.
  destruct (find_port id (m_ports m)) as [p|] eqn:F; cbn [fst]; [|rewrite F; reflexivity].
  cbn [set_ports m_ports]. rewrite find_port_upd_same by (intros; apply mp_id_port_update_on). rewrite F. reflexivity.
Qed.

Lemma hpu_other : forall c a aux m id, id_of a <> Some id ->
  find_port id (m_ports (fst (handle_port_update c a aux m))) = find_port id (m_ports m).
Proof.
  intros c a aux m id H. unfold handle_port_update.
  destruct (id_of a) as [id'|]; [|reflexivity].
  destruct (find_port id' (m_ports m)); [|reflexivity].
  cbn [fst set_ports m_ports]. apply find_port_upd_other; [intros; apply mp_id_port_update_on|congruence].
Qed.

Lemma hpa_frame : forall a aux m, let m' := fst (handle_port_add a aux m) in
  m_dev m' = m_dev m /\ m_dev_prov m' = m_dev_prov m /\ m_ready m' = m_ready m /\ m_online m' = m_online m.
Proof.
  intros. subst m'. unfold handle_port_add.
  destruct (id_of a) as [id|]; [|repeat split; reflexivity].
  destruct (find_port id (m_ports m)); repeat split; reflexivity.
Qed.

Lemma hpa_new : forall a aux m id, id_of a = Some id -> find_port id (m_ports m) = None ->
  find_port id (m_ports (fst (handle_port_add a aux m))) = Some (new_port (m_ready m) aux id a).
Proof.
  intros a aux m id H F. unfold handle_port_add. rewrite H, F. cbn [fst set_ports m_ports].
  rewrite find_port_app, F. cbn [find_port]. rewrite mp_id_new_port, String.eqb_refl. reflexivity.
Qed.

Lemma hpa_old : forall a aux m id p, id_of a = Some id -> find_port id (m_ports m) = Some p ->
  fst (handle_port_add a aux m) = m.
Proof. intros a aux m id p H F. unfold handle_port_add. rewrite H, F. reflexivity. Qed.

Lemma hpa_other : forall a aux m id, id_of a <> Some id ->
  find_port id (m_ports (fst (handle_port_add a aux m))) = find_port id (m_ports m).
Proof.
  intros a aux m id H. unfold handle_port_add.
  destruct (id_of a) as [id'|]; [|reflexivity].
  destruct (find_port id' (m_ports m)); [reflexivity|].
  cbn [fst set_ports m_ports]. rewrite find_port_app.
  destruct (find_port id (m_ports m)); [reflexivity|].
  cbn [find_port]. rewrite mp_id_new_port.
  destruct (String.eqb id id') eqn:E; [|reflexivity]. apply String.eqb_eq in E. congruence.
Qed.

Lemma hpa_nodup : forall a aux m, NoDup (ids (m_ports m)) -> NoDup (ids (m_ports (fst (handle_port_add a aux m)))).
Proof.
  intros a aux m H. unfold handle_port_add.
  destruct (id_of a) as [id|]; [|exact H].
  destruct (find_port id (m_ports m)) eqn:F; [exact H|].
  cbn [fst set_ports m_ports]. unfold ids. rewrite map_app. cbn [map]. rewrite mp_id_new_port.
  apply find_port_none in F.
  apply NoDup_rev in H. rewrite <- (rev_involutive (map mp_id (m_ports m) ++ [id])).
  apply NoDup_rev. rewrite rev_app_distr. cbn [rev app]. constructor; [|exact H].
  rewrite <- in_rev. exact F.
Qed.

(* ------------------------------------------------------------------------------------------------------------------ *)
(* the two passes of fetch_and_update_ports *)

Definition step_upd (c : cfg) (local : list string) (m : master) (x : attrs * option val) : master :=
  match id_of (fst x) with
  | Some id => if mem id local then fst (handle_port_update c (fst x) (snd x) m) else m
  | None => m
  end.

Definition step_add (local : list string) (m : master) (x : attrs * option val) : master :=
  match id_of (fst x) with
  | Some id => if mem id local then m else fst (handle_port_add (fst x) (snd x) m)
  | None => m
  end.

Definition remote_ids (ports : list (attrs * option val)) : list string :=
  flat_map (fun x => match id_of (fst x) with Some id => [id] | None => [] end) ports.

Lemma fetch_ports_unfold : forall c ports m,
  fetch_ports c ports m =
  let local := ids (m_ports m) in
  let m2 := fold_left (step_add local) ports (fold_left (step_upd c local) ports m) in
  set_ports m2 (filter (fun p => negb (mem (mp_id p) local) || mem (mp_id p) (remote_ids ports)) (m_ports m2)).
Proof. reflexivity. Qed.

Lemma remote_ids_In : forall id ports, In id (remote_ids ports) <-> In (Some id) (json_ids ports).
Proof.
  intros id ports. unfold remote_ids, json_ids. induction ports as [|x r IH]; cbn [flat_map map In]; [tauto|].
  rewrite in_app_iff, IH. destruct (id_of (fst x)) as [i|]; cbn [In].
  - split.
    + intros [[H|[]]|H]; [left; congruence|right; exact H].
    + intros [H|H]; [left; left; congruence|right; exact H].
  - split.
    + intros [[]|H]; right; exact H.
    + intros [H|H]; [discriminate|right; exact H].
Qed.

Definition frame (m m' : master) : Prop :=
  m_dev m' = m_dev m /\ m_dev_prov m' = m_dev_prov m /\ m_ready m' = m_ready m /\ m_online m' = m_online m.

Lemma frame_refl : forall m, frame m m.
Proof. intros; repeat split. Qed.

Lemma frame_trans : forall a b c, frame a b -> frame b c -> frame a c.
Proof. unfold frame. intros a b c (?&?&?&?) (?&?&?&?). repeat split; congruence. Qed.

Lemma step_upd_frame : forall c local m x, frame m (step_upd c local m x) /\
  ids (m_ports (step_upd c local m x)) = ids (m_ports m).
Proof.
  intros. unfold step_upd. destruct (id_of (fst x)) as [id|]; [|split; [apply frame_refl|reflexivity]].
  destruct (mem id local); [|split; [apply frame_refl|reflexivity]].
  destruct (hpu_frame c (fst x) (snd x) m) as (?&?&?&?&?). repeat split; assumption.
Qed.

Lemma step_upd_other : forall c local m x id, id_of (fst x) <> Some id ->
  find_port id (m_ports (step_upd c local m x)) = find_port id (m_ports m).
Proof.
  intros. unfold step_upd. destruct (id_of (fst x)) as [i|] eqn:E; [|reflexivity].
  destruct (mem i local); [|reflexivity]. apply hpu_other. congruence.
Qed.

Lemma fold_upd_frame : forall c local l m, frame m (fold_left (step_upd c local) l m) /\
  ids (m_ports (fold_left (step_upd c local) l m)) = ids (m_ports m).
Proof.
  intros c local l. induction l as [|x r IH]; intros m; cbn [fold_left].
  - split; [apply frame_refl|reflexivity].
  - destruct (IH (step_upd c local m x)) as [F I]. destruct (step_upd_frame c local m x) as [F0 I0].
    split; [eapply frame_trans; eassumption|congruence].
Qed.

Lemma fold_upd_other : forall c local l m id, ~ In (Some id) (json_ids l) ->
  find_port id (m_ports (fold_left (step_upd c local) l m)) = find_port id (m_ports m).
Proof.
  intros c local l. induction l as [|x r IH]; intros m id H; cbn [fold_left]; [reflexivity|].
  cbn [json_ids map In] in H. rewrite IH by (intro; apply H; right; assumption).
  apply step_upd_other. intro. apply H. left. assumption.
Qed.

Lemma step_add_frame : forall local m x, frame m (step_add local m x).
Proof.
  intros. unfold step_add. destruct (id_of (fst x)) as [id|]; [|apply frame_refl].
  destruct (mem id local); [apply frame_refl|]. apply hpa_frame.
Qed.

Lemma step_add_other : forall local m x id, id_of (fst x) <> Some id ->
  find_port id (m_ports (step_add local m x)) = find_port id (m_ports m).
Proof.
  intros. unfold step_add. destruct (id_of (fst x)) as [i|] eqn:E; [|reflexivity].
  destruct (mem i local); [reflexivity|]. apply hpa_other. congruence.
Qed.

Lemma step_add_nodup : forall local m x, NoDup (ids (m_ports m)) -> NoDup (ids (m_ports (step_add local m x))).
Proof.
  intros. unfold step_add. destruct (id_of (fst x)) as [i|]; [|assumption].
  destruct (mem i local); [assumption|]. apply hpa_nodup. assumption.
Qed.

Lemma fold_add_frame : forall local l m, frame m (fold_left (step_add local) l m).
Proof.
  intros local l. induction l as [|x r IH]; intros m; cbn [fold_left]; [apply frame_refl|].
  eapply frame_trans; [apply step_add_frame|apply IH].
Qed.

Lemma fold_add_other : forall local l m id, ~ In (Some id) (json_ids l) ->
  find_port id (m_ports (fold_left (step_add local) l m)) = find_port id (m_ports m).
Proof.
  intros local l. induction l as [|x r IH]; intros m id H; cbn [fold_left]; [reflexivity|].
  cbn [json_ids map In] in H. rewrite IH by (intro; apply H; right; assumption).
  apply step_add_other. intro. apply H. left. assumption.
Qed.

Lemma fold_add_nodup : forall local l m, NoDup (ids (m_ports m)) ->
  NoDup (ids (m_ports (fold_left (step_add local) l m))).
Proof.
  intros local l. induction l as [|x r IH]; intros m H; cbn [fold_left]; [assumption|].
  apply IH. apply step_add_nodup. assumption.
Qed.

(* fetch_ports touches the ports only *)
Lemma fetch_ports_frame : forall c ports m, frame m (fetch_ports c ports m).
Proof.
  intros. rewrite fetch_ports_unfold. cbn zeta.
  set (m1 := fold_left (step_upd c (ids (m_ports m))) ports m).
  set (m2 := fold_left (step_add (ids (m_ports m))) ports m1).
  assert (F : frame m m2).
  { eapply frame_trans; [apply (fold_upd_frame c (ids (m_ports m)) ports m)|apply fold_add_frame]. }
  destruct F as (?&?&?&?). unfold frame, set_ports. cbn [m_dev m_dev_prov m_ready m_online]. auto.
Qed.

Lemma fetch_ports_dev : forall c ports m, m_dev (fetch_ports c ports m) = m_dev m.
Proof. intros. apply (fetch_ports_frame c ports m). Qed.
Lemma fetch_ports_dev_prov : forall c ports m, m_dev_prov (fetch_ports c ports m) = m_dev_prov m.
Proof. intros. apply (fetch_ports_frame c ports m). Qed.
Lemma fetch_ports_ready : forall c ports m, m_ready (fetch_ports c ports m) = m_ready m.
Proof. intros. apply (fetch_ports_frame c ports m). Qed.
Lemma fetch_ports_online : forall c ports m, m_online (fetch_ports c ports m) = m_online m.
Proof. intros. apply (fetch_ports_frame c ports m). Qed.

(* ------------------------------------------------------------------------------------------------------------------ *)
(* resynchronisation *)

Definition rel_at (id : string) (ps : list mport) (l : list sport) : Prop :=
  match find_port id ps, find_sport id l with
  | Some p, Some sp => port_rel p sp
  | None, None => True
  | _, _ => False
  end.

(* the form MirrorThm.v uses: only the ports find_port can see need to be free of pending attributes, and the aux
   answers may refer to any slave with these ports *)
Lemma resync_pointwise_weak : forall c ports m d,
  (forall id p, find_port id (m_ports m) = Some p -> mp_prov p = []) ->
  snapshot_ok ports ->
  Forall (fun x => aux_ok (mk_slave (sports_of ports) d) (fst x) (snd x)) ports ->
  forall id, rel_at id (m_ports (fetch_ports c ports m)) (sports_of ports).
Proof.
  intros c ports m d Hprov [Hnd Hall] Haux id. unfold rel_at.
  rewrite fetch_ports_unfold. cbn zeta.
  set (local := ids (m_ports m)).
  set (m1 := fold_left (step_upd c local) ports m).
  set (m2 := fold_left (step_add local) ports m1).
  cbn [set_ports m_ports].
  rewrite (find_port_filter id _ (fun i => negb (mem i local) || mem i (remote_ids ports))) by reflexivity.
  destruct (find_sport id (sports_of ports)) as [sp|] eqn:FS.
  - (* the snapshot has the port *)
    destruct (find_sport_json_some _ _ _ FS) as (l1 & x & l2 & Hports & Hl1 & Hx & Hsp).
    assert (Hl2 : ~ In (Some id) (json_ids l2)).
    { rewrite Hports in Hnd. unfold json_ids in Hnd. rewrite map_app in Hnd. cbn [map] in Hnd. rewrite Hx in Hnd.
      apply NoDup_remove_2 in Hnd. intro H. apply Hnd. apply in_or_app. right. exact H. }
    assert (Hrem : mem id (remote_ids ports) = true).
    { apply mem_In, remote_ids_In. rewrite Hports. unfold json_ids. rewrite map_app. apply in_or_app. right. left. exact Hx. }
    rewrite Hrem, orb_true_r.
    assert (Hxin : In x ports) by (rewrite Hports; apply in_or_app; right; left; reflexivity).
    assert (Hval : has_key "value" (fst x) = true).
    { rewrite Forall_forall in Hall. apply (Hall x Hxin). }
    assert (Hauxx : forall v, snd x = Some v -> v = VNone \/ v = get "value" (fst x)).
    { intros v Hv. rewrite Forall_forall in Haux. specialize (Haux x Hxin). unfold aux_ok in Haux. rewrite Hv in Haux.
      destruct Haux as [H|(id0 & sp0 & H0 & H1 & H2)]; [left; exact H|right].
      cbn [s_ports] in H1. rewrite Hx in H0. injection H0 as <-. rewrite FS in H1. injection H1 as <-.
      rewrite H2, Hsp. reflexivity. }
    (* m1 *)
    assert (Hready1 : forall l, m_ready (fold_left (step_upd c local) l m) = m_ready m).
    { intros l. apply (fold_upd_frame c local l m). }
    assert (F1 : find_port id (m_ports m1) =
                 if mem id local then option_map (port_update_on c (m_ready m) (fst x) (snd x)) (find_port id (m_ports m))
                 else find_port id (m_ports m)).
    { subst m1. rewrite Hports, fold_left_app. cbn [fold_left]. rewrite fold_upd_other by exact Hl2.
      unfold step_upd at 1. rewrite Hx. destruct (mem id local).
      - rewrite hpu_same by exact Hx. rewrite Hready1. rewrite fold_upd_other by exact Hl1. reflexivity.
      - apply fold_upd_other. exact Hl1. }
    assert (Hready2 : forall l, m_ready (fold_left (step_add local) l m1) = m_ready m).
    { intros l. destruct (fold_add_frame local l m1) as (_&_&R&_). rewrite R. subst m1. apply Hready1. }
    assert (F2 : find_port id (m_ports m2) =
                 if mem id local then find_port id (m_ports m1)
                 else match find_port id (m_ports m1) with
                      | Some p => Some p
                      | None => Some (new_port (m_ready m) (snd x) id (fst x))
                      end).
    { subst m2. rewrite Hports, fold_left_app. cbn [fold_left]. rewrite fold_add_other by exact Hl2.
      unfold step_add at 1. rewrite Hx. destruct (mem id local).
      - apply fold_add_other. exact Hl1.
      - destruct (find_port id (m_ports m1)) as [p|] eqn:F.
        + rewrite <- (fold_add_other local l1 m1 id Hl1) in F.
          rewrite (hpa_old _ _ _ _ _ Hx F). exact F.
        + rewrite <- (fold_add_other local l1 m1 id Hl1) in F.
          rewrite (hpa_new _ _ _ _ Hx F). rewrite Hready2. reflexivity. }
    rewrite F2, F1. subst sp.
    destruct (mem id local) eqn:L.
    + (* a port the master had: updated *)
      destruct (find_port id (m_ports m)) as [p|] eqn:F.
      * cbn [option_map]. unfold sport_of_json. apply port_rel_update.
        -- eapply Hprov; exact F.
        -- apply get_value_lookup. exact Hval.
        -- exact Hauxx.
      * apply mem_In in L. apply find_port_none in F. contradiction.
    + (* a new port: added *)
      cbn [negb orb].
      assert (F : find_port id (m_ports m) = None) by (apply find_port_none, mem_false; exact L).
      rewrite F. rewrite (new_port_as_update c). unfold sport_of_json. apply port_rel_update.
      * reflexivity.
      * apply get_value_lookup. exact Hval.
      * exact Hauxx.
  - (* the snapshot does not have the port *)
    apply find_sport_json_none in FS.
    assert (Hrem : mem id (remote_ids ports) = false).
    { apply mem_false. rewrite remote_ids_In. exact FS. }
    rewrite Hrem, orb_false_r.
    destruct (mem id local) eqn:L; cbn [negb]; [exact I|].
    subst m2 m1. rewrite fold_add_other, fold_upd_other by exact FS.
    assert (F : find_port id (m_ports m) = None) by (apply find_port_none, mem_false; exact L).
    rewrite F. exact I.
Qed.

Lemma no_pending_found : forall m, no_pending m -> forall id p, find_port id (m_ports m) = Some p -> mp_prov p = [].
Proof.
  intros m H id p F. unfold no_pending in H. rewrite Forall_forall in H. apply H. eapply find_port_some. exact F.
Qed.

Theorem resync_pointwise : forall c ports m,
  let s' := map (fun x => sport_of_json (fst x)) ports in
  no_pending m -> snapshot_ok ports ->
  Forall (fun x => aux_ok (mk_slave s' []) (fst x) (snd x)) ports ->
  forall id, match find_port id (m_ports (fetch_ports c ports m)), find_sport id s' with
             | Some p, Some sp => port_rel p sp | None, None => True | _, _ => False end.
Proof.
  intros c ports m s' Hnp Hs Haux id.
  apply (resync_pointwise_weak c ports m [] (no_pending_found m Hnp) Hs Haux id).
Qed.

Lemma fetch_ports_nodup : forall c ports m, NoDup (ids (m_ports m)) -> NoDup (ids (m_ports (fetch_ports c ports m))).
Proof.
  intros c ports m H. rewrite fetch_ports_unfold. cbn zeta. cbn [set_ports m_ports].
  rewrite (ids_filter _ (fun i => negb (mem i (ids (m_ports m))) || mem i (remote_ids ports))) by reflexivity.
  apply NoDup_filter. apply fold_add_nodup.
  destruct (fold_upd_frame c (ids (m_ports m)) ports m) as [_ E]. rewrite E. exact H.
Qed.

Theorem resync : forall c ports m,
  let s' := map (fun x => sport_of_json (fst x)) ports in
  no_pending m -> NoDup (ids (m_ports m)) -> snapshot_ok ports ->
  Forall (fun x => aux_ok (mk_slave s' []) (fst x) (snd x)) ports ->
  let m' := fetch_ports c ports m in
  NoDup (ids (m_ports m')) /\
  (forall id, In id (ids (m_ports m')) <-> In (Some id) (json_ids ports)) /\
  (forall id, match find_port id (m_ports m'), find_sport id s' with
              | Some p, Some sp => port_rel p sp | None, None => True | _, _ => False end).
Proof.
  intros c ports m s' Hnp Hnd Hs Haux m'.
  assert (P := resync_pointwise c ports m Hnp Hs Haux). fold s' in P. fold m' in P.
  split; [apply fetch_ports_nodup; exact Hnd|]. split; [|exact P].
  intros id. specialize (P id).
  destruct (find_port id (m_ports m')) as [p|] eqn:F; destruct (find_sport id s') as [sp|] eqn:FS; try contradiction.
  - split; intros _.
    + destruct (find_sport_json_some _ _ _ FS) as (l1 & x & l2 & -> & _ & Hx & _).
      unfold json_ids. rewrite map_app. apply in_or_app. right. left. exact Hx.
    + apply find_port_some in F. destruct F as [F <-]. unfold ids. apply in_map. exact F.
  - apply find_port_none in F. apply find_sport_json_none in FS. tauto.
Qed.
