(* C12 — attribute name mapping between master and slave (SlavePort.get_attr / set_attr, MASTER_ATTRS). *)
From QT Require Import C12.Mirror C12.Spec C12.ResyncThm.
Open Scope string_scope.

Lemma mem_In : forall n l, mem n l = true <-> In n l.
Proof.
  intros n l; unfold mem; rewrite existsb_exists; split.
  - intros [x [Hx He]]; apply String.eqb_eq in He; subst; exact Hx.
  - intros H; exists n; split; [exact H | apply String.eqb_refl].
Qed.

(* device_expression, device_history_*, device_device_expression ... show the slave's attribute of the name without one device_ *)
Lemma attr_renamed : forall slave fb p n, is_renamed n = true -> get_attr slave fb p n = get (drop7 n) (mp_cached p).
Proof.
  intros slave fb p n H; unfold get_attr.
  destruct (mem n MASTER_ATTRS) eqn:M; [| rewrite H; reflexivity].
  exfalso. apply mem_In in M. unfold is_renamed in H. apply andb_true_iff in H as [H _].
  cbn in M. repeat (destruct M as [M | M]; [subst n; cbn in H; discriminate |]). exact M.
Qed.

Lemma attr_examples : forall slave fb p,
  get_attr slave fb p "device_expression" = get "expression" (mp_cached p) /\
  get_attr slave fb p "device_history_interval" = get "history_interval" (mp_cached p) /\
  get_attr slave fb p "device_history_retention" = get "history_retention" (mp_cached p) /\
  get_attr slave fb p "device_device_expression" = get "device_expression" (mp_cached p) /\
  get_attr slave fb p "id" = VS (slave ++ "." ++ mp_id p).
Proof. intros; repeat split. Qed.

(* what the slave reports never changes what the master shows for a master-kept attribute *)
Lemma attr_master_kept : forall slave fb p a q cv n,
  In n MASTER_ATTRS ->
  get_attr slave fb (with_cached_value (with_queue (with_cached p a) q) cv) n = get_attr slave fb p n.
Proof. intros slave fb p a q cv n H; apply mem_In in H; unfold get_attr; rewrite H; reflexivity. Qed.

(* any other attribute the slave has (non-null) is shown with the slave's value *)
Lemma attr_plain : forall slave fb p n,
  mem n MASTER_ATTRS = false -> is_renamed n = false -> get n (mp_cached p) <> VNone ->
  get_attr slave fb p n = get n (mp_cached p).
Proof.
  intros slave fb p n M R H; unfold get_attr; rewrite M, R. destruct (get n (mp_cached p)); congruence.
Qed.

(* master attributes are never sent; the others are sent under the slave's name *)
Lemma master_attrs_never_sent : forall p n v, In n MASTER_ATTRS -> set_attr_online_request p n v = None.
Proof. intros p n v H; apply mem_In in H; unfold set_attr_online_request; rewrite H; reflexivity. Qed.

Lemma sent_under_slave_name : forall p n v, mem n MASTER_ATTRS = false ->
  set_attr_online_request p n v = Some (mk_req "PATCH" ("/ports/" ++ mp_id p) (BAttrs [(slave_name n, v)])).
Proof. intros p n v H; unfold set_attr_online_request; rewrite H; reflexivity. Qed.

Lemma slave_name_examples :
  slave_name "device_expression" = "expression" /\ slave_name "device_history_interval" = "history_interval" /\
  slave_name "display_name" = "display_name" /\ slave_name "device_name" = "device_name".
Proof. repeat split. Qed.

(* after a resync, what the master shows under device_expression is the slave's expression *)
Lemma attr_mapping_after_sync : forall slave fb m s id p sp,
  synced m s -> find_port id (m_ports m) = Some p -> find_sport id (s_ports s) = Some sp ->
  get_attr slave fb p "device_expression" = get "expression" (sp_attrs sp) /\
  (forall n, mem n MASTER_ATTRS = false -> is_renamed n = false -> get n (sp_attrs sp) <> VNone ->
             get_attr slave fb p n = get n (sp_attrs sp)).
Proof.
  intros slave fb m s id p sp [H _] Hp Hs. specialize (H id). rewrite Hp, Hs in H. destruct H as [Hc _].
  split.
  - rewrite (proj1 (attr_examples slave fb p)), Hc; reflexivity.
  - intros n M R Hn. rewrite attr_plain; rewrite ?Hc; auto.
Qed.
