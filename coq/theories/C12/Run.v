(* C12 — dispatch used by the generated case files.
   bad_model: the real Slave / SlavePort objects were driven step by step (handle_event, main.update, fetch_and_update_ports,
   _poll_once); the mirror state dumped after the steps must be the model's.
   bad_spec:  what the real master showed (GET /ports, value-change events) against the specification. *)
From QT Require Export C12.Spec.
Open Scope string_scope.

(* dump of one mirrored port: id, _cached_attrs, queue (oldest first), _cached_value, enabled, last read value, _provisioning, tag *)
Definition obs_port := (string * attrs * list val * val * bool * val * list string * val)%type.
(* ports in registry order, device attribute cache, device provisioning names *)
Definition obs_state := (list obs_port * attrs * list string)%type.

Definition port_of_obs (o : obs_port) : mport :=
  let '(id, cached, q, cv, en, lr, prov, tag) := o in
  mk_mport id cached q cv en lr prov [("tag", tag)] [].

Definition master_of_obs (o : obs_state) : master :=
  let '(ps, dev, dprov) := o in mk_master (map port_of_obs ps) dev dprov true true.

Fixpoint list_eqb2 {A B} (eqb : A -> B -> bool) (a : list A) (b : list B) : bool :=
  match a, b with
  | [], [] => true
  | x :: a', y :: b' => eqb x y && list_eqb2 eqb a' b'
  | _, _ => false
  end.

Definition set_eqb (a b : list string) : bool := forallb (fun x => mem x b) a && forallb (fun x => mem x a) b.

Definition obs_port_eqb (p : mport) (o : obs_port) : bool :=
  let '(id, cached, q, cv, en, lr, prov, tag) := o in
  String.eqb (mp_id p) id && dict_eqb (mp_cached p) cached && list_eqb val_eqb (mp_queue p) q &&
  val_eqb (mp_cached_value p) cv && Bool.eqb (mp_enabled p) en && val_eqb (mp_last_read p) lr &&
  set_eqb (mp_prov p) prov && val_eqb (get "tag" (mp_local p)) tag.

Definition state_matches (m : master) (o : obs_state) : bool :=
  let '(ps, dev, dprov) := o in
  list_eqb2 obs_port_eqb (m_ports m) ps && dict_eqb (m_dev m) dev && set_eqb (m_dev_prov m) dprov.

Inductive mstep :=
| MEv (e : event) (raised : bool)                                    (* Slave.handle_event(e); did it raise *)
| MTick                                                              (* core.main.update() *)
| MFetch (ports : list (attrs * option val))                         (* fetch_and_update_ports, with the GET /ports answer *)
| MPoll (dev : attrs) (ports : list (attrs * option val)).           (* _poll_once of an online, ready slave *)

Definition mstep_run (c : cfg) (m : master) (s : mstep) : master * bool :=
  match s with
  | MEv e raised => let '(m', ok) := handle c e m in (m', Bool.eqb ok (negb raised))
  | MTick => (tick m, true)
  | MFetch ports => (fetch_ports c ports m, true)
  | MPoll dev ports => (poll_ports c ports (poll_device c dev m), true)
  end.

(* first step (from i) after which the model and the dump disagree *)
Fixpoint first_bad (c : cfg) (m : master) (steps : list (mstep * option obs_state)) (i : nat) : option nat :=
  match steps with
  | [] => None
  | (s, o) :: r =>
      let '(m', ok) := mstep_run c m s in
      if ok && match o with Some st => state_matches m' st | None => true end
      then first_bad c m' r (S i) else Some i
  end.

Definition mcase := (obs_state * list (mstep * option obs_state))%type.

Definition model_ok (c : cfg) (x : mcase) : bool :=
  match first_bad c (master_of_obs (fst x)) (snd x) 0 with None => true | Some _ => false end.

Definition bad_model (cases : list mcase) : list nat := mismatches (model_ok cfg_fixed) cases 0.
Definition bad_steps (cases : list mcase) : list nat :=
  map (fun x => match first_bad cfg_fixed (master_of_obs (fst x)) (snd x) 0 with None => 0 | Some i => S i end) cases.

(* specification oracle *)
Inductive scase :=
| SView (slave_nm : string) (shown : list attrs) (s : list sport)    (* GET /ports of the master at a sync point *)
| SOrder (delivered shown : list val).      (* per port: the values the slave delivered, the values the master reported *)

Definition spec_ok (x : scase) : bool :=
  match x with
  | SView nm shown s => view_ok nm shown s
  | SOrder d sh => list_eqb val_eqb (dedup d) (dedup sh)
  end.

Definition bad_spec (cases : list scase) : list nat := mismatches spec_ok cases 0.
