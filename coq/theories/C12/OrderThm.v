(* C12 — value order: the values a port's read_value returns, followed by what is still queued, are (up to adjacent
   repeats) the values the slave reported, in the order it reported them; and the queue drains. *)
From QT Require Import C12.Mirror C12.Spec C12.ResyncThm.
Open Scope string_scope.

(* ------------------------------------------------------------------------------------------------------------------ *)
(* last *)

Lemma last_cons : forall (l : list val) a d, last (a :: l) d = last l a.
Proof.
  induction l as [|b r IH]; intros a d; [reflexivity|].
  change (last (a :: b :: r) d) with (last (b :: r) d). rewrite (IH b d), (IH b a). reflexivity.
Qed.

Lemma last_app2 : forall (l1 l2 : list val) d, last (l1 ++ l2) d = last l2 (last l1 d).
Proof.
  induction l1 as [|a r IH]; intros l2 d; [reflexivity|].
  cbn [app]. rewrite last_cons, IH, last_cons. reflexivity.
Qed.

(* ------------------------------------------------------------------------------------------------------------------ *)
(* dedup *)

Lemma dedup_cons2 : forall x y r, dedup (x :: y :: r) = if val_eqb x y then dedup (y :: r) else x :: dedup (y :: r).
Proof. reflexivity. Qed.

Lemma dedup_head : forall l x, exists t, dedup (x :: l) = x :: t.
Proof.
  induction l as [|y r IH]; intros x.
  - exists []. reflexivity.
  - rewrite dedup_cons2. destruct (val_eqb x y) eqn:E.
    + apply val_eqb_eq in E. subst y. apply IH.
    + exists (dedup (y :: r)). reflexivity.
Qed.

(* dedup of an extended list only depends on the dedup of the list *)
Lemma dedup_app_congr : forall l l2, dedup (l ++ l2) = dedup (dedup l ++ l2).
Proof.
  induction l as [|x l IH]; intros l2; [reflexivity|].
  destruct l as [|y r]; [reflexivity|].
  cbn [app]. rewrite (dedup_cons2 x y (r ++ l2)), (dedup_cons2 x y r).
  specialize (IH l2). cbn [app] in IH.
  destruct (val_eqb x y) eqn:E; [exact IH|].
  destruct (dedup_head r y) as [t Ht]. rewrite Ht in *. cbn [app] in *.
  rewrite (dedup_cons2 x y (t ++ l2)), E. f_equal. exact IH.
Qed.

Lemma dedup_last : forall l x d, last (dedup (x :: l)) d = last (x :: l) d.
Proof.
  induction l as [|y r IH]; intros x d; [reflexivity|].
  rewrite dedup_cons2. change (last (x :: y :: r) d) with (last (y :: r) d).
  destruct (val_eqb x y); [apply IH|].
  destruct (dedup_head r y) as [t Ht]. rewrite <- (IH y d), Ht. reflexivity.
Qed.

Lemma dedup_snoc_same : forall l x d v, last (x :: l) d = v -> dedup ((x :: l) ++ [v]) = dedup (x :: l).
Proof.
  induction l as [|y r IH]; intros x d v H.
  - cbn [last] in H. subst v. cbn [app]. rewrite dedup_cons2, val_eqb_refl. reflexivity.
  - cbn [app]. rewrite (dedup_cons2 x y (r ++ [v])), (dedup_cons2 x y r).
    change (last (x :: y :: r) d) with (last (y :: r) d) in H. specialize (IH y d v H). cbn [app] in IH.
    destruct (val_eqb x y); [exact IH|]. f_equal. exact IH.
Qed.

Lemma dedup_snoc_congr : forall l l' v, dedup l = dedup l' -> dedup (l ++ [v]) = dedup (l' ++ [v]).
Proof. intros l l' v H. rewrite (dedup_app_congr l), (dedup_app_congr l'), H. reflexivity. Qed.

(* ------------------------------------------------------------------------------------------------------------------ *)
(* the invariant of one enabled port with nothing pending *)

Definition inv (init : val) (L : list val) (p : mport) : Prop :=
  mp_enabled p = true /\ mp_prov p = [] /\ mp_cached_value p = last (mp_reads p) init /\
  dedup (init :: mp_reads p ++ mp_queue p) = dedup (init :: L).

Lemma inv_same : forall init L p p1, inv init L p ->
  mp_enabled p1 = mp_enabled p -> mp_prov p1 = mp_prov p -> mp_cached_value p1 = mp_cached_value p ->
  mp_reads p1 = mp_reads p -> mp_queue p1 = mp_queue p -> inv init (L ++ []) p1.
Proof.
  intros init L p p1 (I1 & I2 & I3 & I4) E1 E2 E3 E4 E5. unfold inv.
  rewrite E1, E2, E3, E4, E5, app_nil_r. auto.
Qed.

Lemma inv_push : forall init L p p1 v, inv init L p ->
  mp_enabled p1 = mp_enabled p -> mp_prov p1 = mp_prov p -> mp_cached_value p1 = mp_cached_value p ->
  mp_reads p1 = mp_reads p -> mp_queue p1 = (mp_queue p ++ [v])%list -> inv init (L ++ [v]) p1.
Proof.
  intros init L p p1 v (I1 & I2 & I3 & I4) E1 E2 E3 E4 E5. unfold inv.
  rewrite E1, E2, E3, E4, E5. repeat split; auto.
  rewrite app_assoc.
  change (dedup ((init :: mp_reads p ++ mp_queue p) ++ [v]) = dedup ((init :: L) ++ [v])).
  apply dedup_snoc_congr. exact I4.
Qed.

Lemma inv_last_remote : forall init L p d, inv init L p -> last (init :: L) d = last_remote p.
Proof.
  intros init L p d (I1 & I2 & I3 & I4).
  rewrite <- dedup_last, <- I4, dedup_last. rewrite last_cons, last_app2.
  unfold last_remote. rewrite I3. reflexivity.
Qed.

Lemma inv_dup : forall init L p v, inv init L p -> val_eqb (last_remote p) v = true -> inv init (L ++ [v]) p.
Proof.
  intros init L p v Hi E. apply val_eqb_eq in E.
  assert (Hl := inv_last_remote init L p init Hi). rewrite E in Hl.
  destruct Hi as (I1 & I2 & I3 & I4). unfold inv. repeat split; auto.
  change (init :: L ++ [v])%list with ((init :: L) ++ [v])%list.
  rewrite (dedup_snoc_same L init init v Hl). exact I4.
Qed.

(* ------------------------------------------------------------------------------------------------------------------ *)
(* the handlers seen from one port *)

Lemma hvc_other : forall id i v m, id <> i ->
  find_port id (m_ports (fst (handle_value_change i v m))) = find_port id (m_ports m).
Proof.
  intros id i v m H. unfold handle_value_change.
  destruct (find_port i (m_ports m)); [|reflexivity].
  destruct (negb (is_none (prov_value m0))); [reflexivity|].
  destruct (val_eqb (last_remote m0) v); [reflexivity|].
  cbn [fst set_ports m_ports]. apply find_port_upd_other; [reflexivity|exact H].
Qed.

Lemma hpa_keeps : forall a aux m id p, find_port id (m_ports m) = Some p ->
  find_port id (m_ports (fst (handle_port_add a aux m))) = Some p.
Proof.
  intros a aux m id p F. unfold handle_port_add.
  destruct (id_of a) as [i|]; [|exact F].
  destruct (find_port i (m_ports m)); [exact F|].
  cbn [fst set_ports m_ports]. rewrite find_port_app, F. reflexivity.
Qed.

Lemma hpr_other : forall id i m, i <> id ->
  find_port id (m_ports (fst (handle_port_remove i m))) = find_port id (m_ports m).
Proof.
  intros id i m H. unfold handle_port_remove.
  destruct (find_port i (m_ports m)); [|reflexivity].
  cbn [fst set_ports m_ports]. rewrite find_port_del.
  destruct (String.eqb id i) eqn:E; [|reflexivity]. apply String.eqb_eq in E. congruence.
Qed.

Lemma hdu_ports : forall c a m, m_ports (fst (handle_device_update c a m)) = m_ports m.
Proof.
  intros. unfold handle_device_update.
  destruct (device_update_keeps_pending c); [reflexivity|].
  destruct (existsb _ a); reflexivity.
Qed.

(* a port update of an enabled port with nothing pending that leaves it enabled *)
Lemma port_update_on_enabled : forall c r a aux p,
  mp_enabled p = true -> mp_prov p = [] -> truthy (get "enabled" a) = true ->
  port_update_on c r a aux p = update_cached a p.
Proof.
  intros c r a aux p He Hp Ht. unfold port_update_on. rewrite port_update_dict_nopending by exact Hp.
  destruct (update_cached_facts a p) as (C1 & _ & E1 & _).
  unfold update_enabled. rewrite C1, E1, He. rewrite get_remove_key by discriminate. rewrite Ht. reflexivity.
Qed.

Definition rep (id : string) (s : sstep) : list val := match s with SEv e => reported id e | STick => [] end.

Lemma inv_step : forall c id init s m p L,
  find_port id (m_ports m) = Some p -> inv init L p -> stable id s ->
  exists p1, find_port id (m_ports (srun1 c m s)) = Some p1 /\ inv init (L ++ rep id s) p1.
Proof.
  intros c id init s m p L F Hi Hst.
  assert (Hsame : inv init (L ++ []) p) by (apply (inv_same init L p p Hi); reflexivity).
  destruct s as [e|]; cbn [srun1 rep].
  - destruct e; cbn [handle reported stable] in *.
    + (* value change *)
      destruct (String.eqb id id0) eqn:E.
      * apply String.eqb_eq in E. subst id0. unfold handle_value_change. rewrite F.
        destruct Hi as (I1 & I2 & I3 & I4).
        unfold prov_value. rewrite I2. cbn [mem existsb is_none negb].
        destruct (val_eqb (last_remote p) v) eqn:EV; cbn [fst].
        -- exists p. split; [exact F|]. apply inv_dup; [repeat split; assumption|exact EV].
        -- cbn [set_ports m_ports]. rewrite find_port_upd_same by reflexivity. rewrite F. cbn [option_map].
           exists (push v p). split; [reflexivity|].
           apply (inv_push init L p); [repeat split; assumption|reflexivity..].
      * apply String.eqb_neq in E. rewrite hvc_other by exact E. exists p. split; assumption.
    + (* port update *)
      destruct (id_of a) as [i|] eqn:IA.
      * destruct (String.eqb id i) eqn:E.
        -- apply String.eqb_eq in E. subst i. rewrite hpu_same by exact IA. rewrite F. cbn [option_map].
           destruct Hi as (I1 & I2 & I3 & I4).
           rewrite port_update_on_enabled by auto.
           eexists. split; [reflexivity|]. unfold update_cached.
           destruct (lookup "value" a) as [v|].
           ++ apply (inv_push init L p); [repeat split; assumption|reflexivity..].
           ++ apply (inv_same init L p); [repeat split; assumption|reflexivity..].
        -- apply String.eqb_neq in E. rewrite hpu_other by congruence. exists p. split; assumption.
      * rewrite hpu_other by congruence. exists p. split; assumption.
    + (* port add *)
      rewrite (hpa_keeps _ _ _ _ _ F). exists p. split; [reflexivity|assumption].
    + (* port remove *)
      rewrite hpr_other by exact Hst. exists p. split; assumption.
    + (* device update *)
      rewrite hdu_ports. exists p. split; assumption.
    + contradiction.
    + exists p. split; assumption.
  - (* one iteration of the main loop *)
    unfold tick. cbn [set_ports m_ports]. rewrite find_port_map by apply mp_id_tick_port. rewrite F. cbn [option_map].
    eexists. split; [reflexivity|].
    destruct Hi as (I1 & I2 & I3 & I4). unfold tick_port. rewrite I1.
    destruct (mp_queue p) as [|v q] eqn:Q.
    + apply (inv_same init L p); [repeat split; try assumption; rewrite Q; exact I4|reflexivity..].
    + rewrite app_nil_r. unfold inv. cbn [mp_enabled mp_prov mp_cached_value mp_reads mp_queue].
      repeat split; auto.
      * rewrite last_last. reflexivity.
      * rewrite <- app_assoc. exact I4.
Qed.

Lemma inv_run : forall c id init sched m p L,
  find_port id (m_ports m) = Some p -> inv init L p -> Forall (stable id) sched ->
  exists p1, find_port id (m_ports (srun c sched m)) = Some p1 /\ inv init (L ++ reported_all id sched) p1.
Proof.
  intros c id init sched. induction sched as [|s r IH]; intros m p L F Hi Hst.
  - exists p. cbn [reported_all flat_map]. rewrite app_nil_r. split; assumption.
  - inversion Hst as [|? ? H1 H2]; subst.
    destruct (inv_step c id init s m p L F Hi H1) as (p1 & F1 & Hi1).
    destruct (IH (srun1 c m s) p1 _ F1 Hi1 H2) as (p2 & F2 & Hi2).
    exists p2. split; [exact F2|].
    unfold reported_all. cbn [flat_map]. fold (rep id s). rewrite app_assoc. exact Hi2.
Qed.

Theorem value_order : forall c id sched m p,
  find_port id (m_ports m) = Some p -> mp_enabled p = true -> mp_prov p = [] -> mp_reads p = [] ->
  Forall (stable id) sched ->
  exists p', find_port id (m_ports (srun c sched m)) = Some p' /\ mp_enabled p' = true /\
    dedup (mp_cached_value p :: mp_reads p' ++ mp_queue p') =
    dedup (mp_cached_value p :: mp_queue p ++ reported_all id sched).
Proof.
  intros c id sched m p F He Hp Hr Hst.
  assert (Hi : inv (mp_cached_value p) (mp_queue p) p).
  { unfold inv. rewrite Hr. repeat split; auto. }
  destruct (inv_run c id _ sched m p _ F Hi Hst) as (p1 & F1 & (I1 & I2 & I3 & I4)).
  exists p1. repeat split; assumption.
Qed.

(* ------------------------------------------------------------------------------------------------------------------ *)
(* the queue drains *)

(* notation only: [length] is List.length (String.length shadows the short name) and [++] is annotated with %list
   (Mirror.v opens string_scope, which would otherwise capture it) *)
Theorem drained : forall n m id p,
  find_port id (m_ports m) = Some p -> mp_enabled p = true -> (List.length (mp_queue p) <= n)%nat ->
  exists p', find_port id (m_ports (ticks n m)) = Some p' /\ mp_queue p' = [] /\
             mp_reads p' = (mp_reads p ++ mp_queue p)%list /\ mp_enabled p' = true.
Proof.
  induction n as [|n IH]; intros m id p F He Hl.
  - exists p. cbn [ticks]. destruct (mp_queue p); [|cbn [List.length] in Hl; lia].
    rewrite app_nil_r. auto.
  - cbn [ticks].
    assert (F1 : find_port id (m_ports (tick m)) = Some (tick_port p)).
    { unfold tick. cbn [set_ports m_ports]. rewrite find_port_map by apply mp_id_tick_port. rewrite F. reflexivity. }
    unfold tick_port in F1. rewrite He in F1.
    destruct (mp_queue p) as [|v q] eqn:Q.
    + destruct (IH (tick m) id p F1 He) as (p' & F' & Q' & R' & E'); [rewrite Q; cbn [List.length]; lia|].
      exists p'. rewrite Q in R'. auto.
    + destruct (IH (tick m) id _ F1) as (p' & F' & Q' & R' & E').
      * reflexivity.
      * cbn [mp_queue]. cbn [List.length] in Hl. lia.
      * exists p'. cbn [mp_reads mp_queue] in R'. rewrite <- app_assoc in R'. auto.
Qed.
