(* C12 — the handlers keep the mirror equal to the slave: every reported event, handled in order, leaves the mirror synced
   with the slave's state after that event. *)
From QT Require Import C12.Mirror C12.Spec C12.ResyncThm.
Open Scope string_scope.

Lemma prov_value_nopending : forall p, mp_prov p = [] -> prov_value p = VNone.
Proof. intros p H. unfold prov_value. rewrite H. reflexivity. Qed.

Lemma existsb_no_key : forall (a : attrs), existsb (fun kv => has_key (fst kv) []) a = false.
Proof. induction a as [|kv r IH]; [reflexivity|]. cbn [existsb]. rewrite IH. reflexivity. Qed.

Lemma synced_found_nopending : forall m s, synced m s ->
  forall id p, find_port id (m_ports m) = Some p -> mp_prov p = [].
Proof.
  intros m s (HP & _) id p F. specialize (HP id). rewrite F in HP.
  destruct (find_sport id (s_ports s)); [|contradiction]. apply HP.
Qed.

(* ------------------------------------------------------------------------------------------------------------------ *)
(* one event *)

Lemma synced_value_change : forall id v m s,
  synced m s -> synced (fst (handle_value_change id v m)) (apply (EValueChange id v) s).
Proof.
  intros id v m s (HP & HD & HV). cbn [apply].
  assert (Hf : forall sp, sp_has_id id sp = true -> sp_has_id id (mk_sport (sp_attrs sp) v) = true)
    by (intros sp H; exact H).
  assert (HPid := HP id). unfold handle_value_change.
  destruct (find_port id (m_ports m)) as [p|] eqn:F; destruct (find_sport id (s_ports s)) as [sp|] eqn:FS;
    try contradiction.
  - destruct HPid as (R1 & R2 & R3 & R4).
    rewrite (prov_value_nopending p R4). cbn [is_none negb].
    destruct (val_eqb (last_remote p) v) eqn:EV; cbn [fst].
    + apply val_eqb_eq in EV. split; [|split; assumption].
      intros id'. cbn [s_ports]. rewrite find_sport_upd by exact Hf.
      destruct (String.eqb id' id) eqn:E; [|apply (HP id')].
      apply String.eqb_eq in E. subst id'. rewrite F, FS. cbn [option_map].
      repeat split; cbn [sp_attrs sp_value]; assumption.
    + split; [|split; assumption].
      intros id'. cbn [set_ports m_ports s_ports].
      rewrite find_port_upd by reflexivity. rewrite find_sport_upd by exact Hf.
      destruct (String.eqb id' id) eqn:E; [|apply (HP id')].
      apply String.eqb_eq in E. subst id'. rewrite F, FS. cbn [option_map].
      repeat split; cbn [sp_attrs sp_value]; try assumption.
      apply last_remote_push.
  - cbn [fst]. split; [|split; assumption].
    intros id'. cbn [s_ports]. rewrite find_sport_upd by exact Hf.
    destruct (String.eqb id' id) eqn:E; [|apply (HP id')].
    apply String.eqb_eq in E. subst id'. rewrite F, FS. exact I.
Qed.

Lemma synced_port_update : forall c a aux m s,
  synced m s -> aux_ok (apply (EPortUpdate a aux) s) a aux ->
  synced (fst (handle_port_update c a aux m)) (apply (EPortUpdate a aux) s).
Proof.
  intros c a aux m s Hs. assert (Hs0 := Hs). destruct Hs as (HP & HD & HV). cbn [apply].
  unfold handle_port_update. destruct (id_of a) as [id|] eqn:IA; [|intros _; exact Hs0].
  set (f := fun sp => mk_sport (remove_key "value" a)
                        match lookup "value" a with Some v => v | None => sp_value sp end).
  assert (Hf : forall sp, sp_has_id id sp = true -> sp_has_id id (f sp) = true).
  { intros sp _. apply sp_has_id_true. unfold f. cbn [sp_attrs]. rewrite id_of_remove_value. exact IA. }
  intros Haux. assert (HPid := HP id).
  destruct (find_port id (m_ports m)) as [p|] eqn:F; destruct (find_sport id (s_ports s)) as [sp|] eqn:FS;
    try contradiction.
  - destruct HPid as (R1 & R2 & R3 & R4). cbn [fst].
    split; [|split; assumption].
    intros id'. cbn [set_ports m_ports s_ports].
    rewrite find_port_upd by (intros; apply mp_id_port_update_on). rewrite find_sport_upd by exact Hf.
    destruct (String.eqb id' id) eqn:E; [|apply (HP id')].
    apply String.eqb_eq in E. subst id'. rewrite F, FS. cbn [option_map]. unfold f.
    apply port_rel_update.
    + exact R4.
    + rewrite R2. reflexivity.
    + intros v' Hv. unfold aux_ok in Haux. rewrite Hv in Haux.
      destruct Haux as [H|(id0 & sp0 & H0 & H1 & H2)]; [left; exact H|right].
      rewrite IA in H0. injection H0 as <-. cbn [s_ports] in H1.
      rewrite find_sport_upd in H1 by exact Hf. rewrite String.eqb_refl, FS in H1. cbn [option_map] in H1.
      injection H1 as <-. rewrite H2. reflexivity.
  - cbn [fst]. split; [|split; assumption].
    intros id'. cbn [s_ports]. rewrite find_sport_upd by exact Hf.
    destruct (String.eqb id' id) eqn:E; [|apply (HP id')].
    apply String.eqb_eq in E. subst id'. rewrite F, FS. exact I.
Qed.

Lemma synced_port_add : forall a aux m s,
  synced m s -> aux_ok (apply (EPortAdd a aux) s) a aux ->
  synced (fst (handle_port_add a aux m)) (apply (EPortAdd a aux) s).
Proof.
  intros a aux m s Hs. assert (Hs0 := Hs). destruct Hs as (HP & HD & HV). cbn [apply].
  unfold handle_port_add. destruct (id_of a) as [id|] eqn:IA; [|intros _; exact Hs0].
  assert (HPid := HP id).
  destruct (find_port id (m_ports m)) as [p|] eqn:F; destruct (find_sport id (s_ports s)) as [sp|] eqn:FS;
    try contradiction.
  - intros _. exact Hs0.
  - intros Haux. cbn [fst]. split; [|split; assumption].
    assert (Hid : sp_has_id id (sport_of_json a) = true) by (apply sp_has_id_json; exact IA).
    intros id'. cbn [set_ports m_ports s_ports]. rewrite find_port_app, find_sport_app.
    cbn [find_port find_sport]. rewrite mp_id_new_port. rewrite (sp_has_id_two id' id _ Hid).
    assert (HP' := HP id').
    destruct (find_port id' (m_ports m)) as [p'|]; destruct (find_sport id' (s_ports s)) as [sp'|];
      try contradiction; [exact HP'|].
    destruct (String.eqb id' id) eqn:E; [|exact I].
    apply String.eqb_eq in E. subst id'.
    rewrite (new_port_as_update cfg_fixed). unfold sport_of_json. apply port_rel_update.
    + reflexivity.
    + unfold get. destruct (lookup "value" a); reflexivity.
    + intros v' Hv. unfold aux_ok in Haux. rewrite Hv in Haux.
      destruct Haux as [H|(id0 & sp0 & H0 & H1 & H2)]; [left; exact H|right].
      rewrite IA in H0. injection H0 as <-. cbn [s_ports] in H1.
      rewrite find_sport_app, FS in H1. cbn [find_sport] in H1. rewrite Hid in H1.
      injection H1 as <-. rewrite H2. reflexivity.
Qed.

Lemma synced_port_remove : forall id m s,
  synced m s -> synced (fst (handle_port_remove id m)) (apply (EPortRemove id) s).
Proof.
  intros id m s (HP & HD & HV). cbn [apply]. unfold handle_port_remove.
  assert (HPid := HP id).
  destruct (find_port id (m_ports m)) as [p|] eqn:F; destruct (find_sport id (s_ports s)) as [sp|] eqn:FS;
    try contradiction; cbn [fst]; (split; [|split; assumption]); intros id'; cbn [set_ports m_ports s_ports].
  - rewrite find_port_del, find_sport_remove. destruct (String.eqb id' id); [exact I|apply (HP id')].
  - rewrite find_sport_remove. destruct (String.eqb id' id) eqn:E; [|apply (HP id')].
    apply String.eqb_eq in E. subst id'. rewrite F. exact I.
Qed.

Lemma synced_device_update : forall c a m s,
  synced m s -> synced (fst (handle_device_update c a m)) (apply (EDeviceUpdate a) s).
Proof.
  intros c a m s (HP & HD & HV). cbn [apply]. unfold handle_device_update. rewrite HV.
  change (prov_attrs [] (m_dev m)) with (@nil (string * val)).
  destruct (device_update_keeps_pending c).
  - cbn [fst]. split; [exact HP|]. split; [reflexivity|exact HV].
  - rewrite existsb_no_key. cbn [fst]. split; [exact HP|]. split; [reflexivity|exact HV].
Qed.

Lemma fetch_device_nopending : forall c dev m, m_dev_prov m = [] -> fetch_device c dev m = set_dev m dev.
Proof. intros c dev m H. unfold fetch_device. rewrite H. destruct (device_update_keeps_pending c); reflexivity. Qed.

Lemma synced_full_update : forall c dev ports m s,
  synced m s -> wf_event (apply (EFullUpdate dev ports) s) (EFullUpdate dev ports) ->
  synced (fetch_ports c ports (fetch_device c dev m)) (apply (EFullUpdate dev ports) s).
Proof.
  intros c dev ports m s Hs [Hsnap Haux]. cbn [apply] in *.
  rewrite (fetch_device_nopending c dev m (proj2 (proj2 Hs))).
  split; [|split].
  - cbn [s_ports]. intros id.
    apply (resync_pointwise_weak c ports (set_dev m dev) dev).
    + intros i p F. apply (synced_found_nopending m s Hs i p). exact F.
    + exact Hsnap.
    + exact Haux.
  - rewrite fetch_ports_dev. reflexivity.
  - rewrite fetch_ports_dev_prov. apply Hs.
Qed.

Lemma synced_step : forall c e m s,
  synced m s -> wf_event (apply e s) e -> synced (fst (handle c e m)) (apply e s).
Proof.
  intros c e m s Hs Hwf. destruct e; cbn [handle].
  - apply synced_value_change; assumption.
  - apply synced_port_update; assumption.
  - apply synced_port_add; assumption.
  - apply synced_port_remove; assumption.
  - apply synced_device_update; assumption.
  - cbn [fst]. apply synced_full_update; assumption.
  - exact Hs.
Qed.

Theorem mirror_after_events : forall c evs m s,
  synced m s -> wf_events s evs -> synced (handle_all c evs m) (apply_all evs s).
Proof.
  intros c evs. induction evs as [|e r IH]; intros m s Hs Hwf.
  - exact Hs.
  - destruct Hwf as [H1 H2]. unfold handle_all, apply_all. cbn [fold_left].
    apply IH; [apply synced_step; assumption|exact H2].
Qed.
