(* C12 — specification: the slave's own state, how each reported event changes it, what "the mirror equals the slave"
   means, and which values an event reports.  Written without reference to the master's handlers (only the data types of
   Mirror.v are shared).  Everything is executable: the [..b] versions are the oracle run by vm_compute on what the real
   master showed. *)
From QT Require Export C12.Mirror.
Open Scope string_scope.

(* ------------------------------------------------------------------------------------------------------------------ *)
(* the slave *)

Record sport := mk_sport {
  sp_attrs : attrs;      (* the port's JSON without "value"; names the port by "id" *)
  sp_value : val
}.

Record slave := mk_slave { s_ports : list sport; s_dev : attrs }.

Definition sp_has_id (id : string) (sp : sport) : bool :=
  match id_of (sp_attrs sp) with Some i => String.eqb id i | None => false end.

Fixpoint find_sport (id : string) (l : list sport) : option sport :=
  match l with
  | [] => None
  | sp :: r => if sp_has_id id sp then Some sp else find_sport id r
  end.

Fixpoint upd_sport (id : string) (f : sport -> sport) (l : list sport) : list sport :=
  match l with
  | [] => []
  | sp :: r => if sp_has_id id sp then f sp :: r else sp :: upd_sport id f r
  end.

Definition sport_of_json (a : attrs) : sport := mk_sport (remove_key "value" a) (get "value" a).

(* the change of the slave's state that an event reports *)
Definition apply (e : event) (s : slave) : slave :=
  match e with
  | EValueChange id v => mk_slave (upd_sport id (fun sp => mk_sport (sp_attrs sp) v) (s_ports s)) (s_dev s)
  | EPortUpdate a _ =>
      match id_of a with
      | Some id => mk_slave (upd_sport id (fun sp => mk_sport (remove_key "value" a)
                                                       (match lookup "value" a with Some v => v | None => sp_value sp end))
                                       (s_ports s)) (s_dev s)
      | None => s
      end
  | EPortAdd a _ =>
      match id_of a with
      | Some id => match find_sport id (s_ports s) with
                   | Some _ => s
                   | None => mk_slave (s_ports s ++ [sport_of_json a]) (s_dev s)
                   end
      | None => s
      end
  | EPortRemove id => mk_slave (filter (fun sp => negb (sp_has_id id sp)) (s_ports s)) (s_dev s)
  | EDeviceUpdate a => mk_slave (s_ports s) a
  | EFullUpdate dev ports => mk_slave (map (fun x => sport_of_json (fst x)) ports) dev
  | EUnknown => s
  end.

Definition apply_all (evs : list event) (s : slave) : slave := fold_left (fun s e => apply e s) evs s.

(* ------------------------------------------------------------------------------------------------------------------ *)
(* the mirror equals the slave *)

(* one mirrored port against the slave's port: same attributes, the newest value the master holds (queued or read) is the
   slave's value, the enabled mirror follows the slave's "enabled", nothing pending *)
Definition port_rel (p : mport) (sp : sport) : Prop :=
  mp_cached p = sp_attrs sp /\ last_remote p = sp_value sp /\
  mp_enabled p = truthy (get "enabled" (sp_attrs sp)) /\ mp_prov p = [].

(* exactly the slave's ports (by id), each related; same device attributes; nothing pending *)
Definition synced (m : master) (s : slave) : Prop :=
  (forall id, match find_port id (m_ports m), find_sport id (s_ports s) with
              | Some p, Some sp => port_rel p sp
              | None, None => True
              | _, _ => False
              end) /\
  m_dev m = s_dev s /\ m_dev_prov m = [].

(* the answer GET /ports/<id>/value gives when the master enables a port while handling an event: the call fails, or answers
   null, or answers the value the slave has after the event *)
Definition aux_ok (s' : slave) (a : attrs) (aux : option val) : Prop :=
  match aux with
  | None => True
  | Some v => v = VNone \/ exists id sp, id_of a = Some id /\ find_sport id (s_ports s') = Some sp /\ v = sp_value sp
  end.

Definition json_ids (ports : list (attrs * option val)) : list (option string) := map (fun x => id_of (fst x)) ports.

(* a GET /ports answer: every entry has an id and a value, ids are distinct *)
Definition snapshot_ok (ports : list (attrs * option val)) : Prop :=
  NoDup (json_ids ports) /\ Forall (fun x => id_of (fst x) <> None /\ has_key "value" (fst x) = true) ports.

Definition wf_event (s' : slave) (e : event) : Prop :=
  match e with
  | EPortUpdate a aux | EPortAdd a aux => aux_ok s' a aux
  | EFullUpdate _ ports => snapshot_ok ports /\ Forall (fun x => aux_ok s' (fst x) (snd x)) ports
  | _ => True
  end.

Fixpoint wf_events (s : slave) (evs : list event) : Prop :=
  match evs with
  | [] => True
  | e :: r => wf_event (apply e s) e /\ wf_events (apply e s) r
  end.

Definition no_pending (m : master) : Prop := Forall (fun p => mp_prov p = []) (m_ports m).

(* ------------------------------------------------------------------------------------------------------------------ *)
(* value order *)

(* remove adjacent repeats *)
Fixpoint dedup (l : list val) : list val :=
  match l with
  | [] => []
  | x :: r => match r with
              | [] => [x]
              | y :: _ => if val_eqb x y then dedup r else x :: dedup r
              end
  end.

(* the values an event reports for port id *)
Definition reported (id : string) (e : event) : list val :=
  match e with
  | EValueChange i v => if String.eqb id i then [v] else []
  | EPortUpdate a _ =>
      match id_of a with
      | Some i => if String.eqb id i then match lookup "value" a with Some v => [v] | None => [] end else []
      | None => []
      end
  | _ => []
  end.

(* a schedule interleaves reported events with iterations of the master's main loop *)
Inductive sstep := SEv (e : event) | STick.

Definition srun1 (c : cfg) (m : master) (s : sstep) : master :=
  match s with SEv e => fst (handle c e m) | STick => tick m end.
Definition srun (c : cfg) (sched : list sstep) (m : master) : master := fold_left (srun1 c) sched m.

Definition reported_all (id : string) (sched : list sstep) : list val :=
  flat_map (fun s => match s with SEv e => reported id e | STick => [] end) sched.

(* events under which port id keeps existing and stays enabled (value order is stated for such a port) *)
Definition stable (id : string) (s : sstep) : Prop :=
  match s with
  | STick => True
  | SEv (EPortUpdate a _) => id_of a = Some id -> truthy (get "enabled" a) = true
  | SEv (EPortRemove i) => i <> id
  | SEv (EFullUpdate _ _) => False
  | SEv _ => True
  end.

(* ------------------------------------------------------------------------------------------------------------------ *)
(* executable oracle on what the real master showed (GET /ports) against the state of the simulated slave *)

(* what the master must show for attribute n of a slave port (None = not prescribed: a master-owned attribute) *)
Definition expected_attr (slave_nm : string) (sa : attrs) (n : string) : option val :=
  if String.eqb n "id" then match id_of sa with Some i => Some (VS (slave_nm ++ "." ++ i)) | None => None end
  else if mem n MASTER_ATTRS then None
  else if is_renamed n then Some (get (drop7 n) sa)
  else match get n sa with VNone => None | v => Some v end.

(* a displayed port (its JSON incl. "value") against the slave's port: every displayed attribute that is prescribed has the
   prescribed value, every non-null slave attribute outside MASTER_ATTRS is displayed (expression and history attributes under their device_ names),
   and the value is the slave's value (null when the port is disabled) *)
Definition attr_names_to_show (sa : attrs) : list (string * string) :=   (* (name on the master, name on the slave) *)
  flat_map (fun kv =>
    let n := fst kv in
    if String.eqb n "id" || String.eqb n "value" || String.eqb n "pending_value" then []
    else if renamed_base (strip_all (String.length n) n) then [(device_pre ++ n, n)]     (* expression, history_*, and the
                                                                  device_... forms of a slave that is itself a hub *)
    else if mem n MASTER_ATTRS then []
    else [(n, n)]) sa.

(* optional attributes for which the master's own port object has no fallback: shown only if the slave has them *)
Definition no_fallback_attrs : list string := ["min"; "max"; "integer"; "step"; "choices"].

Definition view_port_ok (slave_nm : string) (shown : attrs) (sp : sport) : bool :=
  forallb (fun kv => if mem (fst kv) no_fallback_attrs then negb (is_none (get (fst kv) (sp_attrs sp))) else true) shown &&
  forallb (fun kv => if String.eqb (fst kv) "value" then true else
                     match expected_attr slave_nm (sp_attrs sp) (fst kv) with
                     | Some v => val_eqb (snd kv) v
                     | None => true
                     end) shown &&
  forallb (fun mn => match get (snd mn) (sp_attrs sp) with
                     | VNone => true
                     | v => val_eqb (get (fst mn) shown) v
                     end) (attr_names_to_show (sp_attrs sp)) &&
  val_eqb (get "value" shown) (if truthy (get "enabled" (sp_attrs sp)) then sp_value sp else VNone).

(* GET /ports of the master restricted to "<slave>." against the slave's ports: one displayed port per slave port, no others *)
Definition view_ok (slave_nm : string) (shown : list attrs) (s : list sport) : bool :=
  forallb (fun sp => match id_of (sp_attrs sp) with
                     | Some i =>
                         match filter (fun a => val_eqb (get "id" a) (VS (slave_nm ++ "." ++ i))) shown with
                         | [a] => view_port_ok slave_nm a sp
                         | _ => false
                         end
                     | None => false
                     end) s &&
  Nat.eqb (List.length shown) (List.length s).
