(* C12 — the MASTER_ATTRS read from slaves/ports.py by the translator are the modelled ones *)
From QT Require Import C12.Mirror Gen.C12Gen.
Open Scope string_scope.
Lemma master_attrs_ok :
  forallb (fun n => mem n MASTER_ATTRS) gen_master_attrs && forallb (fun n => mem n gen_master_attrs) MASTER_ATTRS = true.
Proof. vm_compute. reflexivity. Qed.
