(* C12 / C13 — message-level model of the master's mirror of one slave device (qtoggleserver/slaves/devices.py, ports.py).
   Definitions only (total, computable); proofs are in MirrorThm.v / ResyncThm.v / OrderThm.v.

   A JSON value is a [val]; a Python dict is an association list in insertion order ([attrs]).
   The mirror of a port is SlavePort's  _cached_attrs / _remote_value_queue / _cached_value / _enabled / _last_read_value /
   _provisioning  plus the attributes kept on the master (MASTER_ATTRS).  The handlers are the Slave._handle_* methods,
   fetch_and_update_ports, the two halves of _poll_once and one iteration of core.main.update (read_value on every enabled
   port).  The three behaviours that differ between the code as found and the repaired code are selected by a [cfg]
   (regenerated from the source by harness/translate/provisioning.py into Gen/C13Gen.v). *)
From QT Require Export Base.Prelude.
Open Scope string_scope.

(* ------------------------------------------------------------------------------------------------------------------ *)
(* JSON values and dicts *)

Inductive val :=
| VNone
| VB (b : bool)
| VZ (z : Z)
| VS (s : string)
| VX (code : Z).      (* any other JSON value (list, object, float), interned by the harness *)

Definition val_eqb (a b : val) : bool :=
  match a, b with
  | VNone, VNone => true
  | VB x, VB y => Bool.eqb x y
  | VZ x, VZ y => Z.eqb x y
  | VS x, VS y => String.eqb x y
  | VX x, VX y => Z.eqb x y
  | _, _ => false
  end.

Definition is_none (v : val) : bool := match v with VNone => true | _ => false end.

(* Python truthiness (used for the cached "enabled" attribute) *)
Definition truthy (v : val) : bool :=
  match v with
  | VNone => false
  | VB b => b
  | VZ z => negb (Z.eqb z 0)
  | VS s => negb (String.eqb s "")
  | VX _ => true
  end.

Definition attrs := list (string * val).

Fixpoint lookup (n : string) (a : attrs) : option val :=
  match a with
  | [] => None
  | (k, v) :: r => if String.eqb n k then Some v else lookup n r
  end.

(* dict.get(n): None when missing *)
Definition get (n : string) (a : attrs) : val := match lookup n a with Some v => v | None => VNone end.

Definition has_key (n : string) (a : attrs) : bool := match lookup n a with Some _ => true | None => false end.

(* d[n] = v : in place when the key exists, appended otherwise *)
Fixpoint dict_set (n : string) (v : val) (a : attrs) : attrs :=
  match a with
  | [] => [(n, v)]
  | (k, w) :: r => if String.eqb n k then (k, v) :: r else (k, w) :: dict_set n v r
  end.

Definition remove_key (n : string) (a : attrs) : attrs := filter (fun kv => negb (String.eqb n (fst kv))) a.

(* d.update(e) *)
Definition dict_update (e : attrs) (a : attrs) : attrs := fold_left (fun d kv => dict_set (fst kv) (snd kv) d) e a.

(* dict equality: same keys, same values, any order (keys are unique) *)
Definition dict_eqb (a b : attrs) : bool :=
  forallb (fun kv => option_eqb val_eqb (lookup (fst kv) b) (Some (snd kv))) a &&
  forallb (fun kv => has_key (fst kv) a) b.

Definition mem (n : string) (l : list string) : bool := existsb (String.eqb n) l.
Definition set_add (n : string) (l : list string) : list string := if mem n l then l else l ++ [n].

(* ------------------------------------------------------------------------------------------------------------------ *)
(* which variant of the code *)

Record cfg := mk_cfg {
  value_push_has_body : bool;        (* apply_provisioning passes the pending value as the body of PATCH /ports/<id>/value and
                                        queues it as remote value once sent (as write_value does online) *)
  port_update_keeps_pending : bool;  (* _handle_port_update overlays the pending attributes (and skips a pending value) before
                                        replacing the attribute cache *)
  device_update_keeps_pending : bool;(* _handle_device_update overlays the pending attributes instead of popping them from the
                                        dict it iterates, and so does fetch_and_update_device *)
  offline_write_clears_queue : bool  (* SlavePort.write_value, offline branch, drops the remote values still queued *)
}.

Definition cfg_found : cfg := mk_cfg false false false false.    (* the code as found (F5) *)
Definition cfg_fixed : cfg := mk_cfg true true true true.

(* ------------------------------------------------------------------------------------------------------------------ *)
(* the mirror *)

Record mport := mk_mport {
  mp_id : string;                 (* remote id; the master exposes it as <slave>.<id> *)
  mp_cached : attrs;              (* _cached_attrs *)
  mp_queue : list val;            (* _remote_value_queue, oldest first *)
  mp_cached_value : val;          (* _cached_value *)
  mp_enabled : bool;              (* BasePort._enabled: the enabled mirror *)
  mp_last_read : val;             (* _last_read_value: what GET /ports shows as value *)
  mp_prov : list string;          (* _provisioning *)
  mp_local : attrs;               (* attributes kept on the master: tag, expression, history_*, expires, ... *)
  mp_reads : list val             (* ghost: every value read_value returned, oldest first *)
}.

Record master := mk_master {
  m_ports : list mport;           (* registry order *)
  m_dev : attrs;                  (* Slave._cached_attrs *)
  m_dev_prov : list string;       (* Slave._provisioning_attrs *)
  m_ready : bool;                 (* Slave._ready *)
  m_online : bool                 (* Slave._online *)
}.

Definition set_ports (m : master) (ps : list mport) : master :=
  mk_master ps (m_dev m) (m_dev_prov m) (m_ready m) (m_online m).
Definition set_dev (m : master) (d : attrs) : master :=
  mk_master (m_ports m) d (m_dev_prov m) (m_ready m) (m_online m).
Definition set_dev_prov (m : master) (l : list string) : master :=
  mk_master (m_ports m) (m_dev m) l (m_ready m) (m_online m).
Definition set_ready (m : master) (b : bool) : master :=
  mk_master (m_ports m) (m_dev m) (m_dev_prov m) b (m_online m).
Definition set_online (m : master) (b : bool) : master :=
  mk_master (m_ports m) (m_dev m) (m_dev_prov m) (m_ready m) b.

Definition with_cached (p : mport) (a : attrs) : mport :=
  mk_mport (mp_id p) a (mp_queue p) (mp_cached_value p) (mp_enabled p) (mp_last_read p) (mp_prov p) (mp_local p) (mp_reads p).
Definition with_queue (p : mport) (q : list val) : mport :=
  mk_mport (mp_id p) (mp_cached p) q (mp_cached_value p) (mp_enabled p) (mp_last_read p) (mp_prov p) (mp_local p) (mp_reads p).
Definition with_enabled (p : mport) (b : bool) : mport :=
  mk_mport (mp_id p) (mp_cached p) (mp_queue p) (mp_cached_value p) b (mp_last_read p) (mp_prov p) (mp_local p) (mp_reads p).
Definition with_prov (p : mport) (l : list string) : mport :=
  mk_mport (mp_id p) (mp_cached p) (mp_queue p) (mp_cached_value p) (mp_enabled p) (mp_last_read p) l (mp_local p) (mp_reads p).
Definition with_cached_value (p : mport) (v : val) : mport :=
  mk_mport (mp_id p) (mp_cached p) (mp_queue p) v (mp_enabled p) (mp_last_read p) (mp_prov p) (mp_local p) (mp_reads p).
Definition with_local (p : mport) (a : attrs) : mport :=
  mk_mport (mp_id p) (mp_cached p) (mp_queue p) (mp_cached_value p) (mp_enabled p) (mp_last_read p) (mp_prov p) a (mp_reads p).

Fixpoint find_port (id : string) (ps : list mport) : option mport :=
  match ps with
  | [] => None
  | p :: r => if String.eqb id (mp_id p) then Some p else find_port id r
  end.

(* apply f to the (first) port with this id *)
Fixpoint upd_port (id : string) (f : mport -> mport) (ps : list mport) : list mport :=
  match ps with
  | [] => []
  | p :: r => if String.eqb id (mp_id p) then f p :: r else p :: upd_port id f r
  end.

Definition del_port (id : string) (ps : list mport) : list mport :=
  filter (fun p => negb (String.eqb id (mp_id p))) ps.

Definition ids (ps : list mport) : list string := map mp_id ps.

(* push_remote_value / get_last_remote_value *)
Definition push (v : val) (p : mport) : mport := with_queue p (mp_queue p ++ [v]).
Definition last_remote (p : mport) : val := last (mp_queue p) (mp_cached_value p).

(* SlavePort.update_cached_attrs: the dict replaces the cache; a "value" entry is not kept as attribute but queued *)
Definition update_cached (a : attrs) (p : mport) : mport :=
  let p1 := with_cached p (remove_key "value" a) in
  match lookup "value" a with
  | Some v => push v p1
  | None => p1
  end.

(* SlavePort.update_enabled; enable() calls handle_enable, which asks the device for the current value once the slave is
   ready.  aux = what GET /ports/<id>/value answers now: None = the call fails, Some VNone = null (nothing queued) *)
Definition update_enabled (ready : bool) (aux : option val) (p : mport) : mport :=
  let want := truthy (get "enabled" (mp_cached p)) in
  if want && negb (mp_enabled p) then
    let p1 := with_enabled p true in
    if ready then
      match aux with
      | Some v => if is_none v then p1 else push v p1
      | None => p1
      end
    else p1
  else if negb want && mp_enabled p then with_enabled p false
  else p.

(* get_provisioning_attrs (port and device): pending names whose cached value is not None, with that value *)
Definition prov_attrs (prov : list string) (cached : attrs) : attrs :=
  flat_map (fun n => match get n cached with VNone => [] | v => [(n, v)] end) prov.

(* get_provisioning_value *)
Definition prov_value (p : mport) : val := if mem "value" (mp_prov p) then mp_cached_value p else VNone.

(* a port JSON names its port by "id" *)
Definition id_of (a : attrs) : option string := match get "id" a with VS s => Some s | _ => None end.

(* SlavePort(slave, attrs) + load(): no persisted record is assumed for a port that is new to the master *)
Definition new_port (ready : bool) (aux : option val) (id : string) (a : attrs) : mport :=
  update_enabled ready aux
    (update_cached a (mk_mport id [] [] VNone false VNone [] [("tag", VS "")] [])).

(* ------------------------------------------------------------------------------------------------------------------ *)
(* events and their handlers; the boolean says whether the handler returned normally (false = it raised: the listen loop
   ignores the exception and goes on with the next event) *)

Inductive event :=
| EValueChange (id : string) (v : val)
| EPortUpdate (a : attrs) (aux : option val)
| EPortAdd (a : attrs) (aux : option val)
| EPortRemove (id : string)
| EDeviceUpdate (a : attrs)
| EFullUpdate (dev : attrs) (ports : list (attrs * option val))     (* the answers of GET /device and GET /ports *)
| EUnknown.

Definition handle_value_change (id : string) (v : val) (m : master) : master * bool :=
  match find_port id (m_ports m) with
  | None => (m, false)                                                  (* PortNotFound *)
  | Some p =>
      if negb (is_none (prov_value p)) then (m, true)                   (* pending provisioning value: ignored *)
      else if val_eqb (last_remote p) v then (m, true)                  (* same value: ignored *)
      else (set_ports m (upd_port id (push v) (m_ports m)), true)
  end.

(* the dict _handle_port_update hands to update_cached_attrs *)
Definition port_update_dict (c : cfg) (p : mport) (a : attrs) : attrs :=
  if port_update_keeps_pending c then
    let a1 := dict_update (prov_attrs (mp_prov p) (mp_cached p)) a in
    if is_none (prov_value p) then a1 else remove_key "value" a1
  else a.

Definition port_update_on (c : cfg) (ready : bool) (a : attrs) (aux : option val) (p : mport) : mport :=
  update_enabled ready aux (update_cached (port_update_dict c p a) p).

Definition handle_port_update (c : cfg) (a : attrs) (aux : option val) (m : master) : master * bool :=
  match id_of a with
  | None => (m, false)
  | Some id =>
      match find_port id (m_ports m) with
      | None => (m, false)
      | Some _ => (set_ports m (upd_port id (port_update_on c (m_ready m) a aux) (m_ports m)), true)
      end
  end.

Definition handle_port_add (a : attrs) (aux : option val) (m : master) : master * bool :=
  match id_of a with
  | None => (m, false)
  | Some id =>
      match find_port id (m_ports m) with
      | Some _ => (m, false)                                            (* PortLoadError: the id already exists *)
      | None => (set_ports m (m_ports m ++ [new_port (m_ready m) aux id a]), true)
      end
  end.

Definition handle_port_remove (id : string) (m : master) : master * bool :=
  match find_port id (m_ports m) with
  | None => (m, false)
  | Some _ => (set_ports m (del_port id (m_ports m)), true)
  end.

Definition handle_device_update (c : cfg) (a : attrs) (m : master) : master * bool :=
  let pending := prov_attrs (m_dev_prov m) (m_dev m) in
  if device_update_keeps_pending c then (set_dev m (dict_update pending a), true)
  else if existsb (fun kv => has_key (fst kv) pending) a
  then (m, false)                                    (* RuntimeError: dictionary changed size during iteration *)
  else (set_dev m a, true).

(* fetch_and_update_ports: existing ports updated, new ones added, missing ones removed; local = the ports before the call *)
Definition fetch_ports (c : cfg) (ports : list (attrs * option val)) (m : master) : master :=
  let local := ids (m_ports m) in
  let m1 := fold_left (fun m x => match id_of (fst x) with
                                   | Some id => if mem id local then fst (handle_port_update c (fst x) (snd x) m) else m
                                   | None => m end) ports m in
  let m2 := fold_left (fun m x => match id_of (fst x) with
                                   | Some id => if mem id local then m else fst (handle_port_add (fst x) (snd x) m)
                                   | None => m end) ports m1 in
  let remote := flat_map (fun x => match id_of (fst x) with Some id => [id] | None => [] end) ports in
  set_ports m2 (filter (fun p => negb (mem (mp_id p) local) || mem (mp_id p) remote) (m_ports m2)).

(* fetch_and_update_device: the answer of GET /device replaces the device attribute cache (pending attributes keep their
   pending value in the repaired code) *)
Definition fetch_device (c : cfg) (dev : attrs) (m : master) : master :=
  set_dev m (if device_update_keeps_pending c then dict_update (prov_attrs (m_dev_prov m) (m_dev m)) dev else dev).

Definition handle (c : cfg) (e : event) (m : master) : master * bool :=
  match e with
  | EValueChange id v => handle_value_change id v m
  | EPortUpdate a aux => handle_port_update c a aux m
  | EPortAdd a aux => handle_port_add a aux m
  | EPortRemove id => handle_port_remove id m
  | EDeviceUpdate a => handle_device_update c a m
  | EFullUpdate dev ports => (fetch_ports c ports (fetch_device c dev m), true)
  | EUnknown => (m, true)
  end.

Definition handle_all (c : cfg) (evs : list event) (m : master) : master :=
  fold_left (fun m e => fst (handle c e m)) evs m.

(* ------------------------------------------------------------------------------------------------------------------ *)
(* polling: the two halves of _poll_once for a slave that is online and ready *)

Definition poll_device (c : cfg) (dev : attrs) (m : master) : master :=
  if dict_eqb dev (m_dev m) then m else fst (handle_device_update c dev m).

Definition poll_port_values (c : cfg) (x : attrs * option val) (m : master) : master :=
  match id_of (fst x) with
  | None => m
  | Some id =>
      match find_port id (m_ports m) with
      | None => m
      | Some p =>
          let a := remove_key "value" (fst x) in
          let m1 := if dict_eqb a (mp_cached p) then m else fst (handle_port_update c a (snd x) m) in
          match find_port id (m_ports m1) with
          | None => m1
          | Some p1 =>
              let nv := get "value" (fst x) in
              if val_eqb (last_remote p1) nv then m1 else fst (handle_value_change id nv m1)
          end
      end
  end.

Definition poll_ports (c : cfg) (ports : list (attrs * option val)) (m : master) : master :=
  let local := ids (m_ports m) in
  let remote := flat_map (fun x => match id_of (fst x) with Some id => [id] | None => [] end) ports in
  let m1 := fold_left (fun m x => match id_of (fst x) with
                                   | Some id => if mem id local then m
                                                else fst (handle_port_add (remove_key "value" (fst x)) (snd x) m)
                                   | None => m end) ports m in
  let m2 := fold_left (fun m id => if mem id remote then m else fst (handle_port_remove id m)) local m1 in
  fold_left (fun m x => match id_of (fst x) with
                        | Some id => if mem id local then poll_port_values c x m else m
                        | None => m end) ports m2.

(* ------------------------------------------------------------------------------------------------------------------ *)
(* one iteration of core.main.update: read_value on every enabled port takes one queued element *)

Definition tick_port (p : mport) : mport :=
  if mp_enabled p then
    match mp_queue p with
    | [] => p                                                          (* SkipRead *)
    | v :: q =>
        mk_mport (mp_id p) (mp_cached p) q v (mp_enabled p) v (mp_prov p) (mp_local p) (mp_reads p ++ [v])
    end
  else p.

Definition tick (m : master) : master := set_ports m (map tick_port (m_ports m)).

Fixpoint ticks (n : nat) (m : master) : master := match n with O => m | S k => ticks k (tick m) end.

(* ------------------------------------------------------------------------------------------------------------------ *)
(* attribute names: MASTER_ATTRS stay on the master; device_expression / device_history_* name the slave's own
   expression / history_* attributes *)

Definition MASTER_ATTRS : list string :=
  ["id"; "tag"; "expression"; "history_interval"; "history_retention"; "online"; "last_sync"; "expires"].

Definition device_pre : string := "device_".

Definition drop7 (s : string) : string := substring 7 (String.length s - 7) s.

Fixpoint strip_all (fuel : nat) (s : string) : string :=
  match fuel with
  | O => s
  | S f => if prefix device_pre s then strip_all f (drop7 s) else s
  end.

Definition hist_char (a : ascii) : bool :=
  let n := nat_of_ascii a in
  ((97 <=? n) && (n <=? 122) || (48 <=? n) && (n <=? 57) || (n =? 95))%nat.

Fixpoint all_chars (f : ascii -> bool) (s : string) : bool :=
  match s with EmptyString => true | String a r => f a && all_chars f r end.

(* _DEVICE_EXPRESSION_RE / _DEVICE_HISTORY_RE without the device_ prefixes *)
Definition renamed_base (s : string) : bool :=
  String.eqb s "expression" ||
  (prefix "history_" s && (8 <? String.length s)%nat && all_chars hist_char (substring 8 (String.length s - 8) s)).

Definition is_renamed (n : string) : bool := prefix device_pre n && renamed_base (strip_all (String.length n) n).

(* the name under which the slave knows attribute n of the master *)
Definition slave_name (n : string) : string := if is_renamed n then drop7 n else n.

(* SlavePort.get_attr; [fallback] is BasePort.get_attr (defaults of the master's own port object) *)
Definition get_attr (slave : string) (fallback : string -> val) (p : mport) (n : string) : val :=
  if mem n MASTER_ATTRS then
    (if String.eqb n "id" then VS (slave ++ "." ++ mp_id p) else get n (mp_local p))
  else if is_renamed n then get (drop7 n) (mp_cached p)
  else match get n (mp_cached p) with
       | VNone => fallback n
       | v => v
       end.

(* requests the master sends *)
Inductive body := BNone | BAttrs (a : attrs) | BVal (v : val).
Record request := mk_req { r_method : string; r_path : string; r_body : body }.

(* SlavePort.set_attr while the slave is online: MASTER_ATTRS change the master only, anything else is sent to the slave under
   the slave's name for it *)
Definition set_attr_online_request (p : mport) (n : string) (v : val) : option request :=
  if mem n MASTER_ATTRS then None
  else Some (mk_req "PATCH" ("/ports/" ++ mp_id p) (BAttrs [(slave_name n, v)])).
