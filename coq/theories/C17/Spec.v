(* C17 — specification of the date functions, written independently of the code's control flow:
   closed forms on day numbers / month indices and a declarative "first second of a local day" predicate.
   These are the oracles the harness evaluates (vm_compute) against the implementation's answers. *)
From QT Require Export C17.Calendar.
Open Scope Z_scope.

Section Spec.
  Variable off : Z -> Z.

  (* all the field functions at once: (YEAR MONTH DAY DOW LDOM HOUR MINUTE SECOND MINUTEDAY SECONDDAY) of ts *)
  Definition fields_spec (ts : Z) (v : list Z) : bool :=
    match v with
    | [y; m; d; dow; ldom; h; mi; s; md; sd] =>
        valid_date y m d && (0 <=? h) && (h <=? 23) && (0 <=? mi) && (mi <=? 59) && (0 <=? s) && (s <=? 59)
        && (days_from_civil y m d * 86400 + h * 3600 + mi * 60 + s =? local off ts)
        && (dow =? (days_from_civil y m d + 3) mod 7)
        && (ldom =? month_length y m) && (md =? h * 60 + mi) && (sd =? h * 3600 + mi * 60 + s)
    | _ => false
    end.

  (* u is the first second of the local day with number [day] *)
  Definition starts_local_day (u day : Z) : bool :=
    (local off u / 86400 =? day) && (local off (u - 1) / 86400 <? day).

  Definition today (ts : Z) : Z := local off ts / 86400.

  Definition BOD_day (ts n : Z) : Z := today ts + n.
  Definition BOW_day (ts n s : Z) : Z := let t := today ts in t - (weekday t - s) mod 7 + 7 * n.
  Definition BOM_index (y m n : Z) : Z * Z := let k := 12 * y + (m - 1) + n in (k / 12, k mod 12 + 1).
  Definition BOM_day (ts n : Z) : Z :=
    let '(y, m, _) := civil_from_days (today ts) in let '(y', m') := BOM_index y m n in days_from_civil y' m' 1.
  Definition BOY_day (ts n : Z) : Z :=
    let '(y, _, _) := civil_from_days (today ts) in days_from_civil (y + n) 1 1.

  (* DATE: the answer u shows the requested fields in local time (when some instant does) *)
  Definition DATE_spec (y m d h mi s u : Z) : bool :=
    let f := fromtimestamp off u in
    (f_year f =? y) && (f_month f =? m) && (f_day f =? d) && (f_hour f =? h) && (f_minute f =? mi) && (f_second f =? s).

  Definition HMS_spec (ts h1 m1 s1 h2 m2 s2 : Z) : Z :=
    let sod := local off ts mod 86400 in
    if (h1 * 3600 + m1 * 60 + s1 <=? sod) && (sod <=? h2 * 3600 + m2 * 60 + s2) then 1 else 0.

  Definition lex_le (a b c d : Z) : bool := (a <? c) || ((a =? c) && (b <=? d)).

  Definition MD_spec (ts mo1 d1 mo2 d2 : Z) : Z :=
    let '(_, m, d) := civil_from_days (today ts) in
    if lex_le mo1 d1 m d && lex_le m d mo2 d2 then 1 else 0.
End Spec.
