(* C17 — month arithmetic of days_from_civil (case analysis on the month, closed by lia). *)
From QT Require Import C17.Spec.
From Coq Require Import ZifyBool.
Open Scope Z_scope.
Ltac Zify.zify_post_hook ::= Z.to_euclidean_division_equations.

(* ------------------------------------------------------------------ month arithmetic *)

Ltac split_ifs := repeat match goal with |- context [if ?b then _ else _] => destruct b eqn:? end.

Lemma dfc_day y m d : days_from_civil y m d = days_from_civil y m 1 + d - 1.
Proof. unfold days_from_civil. cbv zeta. ring. Qed.

Lemma dfc_next_month_case y m :
  m = 1 \/ m = 2 \/ m = 3 \/ m = 4 \/ m = 5 \/ m = 6 \/ m = 7 \/ m = 8 \/ m = 9 \/ m = 10 \/ m = 11 ->
  days_from_civil y (m + 1) 1 = days_from_civil y m 1 + month_length y m.
Proof.
  intros Hm. unfold days_from_civil, month_length, is_leap. cbv zeta.
  repeat (destruct Hm as [->|Hm]); try subst m; split_ifs; lia.
Qed.

Lemma dfc_next_year y : days_from_civil (y + 1) 1 1 = days_from_civil y 12 1 + 31.
Proof. unfold days_from_civil. cbv zeta. split_ifs; try lia. Qed.

Lemma dfc_next_month y m : 1 <= m < 12 -> days_from_civil y (m + 1) 1 = days_from_civil y m 1 + month_length y m.
Proof. intros H. apply dfc_next_month_case. lia. Qed.

Lemma month_length_bounds y m : 28 <= month_length y m <= 31.
Proof. unfold month_length. split_ifs; lia. Qed.

Lemma month_length_12 y : month_length y 12 = 31.
Proof. reflexivity. Qed.
