(* C17 — instant-level statements: field functions, DATE, local midnights (for a fixed UTC offset), intervals. *)
From QT Require Import C17.Spec C17.CalendarFinite C17.CalendarThm C17.CalendarMonth C17.CalendarLoops.
From Coq Require Import ZifyBool.
Open Scope Z_scope.
Ltac Zify.zify_post_hook ::= Z.to_euclidean_division_equations.

Section AnyOffset.
  Variable off : Z -> Z.

  (* the field functions return the fields of the instant in local time (any offset function) *)
  Theorem fields_are_local_fields ts :
    fields_spec off ts [YEAR off ts; MONTH off ts; DAY off ts; DOW off ts; LDOM off ts; HOUR off ts; MINUTE off ts;
                        SECOND off ts; MINUTEDAY off ts; SECONDDAY off ts] = true.
  Proof.
    unfold fields_spec, YEAR, MONTH, DAY, DOW, LDOM, HOUR, MINUTE, SECOND, MINUTEDAY, SECONDDAY, fromtimestamp, fields_of_naive.
    set (lt := local off ts).
    pose proof (civil_from_days_valid (lt / 86400)) as Hv. pose proof (days_from_civil_from_days (lt / 86400)) as Hd.
    destruct (civil_from_days (lt / 86400)) as [[y m] d]. cbn [f_year f_month f_day f_hour f_minute f_second].
    rewrite Hv, Hd. unfold weekday.
    repeat (apply andb_true_iff; split); try reflexivity; lia.
  Qed.

  (* HMSINTERVAL is true exactly inside the daily interval (second of the local day between start and stop) *)
  Theorem HMSINTERVAL_iff ts h1 m1 s1 h2 m2 s2 :
    0 <= h1 <= 23 -> 0 <= m1 <= 59 -> 0 <= s1 <= 59 -> 0 <= h2 <= 23 -> 0 <= m2 <= 59 -> 0 <= s2 <= 59 ->
    HMSINTERVAL off ts h1 m1 s1 h2 m2 s2 = Ok (HMS_spec off ts h1 m1 s1 h2 m2 s2).
  Proof.
    intros. unfold HMSINTERVAL, HMS_spec, fromtimestamp, fields_of_naive, naive_of.
    set (lt := local off ts).
    destruct (civil_from_days (lt / 86400)) as [[y m] d]. cbn [f_year f_month f_day f_hour f_minute f_second].
    repeat match goal with |- context [negb ((?a <=? ?b) && (?c <=? ?d))] =>
      replace (negb ((a <=? b) && (c <=? d))) with false by lia end.
    f_equal.
    set (D := days_from_civil y m d).
    match goal with |- (if ?a then _ else _) = (if ?b then _ else _) => replace a with b; [reflexivity|] end.
    lia.
  Qed.
End AnyOffset.

(* ------------------------------------------------------------------ dates of one year are ordered like (month, day) *)

Lemma dfc_month_start_mono y m1 k :
  1 <= m1 -> m1 + Z.of_nat k < 12 ->
  days_from_civil y m1 1 + month_length y m1 <= days_from_civil y (m1 + Z.of_nat k + 1) 1.
Proof.
  intros H1. induction k as [|k IH]; intros H2.
  - change (Z.of_nat 0) with 0. rewrite Z.add_0_r. rewrite dfc_next_month by lia. lia.
  - rewrite Nat2Z.inj_succ in *. specialize (IH ltac:(lia)).
    replace (m1 + Z.succ (Z.of_nat k) + 1) with (m1 + Z.of_nat k + 1 + 1) by lia.
    rewrite (dfc_next_month y (m1 + Z.of_nat k + 1)) by lia.
    pose proof (month_length_bounds y (m1 + Z.of_nat k + 1)). lia.
Qed.

Lemma dfc_lex y m1 d1 m2 d2 :
  valid_date y m1 d1 = true -> valid_date y m2 d2 = true ->
  (days_from_civil y m1 d1 <= days_from_civil y m2 d2 <-> (m1 < m2 \/ (m1 = m2 /\ d1 <= d2))).
Proof.
  intros V1 V2. apply valid_date_iff in V1. apply valid_date_iff in V2.
  rewrite (dfc_day y m1 d1), (dfc_day y m2 d2).
  destruct (Z.lt_trichotomy m1 m2) as [L|[E|G]].
  - pose proof (dfc_month_start_mono y m1 (Z.to_nat (m2 - m1 - 1)) ltac:(lia)) as H.
    rewrite Z2Nat.id in H by lia. replace (m1 + (m2 - m1 - 1) + 1) with m2 in H by ring. specialize (H ltac:(lia)). lia.
  - subst m2. lia.
  - pose proof (dfc_month_start_mono y m2 (Z.to_nat (m1 - m2 - 1)) ltac:(lia)) as H.
    rewrite Z2Nat.id in H by lia. replace (m2 + (m1 - m2 - 1) + 1) with m1 in H by ring. specialize (H ltac:(lia)). lia.
Qed.

Section AnyOffset2.
  Variable off : Z -> Z.

  (* MDINTERVAL is true exactly when (month, day) of the local date lies between the two (month, day) pairs *)
  Theorem MDINTERVAL_iff ts mo1 d1 mo2 d2 :
    let y := YEAR off ts in
    valid_date y mo1 d1 = true -> valid_date y mo2 d2 = true ->
    MDINTERVAL off ts mo1 d1 mo2 d2 = Ok (MD_spec off ts mo1 d1 mo2 d2).
  Proof.
    cbv zeta. unfold MDINTERVAL, MD_spec, YEAR, today, fromtimestamp, fields_of_naive.
    set (lt := local off ts).
    pose proof (civil_from_days_valid (lt / 86400)) as Hv.
    destruct (civil_from_days (lt / 86400)) as [[y m] d]. cbn [f_year f_month f_day f_hour f_minute f_second].
    intros V1 V2.
    pose proof (dfc_lex y mo1 d1 m d V1 Hv) as L1. pose proof (dfc_lex y m d mo2 d2 Hv V2) as L2.
    apply valid_date_iff in V1. apply valid_date_iff in V2.
    replace (negb ((1 <=? mo1) && (mo1 <=? 12))) with false by lia.
    replace (negb ((1 <=? d1) && (d1 <=? month_length y mo1))) with false by lia.
    replace (negb ((1 <=? mo2) && (mo2 <=? 12))) with false by lia.
    replace (negb ((1 <=? d2) && (d2 <=? month_length y mo2))) with false by lia.
    f_equal. unfold lex_le.
    set (A := days_from_civil y mo1 d1) in *. set (B := days_from_civil y m d) in *. set (C := days_from_civil y mo2 d2) in *.
    set (tod := lt mod 86400 / 3600 * 3600 + lt mod 86400 mod 3600 / 60 * 60 + lt mod 86400 mod 60).
    match goal with |- (if ?a then _ else _) = (if ?b then _ else _) => replace a with b; [reflexivity|] end.
    clearbody A B C tod. lia.
  Qed.
End AnyOffset2.

(* ------------------------------------------------------------------ fixed UTC offset *)

Section FixedOffset.
  Variable c : Z.
  Let off := fun _ : Z => c.

  Lemma mktime_const t : mktime off t = t - c.
  Proof.
    unfold mktime, local, off. cbv zeta.
    replace (t - (t + c - t) + c =? t) with true by lia.
    replace (t + c - t =? t - (t + c - t) - 86400 + c - (t - (t + c - t) - 86400)) with true by lia. lia.
  Qed.

  Lemma local_const u : local off u = u + c.
  Proof. reflexivity. Qed.

  (* a midnight computed by the functions is the first second of that local day *)
  Lemma midnight_of_starts_day y m d u :
    midnight_of off y m d = Ok u -> starts_local_day off u (days_from_civil y m d) = true.
  Proof.
    unfold midnight_of. destruct (year_ok y && valid_date y m d); [|discriminate].
    intros H. injection H as <-. rewrite mktime_const. unfold starts_local_day. rewrite !local_const. lia.
  Qed.

  Section WithBack.
    Variable back : Z -> Z -> Z.
    Hypothesis back_ok : forall wd s, 0 <= wd <= 6 -> 0 <= s <= 6 -> back wd s = (wd - s) mod 7.

    Theorem BOW_is_local_midnight ts n s u :
      0 <= s <= 6 -> BOW_gen off back ts n s = Ok u -> starts_local_day off u (BOW_day off ts n s) = true.
    Proof.
      intros Hs. unfold BOW_gen, BOW_day, today.
      pose proof (bow_ymd_day back back_ok (local off ts / 86400) n s Hs) as H.
      destruct (bow_ymd back (local off ts / 86400) n s) as [[y m] d]. destruct H as [_ HD].
      intros Hu. apply midnight_of_starts_day in Hu. rewrite HD in Hu. exact Hu.
    Qed.
  End WithBack.

  Theorem BOD_is_local_midnight ts n u :
    BOD off ts n = Ok u -> starts_local_day off u (BOD_day off ts n) = true.
  Proof.
    unfold BOD, BOD_day, today. pose proof (days_from_civil_from_days (local off ts / 86400 + n)) as H.
    destruct (civil_from_days (local off ts / 86400 + n)) as [[y m] d].
    intros Hu. apply midnight_of_starts_day in Hu. rewrite H in Hu. exact Hu.
  Qed.

  Theorem BOM_is_local_midnight ts n u :
    BOM off ts n = Ok u -> starts_local_day off u (BOM_day off ts n) = true.
  Proof.
    unfold BOM, BOM_day, YEAR, MONTH, today, fromtimestamp, fields_of_naive.
    pose proof (civil_from_days_valid (local off ts / 86400)) as Hv.
    destruct (civil_from_days (local off ts / 86400)) as [[y m] d]. cbn [f_year f_month].
    apply valid_date_iff in Hv. rewrite bom_closed_form by lia.
    destruct (BOM_index y m n) as [y' m']. apply midnight_of_starts_day.
  Qed.

  Theorem BOY_is_local_midnight ts n u :
    BOY off ts n = Ok u -> starts_local_day off u (BOY_day off ts n) = true.
  Proof.
    unfold BOY, BOY_day, YEAR, today, fromtimestamp, fields_of_naive.
    destruct (civil_from_days (local off ts / 86400)) as [[y m] d]. cbn [f_year].
    apply midnight_of_starts_day.
  Qed.

  (* DATE rebuilds the instant from its fields *)
  Theorem DATE_rebuilds ts :
    year_ok (YEAR off ts) = true ->
    DATE off (YEAR off ts) (MONTH off ts) (DAY off ts) (HOUR off ts) (MINUTE off ts) (SECOND off ts) = Ok ts.
  Proof.
    intros Hy. pose proof (fields_are_local_fields off ts) as HF. unfold fields_spec in HF.
    repeat (apply andb_true_iff in HF; destruct HF as [HF ?]).
    unfold DATE. rewrite Hy. cbn [negb].
    repeat match goal with |- context [negb ((?a <=? ?b) && (?c <=? ?d))] =>
      replace (negb ((a <=? b) && (c <=? d))) with false by lia end.
    rewrite mktime_const. unfold naive_of. rewrite local_const in *. f_equal. lia.
  Qed.
End FixedOffset.
