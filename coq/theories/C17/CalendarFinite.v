(* C17 — proofs about the calendar model. *)
From QT Require Import C17.Spec.
From Coq Require Import ZifyBool.
Open Scope Z_scope.
Ltac Zify.zify_post_hook ::= Z.to_euclidean_division_equations.

(* ------------------------------------------------------------------ bounded universal check, lifted *)
Fixpoint all_from (n : nat) (z0 : Z) (p : Z -> bool) : bool :=
  match n with O => true | S k => p z0 && all_from k (z0 + 1) p end.

Lemma all_from_spec n : forall z0 p, all_from n z0 p = true -> forall z, z0 <= z < z0 + Z.of_nat n -> p z = true.
Proof.
  induction n as [|k IH]; intros z0 p H z Hz.
  - simpl in Hz. lia.
  - cbn [all_from] in H. apply andb_true_iff in H. destruct H as [Hk Hr].
    destruct (Z.eq_dec z z0) as [->|Hne]; [exact Hk|].
    apply (IH (z0 + 1) p Hr). rewrite Nat2Z.inj_succ in Hz. lia.
Qed.

Definition all_below (n : nat) (p : Z -> bool) : bool := all_from n 0 p.

Lemma all_below_spec n p : all_below n p = true -> forall z, 0 <= z < Z.of_nat n -> p z = true.
Proof. intros H z Hz. apply (all_from_spec n 0 p H). lia. Qed.

Definition doe_of (yoe m d : Z) : Z :=
  let mp := if 2 <? m then m - 3 else m + 9 in
  yoe * 365 + yoe / 4 - yoe / 100 + ((153 * mp + 2) / 5 + d - 1).

Lemma days_from_civil_doe y m d :
  days_from_civil y m d =
  let y' := if m <=? 2 then y - 1 else y in (y' / 400) * 146097 + doe_of (y' mod 400) m d - 719468.
Proof. unfold days_from_civil, doe_of. cbv zeta. ring. Qed.

(* --- check A: every day of the era decodes to a valid date that encodes back to it *)
Definition triple_eqb (a b : Z * Z * Z) : bool :=
  let '(a1, a2, a3) := a in let '(b1, b2, b3) := b in (a1 =? b1) && (a2 =? b2) && (a3 =? b3).

Definition checkA (doe : Z) : bool :=
  let '(yoe, m, d) := civil_of_doe doe in
  (0 <=? yoe) && (yoe <? 400) && (1 <=? m) && (m <=? 12) && (1 <=? d)
  && (d <=? month_length (if m <=? 2 then yoe + 1 else yoe) m)
  && (doe_of yoe m d =? doe).

Lemma checkA_all : all_below (Z.to_nat 146097) checkA = true.
Proof. vm_cast_no_check (eq_refl true). Qed.

(* --- check B: every valid date of a 400-year cycle encodes into the era and decodes back *)
Definition checkB (ym m0 d0 : Z) : bool :=
  let m := m0 + 1 in let d := d0 + 1 in
  let yoe := (ym - (if m <=? 2 then 1 else 0)) mod 400 in
  let doe := doe_of yoe m d in
  if d <=? month_length ym m
  then (0 <=? doe) && (doe <? 146097) && triple_eqb (civil_of_doe doe) (yoe, m, d)
  else true.

Lemma checkB_all :
  all_below (Z.to_nat 400) (fun ym => all_below 12 (fun m0 => all_below 31 (fun d0 => checkB ym m0 d0))) = true.
Proof. vm_cast_no_check (eq_refl true). Qed.

Lemma is_leap_mod400 y : is_leap (y mod 400) = is_leap y.
Proof.
  unfold is_leap.
  assert (H4 : (y mod 400) mod 4 = y mod 4) by lia.
  assert (H100 : (y mod 400) mod 100 = y mod 100) by lia.
  rewrite H4, H100, Zmod_mod. reflexivity.
Qed.

Lemma month_length_mod400 y m : month_length (y mod 400) m = month_length y m.
Proof. unfold month_length. rewrite is_leap_mod400. reflexivity. Qed.

Lemma month_length_shift y e m : month_length (y + e * 400) m = month_length y m.
Proof.
  rewrite <- (month_length_mod400 (y + e * 400)), <- (month_length_mod400 y).
  rewrite Z_mod_plus_full. reflexivity.
Qed.
