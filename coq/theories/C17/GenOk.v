(* C17 — the first-weekday rule regenerated from date.py (Gen/C17Gen.v) computes (weekday - s) mod 7 on 0..6 x 0..6.
   Finite domain, checked completely; re-proved on every run against the regenerated definition. *)
From QT Require Import C17.Calendar Gen.C17Gen.
Open Scope Z_scope.

Lemma bow_back_ok : forall wd s, 0 <= wd <= 6 -> 0 <= s <= 6 -> bow_back wd s = (wd - s) mod 7.
Proof.
  intros wd s Hw Hs.
  assert (Hwd : wd = 0 \/ wd = 1 \/ wd = 2 \/ wd = 3 \/ wd = 4 \/ wd = 5 \/ wd = 6) by lia.
  assert (Hss : s = 0 \/ s = 1 \/ s = 2 \/ s = 3 \/ s = 4 \/ s = 5 \/ s = 6) by lia.
  clear Hw Hs.
  repeat (destruct Hwd as [->|Hwd]); try subst wd;
    repeat (destruct Hss as [->|Hss]); try subst s; vm_compute; reflexivity.
Qed.
