(* C17 — model of the calendar arithmetic that qtoggleserver/core/expressions/date.py relies on
   (Python's datetime: proleptic Gregorian calendar, naive local time <-> POSIX seconds) and of the date functions
   themselves.  Definitions only; proofs are in CalendarThm.v so that the model still runs when a proof breaks. *)
From QT Require Export Base.Prelude.
Open Scope Z_scope.

(* ---------------------------------------------------------------- civil calendar on Z (days since 1970-01-01) *)

Definition days_from_civil (y m d : Z) : Z :=
  let y' := if m <=? 2 then y - 1 else y in
  let era := y' / 400 in
  let yoe := y' mod 400 in
  let mp := if 2 <? m then m - 3 else m + 9 in
  let doy := (153 * mp + 2) / 5 + d - 1 in
  let doe := yoe * 365 + yoe / 4 - yoe / 100 + doy in
  era * 146097 + doe - 719468.

(* the part of civil_from_days that only depends on the day of the 400-year era *)
Definition civil_of_doe (doe : Z) : Z * Z * Z :=   (* (year of era counted from March, month, day) *)
  let yoe := (doe - doe / 1460 + doe / 36524 - doe / 146096) / 365 in
  let doy := doe - (365 * yoe + yoe / 4 - yoe / 100) in
  let mp := (5 * doy + 2) / 153 in
  let d := doy - (153 * mp + 2) / 5 + 1 in
  let m := if mp <? 10 then mp + 3 else mp - 9 in
  (yoe, m, d).

Definition civil_from_days (z : Z) : Z * Z * Z :=
  let z' := z + 719468 in
  let era := z' / 146097 in
  let doe := z' mod 146097 in
  let '(yoe, m, d) := civil_of_doe doe in
  let y := yoe + era * 400 in
  (if m <=? 2 then y + 1 else y, m, d).

Definition is_leap (y : Z) : bool :=
  (y mod 4 =? 0) && (negb (y mod 100 =? 0) || (y mod 400 =? 0)).

(* calendar.monthrange(y, m)[1] *)
Definition month_length (y m : Z) : Z :=
  if m =? 2 then (if is_leap y then 29 else 28)
  else if (m =? 4) || (m =? 6) || (m =? 9) || (m =? 11) then 30 else 31.

(* datetime.weekday(): Monday = 0; 1970-01-01 was a Thursday *)
Definition weekday (days : Z) : Z := (days + 3) mod 7.

Definition valid_date (y m d : Z) : bool :=
  (1 <=? m) && (m <=? 12) && (1 <=? d) && (d <=? month_length y m).

Definition year_ok (y : Z) : bool := (1 <=? y) && (y <=? 9999).   (* datetime.MINYEAR .. MAXYEAR *)

(* ---------------------------------------------------------------- local time *)

(* UTC offset in force at a UTC instant, from a table of (first instant, offset) sorted by instant; [off0] before *)
Fixpoint off_table (off0 : Z) (tbl : list (Z * Z)) (t : Z) : Z :=
  match tbl with
  | [] => off0
  | (start, o) :: r => if t <? start then off0 else off_table o r t
  end.

Section Local.
  Variable off : Z -> Z.

  Definition local (u : Z) : Z := u + off u.                (* naive local seconds of the UTC instant u *)

  (* datetime.timestamp() of a naive datetime (fold = 0): CPython's local_to_seconds *)
  Definition mktime (t : Z) : Z :=
    let a := local t - t in
    let u1 := t - a in
    let t1 := local u1 in
    let after_first (b : Z) :=
      let u2 := t - b in
      let t2 := local u2 in
      if t2 =? t then u2 else if t1 =? t then u1 else Z.max u1 u2 in
    if t1 =? t then
      let u2 := u1 - 86400 in
      let b := local u2 - u2 in
      if a =? b then u1 else after_first b
    else after_first (t1 - u1).

  Record fields := { f_year : Z; f_month : Z; f_day : Z; f_hour : Z; f_minute : Z; f_second : Z }.

  (* datetime.datetime.fromtimestamp(ts) for an integer ts *)
  Definition fields_of_naive (lt : Z) : fields :=
    let days := lt / 86400 in
    let sod := lt mod 86400 in
    let '(y, m, d) := civil_from_days days in
    {| f_year := y; f_month := m; f_day := d;
       f_hour := sod / 3600; f_minute := (sod mod 3600) / 60; f_second := sod mod 60 |}.

  Definition fromtimestamp (ts : Z) : fields := fields_of_naive (local ts).

  Definition naive_of (y m d h mi s : Z) : Z := days_from_civil y m d * 86400 + h * 3600 + mi * 60 + s.

  (* -------------------------------------------------------------- the date functions *)

  Inductive res := Ok (v : Z) | BadArg (i v : Z) | PyErr.

  Definition YEAR ts := f_year (fromtimestamp ts).
  Definition MONTH ts := f_month (fromtimestamp ts).
  Definition DAY ts := f_day (fromtimestamp ts).
  Definition DOW ts := weekday (local ts / 86400).
  Definition LDOM ts := let f := fromtimestamp ts in month_length (f_year f) (f_month f).
  Definition HOUR ts := f_hour (fromtimestamp ts).
  Definition MINUTE ts := f_minute (fromtimestamp ts).
  Definition SECOND ts := f_second (fromtimestamp ts).
  Definition MINUTEDAY ts := let f := fromtimestamp ts in f_hour f * 60 + f_minute f.
  Definition SECONDDAY ts := let f := fromtimestamp ts in f_hour f * 3600 + f_minute f * 60 + f_second f.
  Definition MILLISECOND (now_ms : Z) := now_ms mod 1000.

  (* DATE(y, m, d, h, mi, s): datetime.datetime(...) validates year, month, day, hour, minute, second in that order;
     a ValueError is turned into InvalidArgumentValue(index of the unit) *)
  Definition DATE (y m d h mi s : Z) : res :=
    (* the code reports InvalidArgumentValue(index, eval_args[index]) with a 1-based index into a 0-based list: the value
       reported is the one of the *next* argument, and for the last argument the lookup raises IndexError *)
    if negb (year_ok y) then BadArg 1 m
    else if negb ((1 <=? m) && (m <=? 12)) then BadArg 2 d
    else if negb ((1 <=? d) && (d <=? month_length y m)) then BadArg 3 h
    else if negb ((0 <=? h) && (h <=? 23)) then BadArg 4 mi
    else if negb ((0 <=? mi) && (mi <=? 59)) then BadArg 5 s
    else if negb ((0 <=? s) && (s <=? 59)) then PyErr
    else Ok (mktime (naive_of y m d h mi s)).

  Definition midnight_of (y m d : Z) : res :=
    if year_ok y && valid_date y m d then Ok (mktime (days_from_civil y m d * 86400)) else PyErr.

  Definition BOY (ts n : Z) : res := midnight_of (YEAR ts + n) 1 1.

  Definition month_fwd (ym : Z * Z) : Z * Z := let '(y, m) := ym in if m <? 12 then (y, m + 1) else (y + 1, 1).
  Definition month_bwd (ym : Z * Z) : Z * Z := let '(y, m) := ym in if 1 <? m then (y, m - 1) else (y - 1, 12).

  Definition bom_ym (y m n : Z) : Z * Z :=
    if 0 <=? n then Nat.iter (Z.to_nat n) month_fwd (y, m) else Nat.iter (Z.to_nat (- n)) month_bwd (y, m).

  Definition BOM (ts n : Z) : res :=
    let '(y, m) := bom_ym (YEAR ts) (MONTH ts) n in midnight_of y m 1.

  Definition week_fwd (ymd : Z * Z * Z) : Z * Z * Z :=
    let '(y, m, d) := ymd in
    let last := month_length y m in
    if d + 7 <=? last then (y, m, d + 7)
    else let d' := 7 - last + d in
         if m <? 12 then (y, m + 1, d') else (y + 1, 1, d').

  Definition week_bwd (ymd : Z * Z * Z) : Z * Z * Z :=
    let '(y, m, d) := ymd in
    if 7 <? d then (y, m, d - 7)
    else let '(y', m') := if 1 <? m then (y, m - 1) else (y - 1, 12) in
         (y', m', month_length y' m' - 7 + d).

  (* number of days BOW goes back from today to reach the first day of the current week;
     [back_days] is a parameter so that the pre-fix rule can be stated too (History/C17Old.v) *)
  Definition bow_back_fixed (wd s : Z) : Z := (wd - s) mod 7.
  Definition bow_back_old (wd s : Z) : Z := if 0 <? s then wd + 7 - s else wd.

  Definition bow_ymd (back : Z -> Z -> Z) (today n s : Z) : Z * Z * Z :=
    let start := civil_from_days (today - back (weekday today) s) in
    if 0 <=? n then Nat.iter (Z.to_nat n) week_fwd start else Nat.iter (Z.to_nat (- n)) week_bwd start.

  Definition BOW_gen (back : Z -> Z -> Z) (ts n s : Z) : res :=
    let '(y, m, d) := bow_ymd back (local ts / 86400) n s in midnight_of y m d.

  Definition BOD (ts n : Z) : res :=
    let '(y, m, d) := civil_from_days (local ts / 86400 + n) in midnight_of y m d.

  (* HMSINTERVAL on integer arguments *)
  Definition HMSINTERVAL (ts h1 m1 s1 h2 m2 s2 : Z) : res :=
    if negb ((0 <=? h1) && (h1 <=? 23)) then BadArg 1 h1
    else if negb ((0 <=? m1) && (m1 <=? 59)) then BadArg 2 m1
    else if negb ((0 <=? s1) && (s1 <=? 59)) then BadArg 3 s1
    else if negb ((0 <=? h2) && (h2 <=? 23)) then BadArg 4 h2
    else if negb ((0 <=? m2) && (m2 <=? 59)) then BadArg 5 m2
    else if negb ((0 <=? s2) && (s2 <=? 59)) then BadArg 6 s2
    else
      let f := fromtimestamp ts in
      let now := naive_of (f_year f) (f_month f) (f_day f) (f_hour f) (f_minute f) (f_second f) in
      let start := naive_of (f_year f) (f_month f) (f_day f) h1 m1 s1 in
      let stop := naive_of (f_year f) (f_month f) (f_day f) h2 m2 s2 in
      Ok (if (start <=? now) && (now <=? stop) then 1 else 0).

  (* MDINTERVAL on integer arguments: now.replace(month=, day=) raises ValueError for an invalid day *)
  Definition MDINTERVAL (ts mo1 d1 mo2 d2 : Z) : res :=
    let f := fromtimestamp ts in
    let y := f_year f in
    let tod := f_hour f * 3600 + f_minute f * 60 + f_second f in
    if negb ((1 <=? mo1) && (mo1 <=? 12)) then BadArg 1 mo1
    else if negb ((1 <=? d1) && (d1 <=? month_length y mo1)) then BadArg 2 d1
    else if negb ((1 <=? mo2) && (mo2 <=? 12)) then BadArg 3 mo2
    else if negb ((1 <=? d2) && (d2 <=? month_length y mo2)) then BadArg 4 d2
    else
      let now := days_from_civil y (f_month f) (f_day f) * 86400 + tod in
      let start := days_from_civil y mo1 d1 * 86400 + tod in
      let stop := days_from_civil y mo2 d2 * 86400 + tod in
      Ok (if (start <=? now) && (now <=? stop) then 1 else 0).
End Local.

