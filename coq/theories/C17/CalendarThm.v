(* C17 — proofs about the calendar model (continued): round trips, month arithmetic, the stepping loops. *)
From QT Require Import C17.Spec C17.CalendarFinite.
From Coq Require Import ZifyBool.
Open Scope Z_scope.
Ltac Zify.zify_post_hook ::= Z.to_euclidean_division_equations.

(* ------------------------------------------------------------------ round trips *)

Lemma civil_of_doe_valid doe :
  0 <= doe < 146097 ->
  let '(yoe, m, d) := civil_of_doe doe in
  0 <= yoe < 400 /\ 1 <= m <= 12 /\ 1 <= d <= month_length (if m <=? 2 then yoe + 1 else yoe) m /\ doe_of yoe m d = doe.
Proof.
  intros H. pose proof (all_below_spec _ _ checkA_all doe) as HA.
  rewrite Z2Nat.id in HA by lia. specialize (HA H). unfold checkA in HA.
  destruct (civil_of_doe doe) as [[yoe m] d].
  repeat (apply andb_true_iff in HA; destruct HA as [HA ?]). lia.
Qed.

Theorem days_from_civil_from_days z :
  let '(y, m, d) := civil_from_days z in days_from_civil y m d = z.
Proof.
  unfold civil_from_days. cbv zeta.
  set (z' := z + 719468).
  assert (Hdoe : 0 <= z' mod 146097 < 146097) by (apply Z.mod_pos_bound; lia).
  pose proof (civil_of_doe_valid _ Hdoe) as HV.
  destruct (civil_of_doe (z' mod 146097)) as [[yoe m] d].
  destruct HV as (Hy & Hm & Hd & Hdo).
  rewrite days_from_civil_doe. cbv zeta.
  assert (Hy' : (if m <=? 2 then (if m <=? 2 then yoe + z' / 146097 * 400 + 1 else yoe + z' / 146097 * 400) - 1
                 else (if m <=? 2 then yoe + z' / 146097 * 400 + 1 else yoe + z' / 146097 * 400))
                = yoe + z' / 146097 * 400) by (destruct (m <=? 2); lia).
  rewrite Hy'.
  rewrite Z_mod_plus_full, Z.mod_small by lia.
  rewrite Z_div_plus_full, Z.div_small by lia.
  rewrite Hdo. pose proof (Z.div_mod z' 146097). subst z'. lia.
Qed.

Lemma checkB_valid ym m d :
  0 <= ym < 400 -> 1 <= m <= 12 -> 1 <= d <= month_length ym m ->
  let yoe := (ym - (if m <=? 2 then 1 else 0)) mod 400 in
  0 <= doe_of yoe m d < 146097 /\ civil_of_doe (doe_of yoe m d) = (yoe, m, d).
Proof.
  intros Hy Hm Hd.
  assert (Hd31 : d <= 31) by (unfold month_length in Hd; destruct (m =? 2); [destruct (is_leap ym)|destruct (_ || _)]; lia).
  pose proof (all_below_spec _ _ checkB_all ym) as H1. rewrite Z2Nat.id in H1 by lia. specialize (H1 Hy).
  pose proof (all_below_spec _ _ H1 (m - 1)) as H2. specialize (H2 ltac:(simpl; lia)).
  pose proof (all_below_spec _ _ H2 (d - 1)) as H3. specialize (H3 ltac:(simpl; lia)).
  unfold checkB in H3. cbv zeta in H3.
  replace (m - 1 + 1) with m in H3 by lia. replace (d - 1 + 1) with d in H3 by lia.
  destruct (d <=? month_length ym m) eqn:E; [|lia].
  cbv zeta.
  repeat (apply andb_true_iff in H3; destruct H3 as [H3 ?]).
  split; [lia|].
  unfold triple_eqb in *. destruct (civil_of_doe _) as [[a b] c].
  match goal with H : _ && _ && _ = true |- _ => repeat (apply andb_true_iff in H; destruct H as [H ?]) end.
  f_equal; [f_equal|]; lia.
Qed.

Theorem civil_from_days_from_civil y m d :
  valid_date y m d = true -> civil_from_days (days_from_civil y m d) = (y, m, d).
Proof.
  unfold valid_date. intros H. repeat (apply andb_true_iff in H; destruct H as [H ?]).
  assert (Hm : 1 <= m <= 12) by lia.
  assert (Hd : 1 <= d <= month_length (y mod 400) m) by (rewrite month_length_mod400; lia).
  assert (Hy : 0 <= y mod 400 < 400) by (apply Z.mod_pos_bound; lia).
  pose proof (checkB_valid (y mod 400) m d Hy Hm Hd) as HB. cbv zeta in HB.
  set (y' := if m <=? 2 then y - 1 else y).
  assert (Hyoe : (y mod 400 - (if m <=? 2 then 1 else 0)) mod 400 = y' mod 400).
  { subst y'. destruct (m <=? 2); [|rewrite Z.sub_0_r; apply Zmod_mod].
    rewrite Zminus_mod_idemp_l. reflexivity. }
  rewrite Hyoe in HB. destruct HB as [Hr Hc].
  rewrite days_from_civil_doe. cbv zeta. fold y'.
  unfold civil_from_days. cbv zeta.
  replace (y' / 400 * 146097 + doe_of (y' mod 400) m d - 719468 + 719468)
    with (doe_of (y' mod 400) m d + y' / 400 * 146097) by ring.
  rewrite Z_mod_plus_full, Z.mod_small by lia.
  rewrite Z_div_plus_full, Z.div_small by lia.
  rewrite Hc. pose proof (Z.div_mod y' 400). subst y'.
  destruct (m <=? 2); f_equal; f_equal; lia.
Qed.

