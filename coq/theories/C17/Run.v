(* C17 — dispatch used by the generated case files: run the model / the specification oracle on one case. *)
From QT Require Export C17.Spec.
From QT Require Import Gen.C17Gen.
Open Scope Z_scope.

Inductive rres := RList (l : list Z) | ROk (v : Z) | RBad (i v : Z) | RErr.

Definition rres_eqb (a b : rres) : bool :=
  match a, b with
  | RList x, RList y => list_eqb Z.eqb x y
  | ROk x, ROk y => x =? y
  | RBad i x, RBad j y => (i =? j) && (x =? y)
  | RErr, RErr => true
  | _, _ => false
  end.

Definition of_res (r : res) : rres := match r with Ok v => ROk v | BadArg i v => RBad i v | PyErr => RErr end.

Section Run.
  Variable off : Z -> Z.

  (* codes: 0 fields, 1 DATE, 2 BOY, 3 BOM, 4 BOW, 5 BOD, 6 HMSINTERVAL, 7 MDINTERVAL, 8 MILLISECOND (argument: now in ms) *)
  Definition model (code : Z) (a : list Z) : rres :=
    match code, a with
    | 0, [ts] => RList [YEAR off ts; MONTH off ts; DAY off ts; DOW off ts; LDOM off ts; HOUR off ts; MINUTE off ts;
                        SECOND off ts; MINUTEDAY off ts; SECONDDAY off ts]
    | 1, [y; m; d; h; mi; s] => of_res (DATE off y m d h mi s)
    | 2, [ts; n] => of_res (BOY off ts n)
    | 3, [ts; n] => of_res (BOM off ts n)
    | 4, [ts; n; s] => of_res (BOW_gen off bow_back ts n s)
    | 5, [ts; n] => of_res (BOD off ts n)
    | 6, [ts; h1; m1; s1; h2; m2; s2] => of_res (HMSINTERVAL off ts h1 m1 s1 h2 m2 s2)
    | 7, [ts; mo1; d1; mo2; d2] => of_res (MDINTERVAL off ts mo1 d1 mo2 d2)
    | 8, [now_ms] => ROk (now_ms mod 1000)
    | _, _ => RErr
    end.

  (* does the implementation's answer r satisfy the specification?  (true = no contradiction) *)
  Definition spec_ok (code : Z) (a : list Z) (r : rres) : bool :=
    match code, a, r with
    | 0, [ts], RList v => fields_spec off ts v
    | 1, [y; m; d; h; mi; s], ROk u =>
        (* a local time inside a DST gap is shown by no instant: then the property is silent *)
        DATE_spec off y m d h mi s u
        || negb (DATE_spec off y m d h mi s (mktime off (naive_of y m d h mi s)))
    | 2, [ts; n], ROk u => starts_local_day off u (BOY_day off ts n)
    | 3, [ts; n], ROk u => starts_local_day off u (BOM_day off ts n)
    | 4, [ts; n; s], ROk u => if (0 <=? s) && (s <=? 6) then starts_local_day off u (BOW_day off ts n s) else true
    | 5, [ts; n], ROk u => starts_local_day off u (BOD_day off ts n)
    | 6, [ts; h1; m1; s1; h2; m2; s2], ROk v =>
        if (h1 * 3600 + m1 * 60 + s1 <=? h2 * 3600 + m2 * 60 + s2) then v =? HMS_spec off ts h1 m1 s1 h2 m2 s2 else true
    | 7, [ts; mo1; d1; mo2; d2], ROk v =>
        if lex_le mo1 d1 mo2 d2 then v =? MD_spec off ts mo1 d1 mo2 d2 else true
    | 8, [now_ms], ROk v => (0 <=? v) && (v <? 1000) && ((now_ms - v) mod 1000 =? 0)
    | _, _, RBad _ _ => true       (* argument errors are compared model-vs-code only *)
    (* the field functions are total on instants; the others may only fail where Python's datetime cannot represent the
       result (year outside 1..9999), which the model reproduces *)
    | 0, [_], RErr => false
    | _, _, RErr => rres_eqb (model code a) RErr
    | _, _, _ => false
    end.

  Definition bad_model (cases : list (Z * list Z * rres)) : list nat :=
    mismatches (fun '(c, a, r) => rres_eqb (model c a) r) cases 0.
  Definition bad_spec (cases : list (Z * list Z * rres)) : list nat :=
    mismatches (fun '(c, a, r) => spec_ok c a r) cases 0.
End Run.
