(* C17 — the stepping loops of BOM / BOW equal day / month-index arithmetic; closed forms for all the date functions. *)
From QT Require Import C17.Spec C17.CalendarFinite C17.CalendarThm C17.CalendarMonth.
From Coq Require Import ZifyBool.
Open Scope Z_scope.
Ltac Zify.zify_post_hook ::= Z.to_euclidean_division_equations.

Lemma valid_date_iff y m d : valid_date y m d = true <-> 1 <= m <= 12 /\ 1 <= d <= month_length y m.
Proof. unfold valid_date. rewrite !andb_true_iff. lia. Qed.

Lemma civil_from_days_valid z : let '(y, m, d) := civil_from_days z in valid_date y m d = true.
Proof.
  unfold civil_from_days. cbv zeta. set (z' := z + 719468).
  assert (Hdoe : 0 <= z' mod 146097 < 146097) by (apply Z.mod_pos_bound; lia).
  pose proof (civil_of_doe_valid _ Hdoe) as HV.
  destruct (civil_of_doe (z' mod 146097)) as [[yoe m] d]. destruct HV as (Hy & Hm & Hd & _).
  apply valid_date_iff. split; [lia|].
  destruct (m <=? 2).
  - replace (yoe + z' / 146097 * 400 + 1) with (yoe + 1 + z' / 146097 * 400) by ring. rewrite month_length_shift. lia.
  - rewrite month_length_shift. lia.
Qed.

Lemma iter_S {A} (f : A -> A) (x : A) n : Nat.iter (S n) f x = f (Nat.iter n f x).
Proof. reflexivity. Qed.

(* ------------------------------------------------------------------ weeks *)

Definition at_day (ymd : Z * Z * Z) (D : Z) : Prop :=
  let '(y, m, d) := ymd in valid_date y m d = true /\ days_from_civil y m d = D.

Lemma week_fwd_step ymd D : at_day ymd D -> at_day (week_fwd ymd) (D + 7).
Proof.
  destruct ymd as [[y m] d]. unfold at_day, week_fwd. intros [Hv HD]. apply valid_date_iff in Hv.
  pose proof (month_length_bounds y m) as Hb.
  destruct (d + 7 <=? month_length y m) eqn:E1.
  - split; [apply valid_date_iff; lia|]. rewrite dfc_day. rewrite (dfc_day y m d) in HD. lia.
  - destruct (m <? 12) eqn:E2.
    + pose proof (month_length_bounds y (m + 1)).
      split; [apply valid_date_iff; lia|].
      rewrite dfc_day, dfc_next_month by lia. rewrite (dfc_day y m d) in HD. lia.
    + assert (m = 12) by lia. subst m. pose proof (month_length_bounds (y + 1) 1).
      split; [apply valid_date_iff; lia|].
      rewrite dfc_day, dfc_next_year. rewrite (dfc_day y 12 d) in HD. rewrite month_length_12 in *. lia.
Qed.

Lemma week_bwd_step ymd D : at_day ymd D -> at_day (week_bwd ymd) (D - 7).
Proof.
  destruct ymd as [[y m] d]. unfold at_day, week_bwd. intros [Hv HD]. apply valid_date_iff in Hv.
  destruct (7 <? d) eqn:E1.
  - split; [apply valid_date_iff; lia|]. rewrite dfc_day. rewrite (dfc_day y m d) in HD. lia.
  - destruct (1 <? m) eqn:E2.
    + pose proof (month_length_bounds y (m - 1)).
      split; [apply valid_date_iff; lia|].
      rewrite dfc_day. rewrite (dfc_day y m d) in HD.
      pose proof (dfc_next_month y (m - 1) ltac:(lia)) as Hn. replace (m - 1 + 1) with m in Hn by ring. lia.
    + assert (m = 1) by lia. subst m. rewrite month_length_12.
      split; [apply valid_date_iff; rewrite month_length_12; lia|].
      rewrite dfc_day. rewrite (dfc_day y 1 d) in HD.
      pose proof (dfc_next_year (y - 1)) as Hn. replace (y - 1 + 1) with y in Hn by ring. lia.
Qed.

Lemma iter_week_fwd k : forall ymd D, at_day ymd D -> at_day (Nat.iter k week_fwd ymd) (D + 7 * Z.of_nat k).
Proof.
  induction k as [|k IH]; intros ymd D H.
  - change (Nat.iter 0 ?f ?x) with x. change (Z.of_nat 0) with 0. replace (D + 7 * 0) with D by ring. exact H.
  - rewrite Nat2Z.inj_succ, iter_S.
    replace (D + 7 * Z.succ (Z.of_nat k)) with (D + 7 * Z.of_nat k + 7) by lia.
    apply week_fwd_step. apply IH. exact H.
Qed.

Lemma iter_week_bwd k : forall ymd D, at_day ymd D -> at_day (Nat.iter k week_bwd ymd) (D - 7 * Z.of_nat k).
Proof.
  induction k as [|k IH]; intros ymd D H.
  - change (Nat.iter 0 ?f ?x) with x. change (Z.of_nat 0) with 0. replace (D - 7 * 0) with D by ring. exact H.
  - rewrite Nat2Z.inj_succ, iter_S.
    replace (D - 7 * Z.succ (Z.of_nat k)) with (D - 7 * Z.of_nat k - 7) by lia.
    apply week_bwd_step. apply IH. exact H.
Qed.

Lemma at_day_civil z : at_day (civil_from_days z) z.
Proof.
  pose proof (civil_from_days_valid z) as Hv. pose proof (days_from_civil_from_days z) as Hd.
  unfold at_day. destruct (civil_from_days z) as [[y m] d]. split; assumption.
Qed.

Section BOW.
  Variable back : Z -> Z -> Z.
  Hypothesis back_ok : forall wd s, 0 <= wd <= 6 -> 0 <= s <= 6 -> back wd s = (wd - s) mod 7.

  Theorem bow_ymd_day today n s :
    0 <= s <= 6 -> at_day (bow_ymd back today n s) (today - (weekday today - s) mod 7 + 7 * n).
  Proof.
    intros Hs. unfold bow_ymd. cbv zeta.
    assert (Hwd : 0 <= weekday today <= 6) by (unfold weekday; lia).
    rewrite back_ok by assumption.
    pose proof (at_day_civil (today - (weekday today - s) mod 7)) as H0.
    destruct (0 <=? n) eqn:E.
    - pose proof (iter_week_fwd (Z.to_nat n) _ _ H0) as H. rewrite Z2Nat.id in H by lia. exact H.
    - pose proof (iter_week_bwd (Z.to_nat (- n)) _ _ H0) as H. rewrite Z2Nat.id in H by lia.
      replace (today - (weekday today - s) mod 7 + 7 * n) with (today - (weekday today - s) mod 7 - 7 * - n) by ring.
      exact H.
  Qed.
End BOW.

(* properties of the closed form the loops were shown to compute *)
Lemma bow_day_weekday t n s : 0 <= s <= 6 -> weekday (t - (weekday t - s) mod 7 + 7 * n) = s.
Proof. intros Hs. unfold weekday. lia. Qed.

Lemma bow_day_contains t s : let b n := t - (weekday t - s) mod 7 + 7 * n in b 0 <= t < b 1.
Proof. cbv zeta. unfold weekday. lia. Qed.

Lemma bow_day_contiguous t s n : let b n := t - (weekday t - s) mod 7 + 7 * n in b (n + 1) = b n + 7.
Proof. cbv zeta. ring. Qed.

(* ------------------------------------------------------------------ months *)

Lemma month_fwd_index k : month_fwd (k / 12, k mod 12 + 1) = ((k + 1) / 12, (k + 1) mod 12 + 1).
Proof. unfold month_fwd. destruct (k mod 12 + 1 <? 12) eqn:E; f_equal; lia. Qed.

Lemma month_bwd_index k : month_bwd (k / 12, k mod 12 + 1) = ((k - 1) / 12, (k - 1) mod 12 + 1).
Proof. unfold month_bwd. destruct (1 <? k mod 12 + 1) eqn:E; f_equal; lia. Qed.

Lemma iter_month_fwd j : forall k, Nat.iter j month_fwd (k / 12, k mod 12 + 1) = ((k + Z.of_nat j) / 12, (k + Z.of_nat j) mod 12 + 1).
Proof.
  induction j as [|j IH]; intros k.
  - change (Nat.iter 0 ?f ?x) with x. change (Z.of_nat 0) with 0. rewrite Z.add_0_r. reflexivity.
  - rewrite iter_S, IH, month_fwd_index. rewrite Nat2Z.inj_succ.
    replace (k + Z.of_nat j + 1) with (k + Z.succ (Z.of_nat j)) by lia. reflexivity.
Qed.

Lemma iter_month_bwd j : forall k, Nat.iter j month_bwd (k / 12, k mod 12 + 1) = ((k - Z.of_nat j) / 12, (k - Z.of_nat j) mod 12 + 1).
Proof.
  induction j as [|j IH]; intros k.
  - change (Nat.iter 0 ?f ?x) with x. change (Z.of_nat 0) with 0. rewrite Z.sub_0_r. reflexivity.
  - rewrite iter_S, IH, month_bwd_index. rewrite Nat2Z.inj_succ.
    replace (k - Z.of_nat j - 1) with (k - Z.succ (Z.of_nat j)) by lia. reflexivity.
Qed.

Theorem bom_closed_form y m n : 1 <= m <= 12 -> bom_ym y m n = BOM_index y m n.
Proof.
  intros Hm. unfold bom_ym, BOM_index. cbv zeta.
  set (k := 12 * y + (m - 1)).
  assert (Hk : (y, m) = (k / 12, k mod 12 + 1)) by (subst k; f_equal; lia).
  rewrite Hk.
  destruct (0 <=? n) eqn:E.
  - rewrite iter_month_fwd, Z2Nat.id by lia. reflexivity.
  - rewrite iter_month_bwd, Z2Nat.id by lia. replace (k - - n) with (k + n) by ring. reflexivity.
Qed.

Lemma bom_index_valid y m n : let '(y', m') := BOM_index y m n in valid_date y' m' 1 = true.
Proof.
  unfold BOM_index. cbv zeta. apply valid_date_iff.
  pose proof (month_length_bounds ((12 * y + (m - 1) + n) / 12) ((12 * y + (m - 1) + n) mod 12 + 1)). lia.
Qed.

(* successive months are contiguous: next month's first day = this month's first day + its length *)
Lemma bom_contiguous y m n :
  let '(y1, m1) := BOM_index y m n in let '(y2, m2) := BOM_index y m (n + 1) in
  days_from_civil y2 m2 1 = days_from_civil y1 m1 1 + month_length y1 m1.
Proof.
  unfold BOM_index. cbv zeta. set (k := 12 * y + (m - 1) + n).
  replace (12 * y + (m - 1) + (n + 1)) with (k + 1) by (subst k; ring).
  destruct (Z.eq_dec (k mod 12) 11) as [E|E].
  - replace ((k + 1) / 12) with (k / 12 + 1) by lia. replace ((k + 1) mod 12 + 1) with 1 by lia.
    rewrite E. change (11 + 1) with 12. rewrite dfc_next_year, month_length_12. reflexivity.
  - replace ((k + 1) / 12) with (k / 12) by lia. replace ((k + 1) mod 12 + 1) with (k mod 12 + 1 + 1) by lia.
    apply dfc_next_month. lia.
Qed.
