(* C13 — composition over a whole offline episode: whatever remote events and main-loop iterations are interleaved with the
   user's edits, every last edit of the episode is pending with the user's value at the end (and is therefore pushed exactly
   once with that value on reconnect: pushed_once_fixed). *)
From QT Require Import C12.Mirror C12.Spec C12.ResyncThm C12.OrderThm C13.Provisioning C13.Spec C13.ProvThm.
Open Scope string_scope.

(* ------------------------------------------------------------------------------------------------------------------ *)
(* small facts *)

Lemma set_add_keeps : forall x n l, In x l -> In x (set_add n l).
Proof. intros x n l H. unfold set_add. destruct (mem n l); [exact H|apply in_or_app; left; exact H]. Qed.

Lemma set_add_inv : forall x n l, In x (set_add n l) -> x = n \/ In x l.
Proof.
  intros x n l. unfold set_add. destruct (mem n l); [auto|]. intros H. apply in_app_or in H.
  destruct H as [H|[H|[]]]; auto.
Qed.

Lemma get_dict_set_other : forall n k v a, String.eqb n k = false -> get n (dict_set k v a) = get n a.
Proof. intros n k v a H. unfold get. rewrite lookup_dict_set, H. reflexivity. Qed.

Lemma tick_port_facts : forall p,
  mp_cached (tick_port p) = mp_cached p /\ mp_prov (tick_port p) = mp_prov p /\
  mp_enabled (tick_port p) = mp_enabled p /\ (mp_queue p = [] -> tick_port p = p).
Proof.
  intros p. unfold tick_port. destruct (mp_enabled p) eqn:E; [|auto].
  destruct (mp_queue p) eqn:Q; [auto|]. repeat split; try reflexivity. discriminate.
Qed.

Lemma sao_master : forall n w p, mem n MASTER_ATTRS = true ->
  set_attr_offline_port n w p = with_local p (dict_set n w (mp_local p)).
Proof. intros n w p M. unfold set_attr_offline_port. rewrite M. reflexivity. Qed.

Lemma sao_nonmaster : forall n w p, mem n MASTER_ATTRS = false ->
  set_attr_offline_port n w p =
  with_cached (with_prov p (set_add (slave_name n) (mp_prov p))) (dict_set (slave_name n) w (mp_cached p)).
Proof. intros n w p M. unfold set_attr_offline_port. rewrite M. reflexivity. Qed.

Lemma wvo_fixed : forall v p,
  write_value_offline_port cfg_fixed v p =
  with_cached_value (with_prov (with_queue p []) (set_add "value" (mp_prov p))) v.
Proof. reflexivity. Qed.

Lemma patch_ports : forall ps m, m_ports (patch_device_offline ps m) = m_ports m.
Proof.
  unfold patch_device_offline. induction ps as [|kv r IH]; intros m; cbn [fold_left]; [reflexivity|].
  rewrite IH. reflexivity.
Qed.

(* ------------------------------------------------------------------------------------------------------------------ *)
(* a remote event seen from one port (repaired handlers) *)

Lemma remote_found : forall e m id p, find_port id (m_ports m) = Some p -> keeps id e ->
  exists p', find_port id (m_ports (fst (handle cfg_fixed e m))) = Some p' /\ mp_prov p' = mp_prov p.
Proof.
  intros e m id p F Hk.
  destruct (touches_dec id e) as [Ht|Ht]; [|exists p; split; [apply handle_untouched; assumption|reflexivity]].
  destruct e; cbn [touches] in Ht; try contradiction; cbn [handle].
  - subst id0. unfold handle_value_change. rewrite F.
    destruct (negb (is_none (prov_value p))); [exists p; auto|].
    destruct (val_eqb (last_remote p) v); [exists p; auto|].
    cbn [fst set_ports m_ports]. rewrite find_port_upd_same by reflexivity. rewrite F. exists (push v p). auto.
  - rewrite hpu_same by exact Ht. rewrite F. cbn [option_map]. eexists. split; [reflexivity|apply mp_prov_port_update_on].
Qed.

(* an enabled port stays enabled when "enabled" is not pending and the event does not disable it *)
Lemma enabled_kept : forall e m id p,
  find_port id (m_ports m) = Some p -> keeps id e -> stable id (SEv e) ->
  mp_enabled p = true -> ~ In "enabled" (mp_prov p) ->
  exists p', find_port id (m_ports (fst (handle cfg_fixed e m))) = Some p' /\ mp_enabled p' = true.
Proof.
  intros e m id p F Hk Hst He Hne.
  destruct (touches_dec id e) as [Ht|Ht]; [|exists p; split; [apply handle_untouched; assumption|exact He]].
  destruct e; cbn [touches] in Ht; try contradiction; cbn [handle].
  - subst id0. unfold handle_value_change. rewrite F.
    destruct (negb (is_none (prov_value p))); [exists p; auto|].
    destruct (val_eqb (last_remote p) v); [exists p; auto|].
    cbn [fst set_ports m_ports]. rewrite find_port_upd_same by reflexivity. rewrite F. exists (push v p). auto.
  - rewrite hpu_same by exact Ht. rewrite F. cbn [option_map]. eexists. split; [reflexivity|].
    cbn [stable] in Hst. specialize (Hst Ht).
    unfold port_update_on. set (D := port_update_dict cfg_fixed p a).
    destruct (update_cached_facts D p) as (C1 & _ & E1 & _).
    destruct (update_enabled_cases (m_ready m) aux (update_cached D p)) as (_ & _ & _ & E2).
    destruct E2 as [_ E2]; [congruence|]. rewrite E2, C1. rewrite get_remove_key by discriminate.
    subst D. rewrite port_update_dict_fixed.
    destruct (is_none (prov_value p)); [|rewrite get_remove_key by discriminate];
      (rewrite get_dict_update_not_pending; [exact Hst|intros H; contradiction]).
Qed.

Lemma remote_port : forall e m id p,
  find_port id (m_ports m) = Some p -> keeps id e -> stable id (SEv e) ->
  exists p', find_port id (m_ports (fst (handle cfg_fixed e m))) = Some p' /\ mp_prov p' = mp_prov p /\
    (forall n, In n (mp_prov p) -> get n (mp_cached p) <> VNone -> n <> "value" ->
               get n (mp_cached p') = get n (mp_cached p)) /\
    (mp_enabled p = true -> ~ In "enabled" (mp_prov p) ->
     mp_enabled p' = true /\
     (In "value" (mp_prov p) -> mp_cached_value p <> VNone ->
      mp_cached_value p' = mp_cached_value p /\ mp_queue p' = mp_queue p)).
Proof.
  intros e m id p F Hk Hst. destruct (remote_found e m id p F Hk) as (p' & F' & P').
  exists p'. split; [exact F'|]. split; [exact P'|]. split.
  - intros n H1 H2 H3. destruct (not_overwritten_attr e m id p n F H1 H2 H3 Hk) as (p2 & F2 & G & _).
    rewrite F' in F2. injection F2 as E. subst p2. exact G.
  - intros He Hne. split.
    + destruct (enabled_kept e m id p F Hk Hst He Hne) as (p2 & F2 & G). rewrite F' in F2. injection F2 as E. subst p2. exact G.
    + intros Hv Hc. destruct (not_overwritten_value_partial e m id p F Hv Hc Hk) as (p2 & F2 & G1 & _ & G2).
      rewrite F' in F2. injection F2 as E. subst p2. split; [exact G1|]. apply G2; [exact He|exact Hst|intros H; contradiction].
Qed.

(* ------------------------------------------------------------------------------------------------------------------ *)
(* one step of the episode seen from one port *)

Definition step_ok (s : ostep) : Prop :=
  match s with
  | ORemote e => forall id, keeps id e /\ stable id (SEv e)
  | OSetAttr _ n _ => slave_name n <> "enabled" /\ slave_name n <> "value"
  | _ => True
  end.

(* the step does not edit the item *)
Definition nokey (it : item) (l : list item) : Prop := forall x, In x l -> item_key_eqb it x = false.

Lemma step_port : forall s m id p, step_ok s -> find_port id (m_ports m) = Some p ->
  exists p', find_port id (m_ports (ostep_run cfg_fixed m s)) = Some p' /\
    (forall x, In x (mp_prov p) -> In x (mp_prov p')) /\
    (~ In "enabled" (mp_prov p) -> ~ In "enabled" (mp_prov p')) /\
    (mp_enabled p = true -> ~ In "enabled" (mp_prov p) -> mp_enabled p' = true) /\
    (forall n v, nokey (IPortAttr id n v) (edits_of s) -> In n (mp_prov p) -> get n (mp_cached p) = v ->
                 v <> VNone -> n <> "value" -> get n (mp_cached p') = v) /\
    (forall v, nokey (IPortValue id v) (edits_of s) -> In "value" (mp_prov p) -> mp_cached_value p = v -> v <> VNone ->
               mp_queue p = [] -> mp_enabled p = true -> ~ In "enabled" (mp_prov p) ->
               mp_cached_value p' = v /\ mp_queue p' = []).
Proof.
  intros s m id p Hok F. destruct s as [i n0 w|i w|ps|e|]; cbn [ostep_run].
  - (* the user sets an attribute *)
    unfold set_attr_offline. cbn [set_ports m_ports].
    rewrite find_port_upd by (intros; apply mp_id_set_attr_offline_port).
    destruct (String.eqb id i) eqn:E; [|exists p; repeat split; auto].
    rewrite F. cbn [option_map]. eexists. split; [reflexivity|].
    destruct (mem n0 MASTER_ATTRS) eqn:M.
    + rewrite (sao_master _ _ _ M). cbn [with_local mp_prov mp_cached mp_enabled mp_cached_value mp_queue].
      repeat split; auto.
    + rewrite (sao_nonmaster _ _ _ M).
      cbn [with_cached with_prov mp_prov mp_cached mp_enabled mp_cached_value mp_queue].
      cbn [step_ok] in Hok. destruct Hok as [Hok1 Hok2].
      split; [intros x Hx; apply set_add_keeps; exact Hx|].
      split; [intros Hn Hin; apply set_add_inv in Hin; destruct Hin as [Hin|Hin]; [apply Hok1; symmetry; exact Hin|auto]|].
      split; [auto|]. split; [|auto].
      intros n v Hnk Hin Hg Hv Hnv. rewrite get_dict_set_other; [exact Hg|].
      cbn [edits_of] in Hnk. rewrite M in Hnk. specialize (Hnk _ (or_introl eq_refl)).
      cbn [item_key_eqb] in Hnk. rewrite E in Hnk. exact Hnk.
  - (* the user writes a value *)
    unfold write_value_offline. cbn [set_ports m_ports]. rewrite find_port_upd by reflexivity.
    destruct (String.eqb id i) eqn:E; [|exists p; repeat split; auto].
    rewrite F. cbn [option_map]. eexists. split; [reflexivity|]. rewrite wvo_fixed.
    cbn [with_cached_value with_prov with_queue mp_prov mp_cached mp_enabled mp_cached_value mp_queue].
    split; [intros x Hx; apply set_add_keeps; exact Hx|].
    split; [intros Hn Hin; apply set_add_inv in Hin; destruct Hin as [Hin|Hin]; [discriminate|auto]|].
    split; [auto|]. split; [auto|].
    intros v Hnk. cbn [edits_of] in Hnk. specialize (Hnk _ (or_introl eq_refl)).
    cbn [item_key_eqb] in Hnk. congruence.
  - (* the user patches the device: no port changes *)
    rewrite patch_ports. exists p. repeat split; auto.
  - (* something the slave reported *)
    cbn [step_ok] in Hok. destruct (Hok id) as [Hk Hst].
    destruct (remote_port e m id p F Hk Hst) as (p' & F' & P' & A' & V').
    exists p'. split; [exact F'|]. rewrite P'.
    split; [auto|]. split; [auto|]. split; [intros He Hne; apply (V' He Hne)|].
    split.
    + intros n v _ Hin Hg Hv Hnv. rewrite A'; auto. congruence.
    + intros v _ Hin Hc Hv Hq He Hne. destruct (V' He Hne) as [_ V2].
      destruct V2 as [V2 V3]; [exact Hin|congruence|]. split; congruence.
  - (* one iteration of the main loop *)
    unfold tick. cbn [set_ports m_ports]. rewrite find_port_map by apply mp_id_tick_port. rewrite F. cbn [option_map].
    destruct (tick_port_facts p) as (T1 & T2 & T3 & T4).
    eexists. split; [reflexivity|]. rewrite T1, T2, T3.
    repeat split; auto; intros; rewrite T4 by assumption; assumption.
Qed.

(* the device attributes under a step that is not a device patch *)
Lemma step_dev : forall s m n v, step_ok s -> (forall ps, s <> OPatchDevice ps) ->
  In n (m_dev_prov m) -> get n (m_dev m) = v -> v <> VNone ->
  In n (m_dev_prov (ostep_run cfg_fixed m s)) /\ get n (m_dev (ostep_run cfg_fixed m s)) = v.
Proof.
  intros s m n v Hok Hnp Hin Hg Hv. destruct s as [i n0 w|i w|ps|e|]; cbn [ostep_run].
  - split; assumption.
  - split; assumption.
  - exfalso. apply (Hnp ps). reflexivity.
  - destruct (not_overwritten_device e m n Hin) as [G P]; [congruence|]. rewrite G, P. split; assumption.
  - split; assumption.
Qed.

(* ------------------------------------------------------------------------------------------------------------------ *)
(* the invariants of the run, relative to the mirror m0 at the start of the episode *)

(* a port of m0 is still there, "enabled" is not pending on it, and it is still enabled if it was *)
Definition base (m0 m : master) : Prop :=
  forall id p0, find_port id (m_ports m0) = Some p0 ->
  exists p, find_port id (m_ports m) = Some p /\ ~ In "enabled" (mp_prov p) /\ (mp_enabled p0 = true -> mp_enabled p = true).

(* the item is pending in m with the user's value *)
Definition good (m0 : master) (it : item) (m : master) : Prop :=
  match it with
  | IDevAttr n v => v <> VNone -> In n (m_dev_prov m) /\ get n (m_dev m) = v
  | IPortAttr id n v =>
      v <> VNone -> n <> "value" -> (exists p0, find_port id (m_ports m0) = Some p0) ->
      exists p, find_port id (m_ports m) = Some p /\ In n (mp_prov p) /\ get n (mp_cached p) = v
  | IPortValue id v =>
      v <> VNone -> (exists p0, find_port id (m_ports m0) = Some p0 /\ mp_enabled p0 = true) ->
      exists p, find_port id (m_ports m) = Some p /\ In "value" (mp_prov p) /\ mp_cached_value p = v /\ mp_queue p = []
  end.

Lemma base_step : forall m0 s m, step_ok s -> base m0 m -> base m0 (ostep_run cfg_fixed m s).
Proof.
  intros m0 s m Hok B id p0 F0. destruct (B id p0 F0) as (p & F & B1 & B2).
  destruct (step_port s m id p Hok F) as (p' & F' & _ & S2 & S3 & _).
  exists p'. split; [exact F'|]. split; [apply S2; exact B1|]. intros H. apply S3; auto.
Qed.

Lemma good_step : forall m0 s m it, step_ok s -> (forall ps, s <> OPatchDevice ps) -> base m0 m ->
  nokey it (edits_of s) -> good m0 it m -> good m0 it (ostep_run cfg_fixed m s).
Proof.
  intros m0 s m it Hok Hnp B Hnk G. destruct it as [id n v|id v|n v]; cbn [good] in *.
  - intros Hv Hn Hex. destruct (G Hv Hn Hex) as (p & F & I1 & I2).
    destruct (step_port s m id p Hok F) as (p' & F' & S1 & _ & _ & S4 & _).
    exists p'. split; [exact F'|]. split; [apply S1; exact I1|]. apply (S4 n v); assumption.
  - intros Hv Hex. destruct (G Hv Hex) as (p & F & I1 & I2 & I3).
    destruct Hex as (p0 & F0 & E0). destruct (B id p0 F0) as (pb & Fb & B1 & B2).
    rewrite F in Fb. injection Fb as E. subst pb.
    destruct (step_port s m id p Hok F) as (p' & F' & S1 & _ & _ & _ & S5).
    destruct (S5 v Hnk I1 I2 Hv I3 (B2 E0) B1) as [V1 V2].
    exists p'. split; [exact F'|]. split; [apply S1; exact I1|]. split; assumption.
  - intros Hv. destruct (G Hv) as [I1 I2]. apply step_dev; assumption.
Qed.

(* ------------------------------------------------------------------------------------------------------------------ *)
(* last_edits, one edit at a time *)

Definition redo (acc : list item) (it : item) : list item :=
  (filter (fun x => negb (item_key_eqb x it)) acc ++ [it])%list.

Lemma last_edits_unfold : forall steps, last_edits steps = fold_left redo (flat_map edits_of steps) [].
Proof. reflexivity. Qed.

Lemma redo_In : forall acc x it, In it (redo acc x) -> (In it acc /\ item_key_eqb it x = false) \/ it = x.
Proof.
  intros acc x it H. unfold redo in H. apply in_app_or in H. destruct H as [H|[H|[]]]; [left|right; auto].
  apply filter_In in H. destruct H as [H1 H2]. apply negb_true_iff in H2. auto.
Qed.

Lemma fold_redo_In : forall l acc it, In it (fold_left redo l acc) -> In it acc \/ In it l.
Proof.
  induction l as [|x r IH]; intros acc it H; cbn [fold_left] in H; [left; exact H|].
  destruct (IH _ _ H) as [H1|H1]; [|right; right; exact H1].
  destruct (redo_In _ _ _ H1) as [[H2 _]|H2]; [left; exact H2|right; left; auto].
Qed.

(* a device patch, one parameter at a time *)
Lemma patch_good : forall m0 ps m acc, (forall it, In it acc -> good m0 it m) ->
  forall it, In it (fold_left redo (map (fun kv => IDevAttr (fst kv) (snd kv)) ps) acc) ->
  good m0 it (patch_device_offline ps m).
Proof.
  intros m0. unfold patch_device_offline.
  induction ps as [|[k w] r IH]; intros m acc Hacc it Hit; cbn [map fold_left fst snd] in *; [apply Hacc; exact Hit|].
  apply (IH _ _) with (it := it) (2 := Hit). clear it Hit. intros it Hit.
  destruct (redo_In _ _ _ Hit) as [[H1 H2]|H1].
  - specialize (Hacc it H1). destruct it as [id n v|id v|n v]; cbn [good] in *.
    + exact Hacc.
    + exact Hacc.
    + intros Hv. destruct (Hacc Hv) as [I1 I2]. cbn [item_key_eqb] in H2.
      cbn [set_dev set_dev_prov m_dev m_dev_prov]. split; [apply set_add_keeps; exact I1|].
      rewrite get_dict_set_other; assumption.
  - subst it. cbn [good]. intros _. cbn [set_dev set_dev_prov m_dev m_dev_prov].
    split; [apply set_add_In|apply get_dict_set_same].
Qed.

(* an edit makes the item pending *)
Lemma good_set_attr : forall m0 m id n v, base m0 m -> mem n MASTER_ATTRS = false ->
  good m0 (IPortAttr id (slave_name n) v) (set_attr_offline id n v m).
Proof.
  intros m0 m id n v B M. cbn [good]. intros _ _ (p0 & F0). destruct (B id p0 F0) as (p & F & _).
  exists (set_attr_offline_port n v p). split.
  - unfold set_attr_offline. cbn [set_ports m_ports].
    rewrite find_port_upd_same by (intros; apply mp_id_set_attr_offline_port). rewrite F. reflexivity.
  - rewrite (sao_nonmaster _ _ _ M). cbn [with_cached with_prov mp_prov mp_cached].
    split; [apply set_add_In|apply get_dict_set_same].
Qed.

Lemma good_write_value : forall m0 m id v, base m0 m ->
  good m0 (IPortValue id v) (write_value_offline cfg_fixed id v m).
Proof.
  intros m0 m id v B. cbn [good]. intros _ (p0 & F0 & _). destruct (B id p0 F0) as (p & F & _).
  exists (write_value_offline_port cfg_fixed v p). split.
  - unfold write_value_offline. cbn [set_ports m_ports]. rewrite find_port_upd_same by reflexivity. rewrite F. reflexivity.
  - rewrite wvo_fixed. cbn [with_cached_value with_prov with_queue mp_prov mp_cached_value mp_queue].
    split; [apply set_add_In|]. split; reflexivity.
Qed.

(* one step, all the items at once *)
Lemma good_all_step : forall m0 s m acc, step_ok s -> base m0 m -> (forall it, In it acc -> good m0 it m) ->
  forall it, In it (fold_left redo (edits_of s) acc) -> good m0 it (ostep_run cfg_fixed m s).
Proof.
  intros m0 s m acc Hok B Hacc it Hit.
  assert (Hnone : edits_of s = [] -> (forall ps, s <> OPatchDevice ps) -> good m0 it (ostep_run cfg_fixed m s)).
  { intros E Hnp. rewrite E in Hit. cbn [fold_left] in Hit.
    apply good_step; try assumption; [rewrite E; intros x []|apply Hacc; exact Hit]. }
  assert (Hone : forall x, edits_of s = [x] -> (forall ps, s <> OPatchDevice ps) ->
                 good m0 x (ostep_run cfg_fixed m s) -> good m0 it (ostep_run cfg_fixed m s)).
  { intros x E Hnp Hx. rewrite E in Hit. cbn [fold_left] in Hit.
    destruct (redo_In _ _ _ Hit) as [[H1 H2]|H1]; [|subst it; exact Hx].
    apply good_step; try assumption; [|apply Hacc; exact H1].
    rewrite E. intros y [<-|[]]. exact H2. }
  destruct s as [i n0 w|i w|ps|e|].
  - cbn [edits_of] in *. destruct (mem n0 MASTER_ATTRS) eqn:M.
    + apply Hnone; [reflexivity|discriminate].
    + apply (Hone _ eq_refl); [discriminate|]. cbn [ostep_run]. apply good_set_attr; assumption.
  - apply (Hone _ eq_refl); [discriminate|]. cbn [ostep_run]. apply good_write_value; assumption.
  - cbn [ostep_run edits_of] in *. apply (patch_good m0 ps m acc Hacc it Hit).
  - apply Hnone; [reflexivity|discriminate].
  - apply Hnone; [reflexivity|discriminate].
Qed.

Lemma good_all_run : forall m0 steps m acc, Forall step_ok steps -> base m0 m -> (forall it, In it acc -> good m0 it m) ->
  forall it, In it (fold_left redo (flat_map edits_of steps) acc) -> good m0 it (orun cfg_fixed steps m).
Proof.
  intros m0. unfold orun. induction steps as [|s r IH]; intros m acc Hok B Hacc it Hit; cbn [flat_map fold_left] in *.
  - apply Hacc. exact Hit.
  - inversion Hok as [|? ? Hs Hr]; subst. rewrite fold_left_app in Hit.
    apply (IH (ostep_run cfg_fixed m s) (fold_left redo (edits_of s) acc)); try assumption.
    + apply base_step; assumption.
    + intros it' Hit'. apply (good_all_step m0 s m acc); assumption.
Qed.

(* ------------------------------------------------------------------------------------------------------------------ *)
(* from the invariant to the list of pending items *)

Lemma good_dev_pending : forall m n v, v <> VNone -> In n (m_dev_prov m) -> get n (m_dev m) = v ->
  In (IDevAttr n v) (pending_items m).
Proof.
  intros m n v Hv Hin Hg. unfold pending_items. apply in_or_app. left.
  apply (in_map (fun kv => IDevAttr (fst kv) (snd kv)) _ (n, v)). apply prov_attrs_In. repeat split; auto.
Qed.

Lemma good_attr_pending : forall m id n v p, v <> VNone -> find_port id (m_ports m) = Some p ->
  In n (mp_prov p) -> get n (mp_cached p) = v -> In (IPortAttr id n v) (pending_items m).
Proof.
  intros m id n v p Hv F Hin Hg. destruct (find_port_some _ _ _ F) as [Hp Hid].
  unfold pending_items. apply in_or_app. right. apply in_flat_map. exists p. split; [exact Hp|].
  unfold port_items. apply in_or_app. left. rewrite <- Hid.
  apply (in_map (fun kv => IPortAttr (mp_id p) (fst kv) (snd kv)) _ (n, v)). apply prov_attrs_In. repeat split; auto.
Qed.

Lemma good_value_pending : forall m id v p, v <> VNone -> find_port id (m_ports m) = Some p ->
  In "value" (mp_prov p) -> mp_cached_value p = v -> In (IPortValue id v) (pending_items m).
Proof.
  intros m id v p Hv F Hin Hc. destruct (find_port_some _ _ _ F) as [Hp Hid].
  unfold pending_items. apply in_or_app. right. apply in_flat_map. exists p. split; [exact Hp|].
  unfold port_items. apply in_or_app. right.
  assert (PV : prov_value p = v). { unfold prov_value. rewrite (proj2 (mem_In _ _) Hin). exact Hc. }
  rewrite <- Hid, <- PV. apply value_item_mk. congruence.
Qed.

(* ------------------------------------------------------------------------------------------------------------------ *)
(* the theorem *)

Theorem episode_keeps_last_edits : forall steps m,
  nothing_pending m ->
  (forall e, In (ORemote e) steps -> forall id, keeps id e /\ stable id (SEv e)) ->
  (forall id n v, In (OSetAttr id n v) steps -> slave_name n <> "enabled" /\ slave_name n <> "value") ->
  forall it, In it (last_edits steps) ->
  match it with
  | IDevAttr n v => v <> VNone -> In it (pending_items (orun cfg_fixed steps m))
  | IPortAttr id n v => v <> VNone -> (exists p, find_port id (m_ports m) = Some p) ->
                        In it (pending_items (orun cfg_fixed steps m))
  | IPortValue id v => v <> VNone -> (exists p, find_port id (m_ports m) = Some p /\ mp_enabled p = true) ->
                       In it (pending_items (orun cfg_fixed steps m))
  end.
Proof.
  intros steps m [_ Hnp] Hrem Hset it Hit.
  assert (Hok : Forall step_ok steps).
  { apply Forall_forall. intros s Hs. destruct s; cbn [step_ok]; [apply (Hset _ _ _ Hs)|exact I|exact I|apply (Hrem _ Hs)|exact I]. }
  assert (B : base m m).
  { intros id p0 F0. exists p0. split; [exact F0|]. split; [|auto].
    rewrite Forall_forall in Hnp. rewrite (Hnp p0) by (eapply find_port_some; exact F0). intros []. }
  rewrite last_edits_unfold in Hit.
  assert (G := good_all_run m steps m [] Hok B (fun it H => match H with end) it Hit).
  destruct it as [id n v|id v|n v]; cbn [good] in G.
  - intros Hv Hex.
    assert (Hn : n <> "value").
    { destruct (fold_redo_In _ _ _ Hit) as [[]|H]. apply in_flat_map in H. destruct H as (s & Hs & H).
      destruct s as [i n0 w|i w|ps|e|]; cbn [edits_of] in H.
      - destruct (mem n0 MASTER_ATTRS); [destruct H|]. destruct H as [H|[]]. injection H as _ <- _.
        apply (Hset _ _ _ Hs).
      - destruct H as [H|[]]. discriminate H.
      - apply in_map_iff in H. destruct H as (kv & H & _). discriminate H.
      - destruct H.
      - destruct H. }
    destruct (G Hv Hn Hex) as (p & F & I1 & I2). apply (good_attr_pending _ _ _ _ p); assumption.
  - intros Hv Hex. destruct (G Hv Hex) as (p & F & I1 & I2 & _). apply (good_value_pending _ _ _ p); assumption.
  - intros Hv. destruct (G Hv) as [I1 I2]. apply good_dev_pending; assumption.
Qed.

(* ------------------------------------------------------------------------------------------------------------------ *)
(* ... and is pushed exactly once with that value on reconnect *)

Lemma ids_map_tick : forall ps, ids (map tick_port ps) = ids ps.
Proof.
  unfold ids. induction ps as [|p r IH]; [reflexivity|]. cbn [map]. rewrite mp_id_tick_port, IH. reflexivity.
Qed.

Lemma step_nodup : forall s m, step_ok s -> NoDup (ids (m_ports m)) -> NoDup (ids (m_ports (ostep_run cfg_fixed m s))).
Proof.
  intros s m Hok H. destruct s as [i n0 w|i w|ps|e|]; cbn [ostep_run].
  - unfold set_attr_offline. cbn [set_ports m_ports].
    rewrite ids_upd by (intros; apply mp_id_set_attr_offline_port). exact H.
  - unfold write_value_offline. cbn [set_ports m_ports]. rewrite ids_upd by reflexivity. exact H.
  - rewrite patch_ports. exact H.
  - cbn [step_ok] in Hok. destruct e; cbn [handle].
    + unfold handle_value_change. destruct (find_port id (m_ports m)) as [p|]; [|exact H].
      destruct (negb (is_none (prov_value p))); [exact H|]. destruct (val_eqb (last_remote p) v); [exact H|].
      cbn [fst set_ports m_ports]. rewrite ids_upd by reflexivity. exact H.
    + destruct (hpu_frame cfg_fixed a aux m) as (_ & _ & _ & _ & E). rewrite E. exact H.
    + apply hpa_nodup. exact H.
    + exfalso. destruct (Hok id) as [Hk _]. apply Hk. reflexivity.
    + rewrite hdu_ports. exact H.
    + exfalso. destruct (Hok "") as [Hk _]. exact Hk.
    + exact H.
  - unfold tick. cbn [set_ports m_ports]. rewrite ids_map_tick. exact H.
Qed.

Lemma orun_nodup : forall steps m, Forall step_ok steps -> NoDup (ids (m_ports m)) ->
  NoDup (ids (m_ports (orun cfg_fixed steps m))).
Proof.
  unfold orun. induction steps as [|s r IH]; intros m Hok H; cbn [fold_left]; [exact H|].
  inversion Hok as [|? ? Hs Hr]; subst. apply IH; [exact Hr|]. apply step_nodup; assumption.
Qed.

Theorem episode_pushed_once : forall flags steps m,
  NoDup (ids (m_ports m)) ->
  (forall e, In (ORemote e) steps -> forall id, keeps id e /\ stable id (SEv e)) ->
  (forall id n v, In (OSetAttr id n v) steps -> slave_name n <> "enabled" /\ slave_name n <> "value") ->
  let m' := orun cfg_fixed steps m in
  pushed_once (pending_items m') (filter issued (snd (apply_provisioning cfg_fixed flags m'))) = true.
Proof.
  intros flags steps m Hnd Hrem Hset m'. apply pushed_once_fixed. apply orun_nodup; [|exact Hnd].
  apply Forall_forall. intros s Hs. destruct s; cbn [step_ok]; [apply (Hset _ _ _ Hs)|exact I|exact I|apply (Hrem _ Hs)|exact I].
Qed.
