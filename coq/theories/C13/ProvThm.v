(* C13 — provisioning: offline edits are recorded and kept, what the slave reports does not overwrite them (repaired
   handlers), on reconnect every pending item is pushed exactly once with the cached value before the refresh and nothing
   else is pushed, and afterwards nothing is pending. *)
From QT Require Import C12.Mirror C12.Spec C12.ResyncThm C12.OrderThm C13.Provisioning C13.Spec.
Open Scope string_scope.

(* ------------------------------------------------------------------------------------------------------------------ *)
(* dicts *)

Lemma lookup_dict_set : forall n k v a, lookup n (dict_set k v a) = if String.eqb n k then Some v else lookup n a.
Proof.
  intros n k v a. induction a as [|[k' w] r IH]; cbn [dict_set lookup]; [reflexivity|].
  destruct (String.eqb k k') eqn:E; cbn [lookup].
  - apply String.eqb_eq in E. subst k'. destruct (String.eqb n k); reflexivity.
  - rewrite IH. destruct (String.eqb n k') eqn:E2; [|reflexivity].
    apply String.eqb_eq in E2. subst k'. rewrite String.eqb_sym, E. reflexivity.
Qed.

Lemma get_dict_set_same : forall n v a, get n (dict_set n v a) = v.
Proof. intros. unfold get. rewrite lookup_dict_set, String.eqb_refl. reflexivity. Qed.

Lemma lookup_remove_key_same : forall k a, lookup k (remove_key k a) = None.
Proof.
  intros k a. unfold remove_key. induction a as [|[k' w] r IH]; [reflexivity|]. cbn [filter fst].
  destruct (String.eqb k k') eqn:E; cbn [negb lookup]; [exact IH|]. rewrite E. exact IH.
Qed.

(* a key bound in the overlay, always to the same value, has that value afterwards *)
Lemma lookup_dict_update_in : forall n v e a,
  (forall w, In (n, w) e -> w = v) -> In (n, v) e \/ lookup n a = Some v ->
  lookup n (dict_update e a) = Some v.
Proof.
  intros n v e. unfold dict_update. induction e as [|[k w] r IH]; intros a Hall H; cbn [fold_left fst snd].
  - destruct H as [[]|H]. exact H.
  - apply IH; [intros w' Hw; apply Hall; right; exact Hw|].
    rewrite lookup_dict_set. destruct (String.eqb n k) eqn:E.
    + right. apply String.eqb_eq in E. subst k. f_equal. apply Hall. left. reflexivity.
    + destruct H as [[H|H]|H].
      * injection H as -> ->. rewrite String.eqb_refl in E. discriminate.
      * left. exact H.
      * right. exact H.
Qed.

(* a key the overlay does not bind keeps the value of the base *)
Lemma lookup_dict_update_notin : forall n e a, (forall w, ~ In (n, w) e) -> lookup n (dict_update e a) = lookup n a.
Proof.
  intros n e. unfold dict_update. induction e as [|[k w] r IH]; intros a H; cbn [fold_left fst snd]; [reflexivity|].
  rewrite IH by (intros w' Hw; apply (H w'); right; exact Hw).
  rewrite lookup_dict_set. destruct (String.eqb n k) eqn:E; [|reflexivity].
  apply String.eqb_eq in E. subst k. exfalso. apply (H w). left. reflexivity.
Qed.

Lemma prov_attrs_In : forall n w prov cached,
  In (n, w) (prov_attrs prov cached) <-> In n prov /\ w = get n cached /\ w <> VNone.
Proof.
  intros n w prov cached. unfold prov_attrs. rewrite in_flat_map. split.
  - intros (k & Hk & Hin). destruct (get k cached) eqn:G; cbn [In] in Hin; [contradiction|..];
      (destruct Hin as [Hin|[]]; injection Hin as <- <-; rewrite G; repeat split; [exact Hk|discriminate]).
  - intros (Hn & -> & Hne). exists n. split; [exact Hn|].
    destruct (get n cached); [congruence|left; reflexivity..].
Qed.

Lemma get_dict_update_pending : forall n prov cached a, In n prov -> get n cached <> VNone ->
  get n (dict_update (prov_attrs prov cached) a) = get n cached.
Proof.
  intros n prov cached a Hin Hne.
  assert (L : lookup n (dict_update (prov_attrs prov cached) a) = Some (get n cached)).
  { apply lookup_dict_update_in.
    - intros w Hw. apply prov_attrs_In in Hw. tauto.
    - left. apply prov_attrs_In. auto. }
  unfold get at 1. rewrite L. reflexivity.
Qed.

Lemma get_dict_update_not_pending : forall n prov cached a, (In n prov -> get n cached = VNone) ->
  get n (dict_update (prov_attrs prov cached) a) = get n a.
Proof.
  intros n prov cached a H. unfold get. rewrite lookup_dict_update_notin; [reflexivity|].
  intros w Hw. apply prov_attrs_In in Hw. destruct Hw as (H1 & H2 & H3). rewrite (H H1) in H2. contradiction.
Qed.

Lemma set_add_In : forall n l, In n (set_add n l).
Proof.
  intros. unfold set_add. destruct (mem n l) eqn:E; [apply mem_In; exact E|]. apply in_or_app. right. left. reflexivity.
Qed.

(* ------------------------------------------------------------------------------------------------------------------ *)
(* T1 — offline edits are recorded and kept *)

Lemma mp_id_set_attr_offline_port : forall n v p, mp_id (set_attr_offline_port n v p) = mp_id p.
Proof. intros. unfold set_attr_offline_port. destruct (mem n MASTER_ATTRS); reflexivity. Qed.

Theorem pending_reported_attr : forall id n v m p slave fb,
  find_port id (m_ports m) = Some p -> mem n MASTER_ATTRS = false ->
  exists p', find_port id (m_ports (set_attr_offline id n v m)) = Some p' /\
    In (slave_name n) (reported_pending_port p') /\ get (slave_name n) (mp_cached p') = v /\
    (v <> VNone -> get_attr slave fb p' n = v).
Proof.
  intros id n v m p slave fb F Hm. exists (set_attr_offline_port n v p). split.
  - unfold set_attr_offline. cbn [set_ports m_ports].
    rewrite find_port_upd_same by (intros; apply mp_id_set_attr_offline_port). rewrite F. reflexivity.
  - unfold set_attr_offline_port. rewrite Hm. cbn zeta.
    unfold reported_pending_port, with_cached, with_prov. cbn [mp_prov mp_cached]. split; [apply set_add_In|].
    split; [apply get_dict_set_same|].
    intros Hv. unfold get_attr. rewrite Hm. cbn [mp_cached]. unfold slave_name.
    destruct (is_renamed n).
    + apply get_dict_set_same.
    + rewrite get_dict_set_same. destruct v; [congruence|reflexivity..].
Qed.

Theorem pending_reported_value : forall c id v m p,
  find_port id (m_ports m) = Some p ->
  exists p', find_port id (m_ports (write_value_offline c id v m)) = Some p' /\
    In "value" (reported_pending_port p') /\ mp_cached_value p' = v /\
    (exists sp, In sp (sv_ports (save (write_value_offline c id v m))) /\ sv_id sp = id /\ sv_value sp = v /\
                In "value" (sv_prov sp)).
Proof.
  intros c id v m p F. set (p' := write_value_offline_port c v p).
  assert (Hid' : forall q, mp_id (write_value_offline_port c v q) = mp_id q).
  { intros q. unfold write_value_offline_port. destruct (offline_write_clears_queue c); reflexivity. }
  assert (F' : find_port id (m_ports (write_value_offline c id v m)) = Some p').
  { unfold write_value_offline. cbn [set_ports m_ports]. rewrite find_port_upd_same by exact Hid'. rewrite F. reflexivity. }
  assert (Hin : In "value" (mp_prov p')).
  { unfold p', write_value_offline_port. destruct (offline_write_clears_queue c); apply set_add_In. }
  assert (Hcv : mp_cached_value p' = v).
  { unfold p', write_value_offline_port. destruct (offline_write_clears_queue c); reflexivity. }
  exists p'. split; [exact F'|]. split; [exact Hin|]. split; [exact Hcv|].
  exists (mk_saved_port (mp_id p') (mp_prov p') (mp_cached_value p') (mp_cached p')).
  destruct (find_port_some _ _ _ F') as [Hp Hid]. split; [|split; [exact Hid|split; [exact Hcv|exact Hin]]].
  unfold save. cbn [sv_ports].
  apply (in_map (fun p => mk_saved_port (mp_id p) (mp_prov p) (mp_cached_value p) (mp_cached p))). exact Hp.
Qed.

Theorem pending_reported_device : forall n v m,
  let m' := patch_device_offline [(n, v)] m in
  In n (reported_pending_device m') /\ get n (m_dev m') = v /\ sv_dev_prov (save m') = m_dev_prov m' /\
  sv_dev (save m') = m_dev m'.
Proof.
  intros n v m. cbn zeta. unfold patch_device_offline. cbn [fold_left fst snd].
  unfold reported_pending_device, set_dev, set_dev_prov. cbn [m_dev_prov m_dev m_ports m_ready m_online].
  split; [apply set_add_In|]. split; [apply get_dict_set_same|]. split; reflexivity.
Qed.

Theorem master_attr_edit_not_pending : forall id n v m p,
  find_port id (m_ports m) = Some p -> mem n MASTER_ATTRS = true ->
  exists p', find_port id (m_ports (set_attr_offline id n v m)) = Some p' /\ mp_prov p' = mp_prov p /\
             mp_cached p' = mp_cached p.
Proof.
  intros id n v m p F Hm. exists (set_attr_offline_port n v p). split.
  - unfold set_attr_offline. cbn [set_ports m_ports].
    rewrite find_port_upd_same by (intros; apply mp_id_set_attr_offline_port). rewrite F. reflexivity.
  - unfold set_attr_offline_port. rewrite Hm. split; reflexivity.
Qed.

(* ------------------------------------------------------------------------------------------------------------------ *)
(* T2 — what the slave reports does not overwrite what is pending (repaired handlers) *)

Definition keeps (id : string) (e : event) : Prop :=
  match e with EPortRemove i => i <> id | EFullUpdate _ _ => False | _ => True end.

(* events that address the port itself *)
Definition touches (id : string) (e : event) : Prop :=
  match e with EValueChange i _ => i = id | EPortUpdate a _ => id_of a = Some id | _ => False end.

Lemma handle_untouched : forall c e m id p,
  find_port id (m_ports m) = Some p -> keeps id e -> ~ touches id e ->
  find_port id (m_ports (fst (handle c e m))) = Some p.
Proof.
  intros c e m id p F Hk Ht. destruct e; cbn [handle keeps touches] in *.
  - rewrite hvc_other; [exact F|]. intro H. apply Ht. symmetry. exact H.
  - rewrite hpu_other; [exact F|exact Ht].
  - apply hpa_keeps. exact F.
  - rewrite hpr_other; [exact F|exact Hk].
  - rewrite hdu_ports. exact F.
  - contradiction.
  - exact F.
Qed.

Lemma touches_dec : forall id e, touches id e \/ ~ touches id e.
Proof.
  intros id e. destruct e; cbn [touches]; try (right; tauto).
  - destruct (String.eqb id0 id) eqn:E; [left; apply String.eqb_eq; exact E|right; apply String.eqb_neq; exact E].
  - destruct (id_of a) as [i|]; [|right; discriminate].
    destruct (String.eqb i id) eqn:E.
    + left. apply String.eqb_eq in E. congruence.
    + right. apply String.eqb_neq in E. congruence.
Qed.

Lemma port_update_dict_fixed : forall p a,
  port_update_dict cfg_fixed p a =
  if is_none (prov_value p) then dict_update (prov_attrs (mp_prov p) (mp_cached p)) a
  else remove_key "value" (dict_update (prov_attrs (mp_prov p) (mp_cached p)) a).
Proof. reflexivity. Qed.

Lemma update_enabled_cases : forall r aux p, let p1 := update_enabled r aux p in
  mp_cached_value p1 = mp_cached_value p /\ mp_prov p1 = mp_prov p /\ mp_cached p1 = mp_cached p /\
  (mp_enabled p = true -> mp_queue p1 = mp_queue p /\ mp_enabled p1 = truthy (get "enabled" (mp_cached p))).
Proof.
  intros r aux p. unfold update_enabled.
  destruct (truthy (get "enabled" (mp_cached p))) eqn:W; destruct (mp_enabled p) eqn:En; cbn [andb negb].
  - cbn zeta. rewrite En. auto.
  - destruct r; [|cbn zeta; repeat split; auto; discriminate].
    destruct aux as [v|]; [|cbn zeta; repeat split; auto; discriminate].
    destruct (is_none v); cbn zeta; repeat split; auto; discriminate.
  - cbn zeta. repeat split; auto.
  - cbn zeta. repeat split; auto; discriminate.
Qed.

Theorem not_overwritten_attr : forall e m id p n,
  find_port id (m_ports m) = Some p -> In n (mp_prov p) -> get n (mp_cached p) <> VNone -> n <> "value" -> keeps id e ->
  exists p', find_port id (m_ports (fst (handle cfg_fixed e m))) = Some p' /\
    get n (mp_cached p') = get n (mp_cached p) /\ mp_prov p' = mp_prov p.
Proof.
  intros e m id p n F Hin Hne Hnv Hk.
  destruct (touches_dec id e) as [Ht|Ht]; [|exists p; split; [apply handle_untouched; assumption|auto]].
  destruct e; cbn [touches] in Ht; try contradiction; cbn [handle].
  - (* value change *)
    subst id0. unfold handle_value_change. rewrite F.
    destruct (negb (is_none (prov_value p))); [exists p; auto|].
    destruct (val_eqb (last_remote p) v); [exists p; auto|].
    cbn [fst set_ports m_ports]. rewrite find_port_upd_same by reflexivity. rewrite F.
    exists (push v p). auto.
  - (* port update *)
    rewrite hpu_same by exact Ht. rewrite F. cbn [option_map]. eexists. split; [reflexivity|].
    unfold port_update_on.
    set (D := port_update_dict cfg_fixed p a).
    destruct (update_cached_facts D p) as (C1 & _ & _ & P1).
    destruct (update_enabled_cases (m_ready m) aux (update_cached D p)) as (_ & P2 & C2 & _).
    split; [|congruence].
    rewrite C2, C1. rewrite get_remove_key by exact Hnv.
    subst D. rewrite port_update_dict_fixed.
    destruct (is_none (prov_value p)); [|rewrite get_remove_key by exact Hnv]; apply get_dict_update_pending; assumption.
Qed.

(* As stated the value theorem is FALSE: its last conjunct claims the port stays enabled, but a pending edit
   enabled := false is (rightly) kept by the repaired _handle_port_update, so update_enabled disables the mirror port even
   though the event says enabled = true.

   Theorem not_overwritten_value : forall e m id p,
     find_port id (m_ports m) = Some p -> In "value" (mp_prov p) -> mp_cached_value p <> VNone -> keeps id e ->
     exists p', find_port id (m_ports (fst (handle cfg_fixed e m))) = Some p' /\
       mp_cached_value p' = mp_cached_value p /\ mp_prov p' = mp_prov p /\
       (mp_enabled p = true -> stable id (SEv e) -> mp_queue p' = mp_queue p /\ mp_enabled p' = true).

   The counterexample is below; the _partial version adds, inside the last conjunct, that a pending "enabled" is truthy. *)

Definition cex_port : mport :=
  mk_mport "x" [("enabled", VB false)] [] (VZ 1) true VNone ["value"; "enabled"] [] [].
Definition cex_master : master := mk_master [cex_port] [] [] true true.
Definition cex_event : event := EPortUpdate [("id", VS "x"); ("enabled", VB true)] None.

Lemma not_overwritten_value_refuted :
  ~ (forall e m id p,
     find_port id (m_ports m) = Some p -> In "value" (mp_prov p) -> mp_cached_value p <> VNone -> keeps id e ->
     exists p', find_port id (m_ports (fst (handle cfg_fixed e m))) = Some p' /\
       mp_cached_value p' = mp_cached_value p /\ mp_prov p' = mp_prov p /\
       (mp_enabled p = true -> stable id (SEv e) -> mp_queue p' = mp_queue p /\ mp_enabled p' = true)).
Proof.
  intros H.
  destruct (H cex_event cex_master "x" cex_port) as (p' & F & _ & _ & K).
  - reflexivity.
  - left. reflexivity.
  - discriminate.
  - exact I.
  - vm_compute in F. injection F as <-.
    destruct K as [_ K]; [reflexivity|intros _; reflexivity|]. discriminate K.
Qed.

Theorem not_overwritten_value_partial : forall e m id p,
  find_port id (m_ports m) = Some p -> In "value" (mp_prov p) -> mp_cached_value p <> VNone -> keeps id e ->
  exists p', find_port id (m_ports (fst (handle cfg_fixed e m))) = Some p' /\
    mp_cached_value p' = mp_cached_value p /\ mp_prov p' = mp_prov p /\
    (mp_enabled p = true -> stable id (SEv e) ->
     (In "enabled" (mp_prov p) -> get "enabled" (mp_cached p) <> VNone -> truthy (get "enabled" (mp_cached p)) = true) ->
     mp_queue p' = mp_queue p /\ mp_enabled p' = true).
Proof.
  intros e m id p F Hin Hne Hk.
  assert (PV : prov_value p = mp_cached_value p).
  { unfold prov_value. rewrite (proj2 (mem_In _ _) Hin). reflexivity. }
  assert (PN : is_none (prov_value p) = false).
  { rewrite PV. destruct (mp_cached_value p); [congruence|reflexivity..]. }
  destruct (touches_dec id e) as [Ht|Ht]; [|exists p; split; [apply handle_untouched; assumption|auto]].
  destruct e; cbn [touches] in Ht; try contradiction; cbn [handle].
  - (* value change: ignored *)
    subst id0. unfold handle_value_change. rewrite F, PN. cbn [negb fst]. exists p. auto.
  - (* port update: the value it carries is dropped *)
    rewrite hpu_same by exact Ht. rewrite F. cbn [option_map]. eexists. split; [reflexivity|].
    unfold port_update_on. rewrite port_update_dict_fixed, PN.
    set (A1 := dict_update (prov_attrs (mp_prov p) (mp_cached p)) a).
    assert (U : update_cached (remove_key "value" A1) p = with_cached p (remove_key "value" (remove_key "value" A1))).
    { unfold update_cached. rewrite lookup_remove_key_same. reflexivity. }
    rewrite U.
    destruct (update_enabled_cases (m_ready m) aux (with_cached p (remove_key "value" (remove_key "value" A1))))
      as (V2 & P2 & _ & E2).
    split; [exact V2|]. split; [exact P2|].
    intros Hen Hst Hpe. cbn [stable] in Hst. specialize (Hst Ht).
    destruct (E2 Hen) as [Q2 E3]. split; [exact Q2|]. rewrite E3. cbn [with_cached mp_cached].
    rewrite !get_remove_key by discriminate. subst A1.
    destruct (mem "enabled" (mp_prov p)) eqn:M.
    + apply mem_In in M. destruct (is_none (get "enabled" (mp_cached p))) eqn:N.
      * rewrite get_dict_update_not_pending; [exact Hst|].
        intros _. destruct (get "enabled" (mp_cached p)); [reflexivity|discriminate..].
      * assert (G : get "enabled" (mp_cached p) <> VNone) by (intro G; rewrite G in N; discriminate).
        rewrite get_dict_update_pending by assumption. apply Hpe; assumption.
    + apply mem_false in M. rewrite get_dict_update_not_pending; [exact Hst|]. intros H. contradiction.
Qed.

Lemma hvc_frame : forall id v m, m_dev (fst (handle_value_change id v m)) = m_dev m /\
  m_dev_prov (fst (handle_value_change id v m)) = m_dev_prov m.
Proof.
  intros. unfold handle_value_change. destruct (find_port id (m_ports m)) as [p|]; [|auto].
  destruct (negb (is_none (prov_value p))); [auto|]. destruct (val_eqb (last_remote p) v); auto.
Qed.

Lemma hpr_frame : forall id m, m_dev (fst (handle_port_remove id m)) = m_dev m /\
  m_dev_prov (fst (handle_port_remove id m)) = m_dev_prov m.
Proof. intros. unfold handle_port_remove. destruct (find_port id (m_ports m)); auto. Qed.

Theorem not_overwritten_device : forall e m n,
  In n (m_dev_prov m) -> get n (m_dev m) <> VNone ->
  get n (m_dev (fst (handle cfg_fixed e m))) = get n (m_dev m) /\ m_dev_prov (fst (handle cfg_fixed e m)) = m_dev_prov m.
Proof.
  intros e m n Hin Hne. destruct e; cbn [handle].
  - destruct (hvc_frame id v m) as [-> ->]. auto.
  - destruct (hpu_frame cfg_fixed a aux m) as (-> & -> & _). auto.
  - destruct (hpa_frame a aux m) as (-> & -> & _). auto.
  - destruct (hpr_frame id m) as [-> ->]. auto.
  - unfold handle_device_update. cbn [device_update_keeps_pending cfg_fixed fst set_dev m_dev m_dev_prov].
    split; [|reflexivity]. apply get_dict_update_pending; assumption.
  - cbn [fst]. rewrite fetch_ports_dev, fetch_ports_dev_prov.
    unfold fetch_device. cbn [device_update_keeps_pending cfg_fixed set_dev m_dev m_dev_prov].
    split; [|reflexivity]. apply get_dict_update_pending; assumption.
  - auto.
Qed.

Theorem tick_keeps_pending_value : forall m id p, find_port id (m_ports m) = Some p -> mp_queue p = [] ->
  exists p', find_port id (m_ports (tick m)) = Some p' /\ mp_cached_value p' = mp_cached_value p /\ mp_queue p' = [] /\
             mp_prov p' = mp_prov p /\ mp_cached p' = mp_cached p /\ mp_enabled p' = mp_enabled p.
Proof.
  intros m id p F Q. exists p. split; [|auto 6].
  unfold tick. cbn [set_ports m_ports]. rewrite find_port_map by apply mp_id_tick_port. rewrite F. cbn [option_map].
  unfold tick_port. rewrite Q. destruct (mp_enabled p); reflexivity.
Qed.

(* ------------------------------------------------------------------------------------------------------------------ *)
(* T4 — afterwards nothing is pending *)

Lemma prov_attrs_nil : forall prov cached, Forall (fun n => get n cached <> VNone) prov ->
  prov_attrs prov cached = [] -> prov = [].
Proof.
  intros prov cached H E. destruct prov as [|n r]; [reflexivity|]. exfalso.
  inversion H as [|? ? Hn _]; subst. unfold prov_attrs in E. cbn [flat_map] in E.
  destruct (get n cached); [congruence|discriminate..].
Qed.

Theorem nothing_pending_after : forall c flags m,
  Forall (fun n => get n (m_dev m) <> VNone) (m_dev_prov m) ->
  nothing_pending (fst (apply_provisioning c flags m)).
Proof.
  intros c flags m H. unfold apply_provisioning. cbn [fst]. unfold clear_provisioning, nothing_pending.
  destruct (prov_attrs (m_dev_prov m) (m_dev m)) eqn:E.
  - cbn [set_ports m_dev_prov m_ports]. split; [apply (prov_attrs_nil _ _ H E)|].
    apply Forall_forall. intros p Hp. apply in_map_iff in Hp. destruct Hp as (q & <- & _). reflexivity.
  - cbn [set_ports set_dev_prov m_dev_prov m_ports]. split; [reflexivity|].
    apply Forall_forall. intros q Hq. apply in_map_iff in Hq. destruct Hq as (q' & <- & _). reflexivity.
Qed.

Lemma mp_prov_port_update_on : forall c r a aux p, mp_prov (port_update_on c r a aux p) = mp_prov p.
Proof.
  intros. unfold port_update_on.
  destruct (update_cached_facts (port_update_dict c p a) p) as (_ & _ & _ & P1).
  destruct (update_enabled_cases r aux (update_cached (port_update_dict c p a) p)) as (_ & P2 & _). congruence.
Qed.

Lemma no_pending_upd : forall id f ps, (forall p, mp_prov (f p) = mp_prov p) ->
  Forall (fun p => mp_prov p = []) ps -> Forall (fun p => mp_prov p = []) (upd_port id f ps).
Proof.
  intros id f ps Hf H. induction H as [|p r Hp Hr IH]; cbn [upd_port]; [constructor|].
  destruct (String.eqb id (mp_id p)); constructor; auto. rewrite Hf. exact Hp.
Qed.

Lemma hpu_no_pending : forall c a aux m, no_pending m -> no_pending (fst (handle_port_update c a aux m)).
Proof.
  intros c a aux m H. unfold handle_port_update. destruct (id_of a) as [id|]; [|exact H].
  destruct (find_port id (m_ports m)); [|exact H]. unfold no_pending. cbn [fst set_ports m_ports].
  apply no_pending_upd; [intros; apply mp_prov_port_update_on|exact H].
Qed.

Lemma hpa_no_pending : forall a aux m, no_pending m -> no_pending (fst (handle_port_add a aux m)).
Proof.
  intros a aux m H. unfold handle_port_add. destruct (id_of a) as [id|]; [|exact H].
  destruct (find_port id (m_ports m)); [exact H|]. unfold no_pending. cbn [fst set_ports m_ports].
  apply Forall_app. split; [exact H|]. constructor; [|constructor].
  rewrite (new_port_as_update cfg_fixed). apply mp_prov_port_update_on.
Qed.

Lemma fetch_ports_no_pending : forall c ports m, no_pending m -> no_pending (fetch_ports c ports m).
Proof.
  intros c ports m H. rewrite fetch_ports_unfold. cbn zeta. unfold no_pending. cbn [set_ports m_ports].
  set (local := ids (m_ports m)).
  assert (H1 : forall l m0, no_pending m0 -> no_pending (fold_left (step_upd c local) l m0)).
  { induction l as [|x r IH]; intros m0 H0; cbn [fold_left]; [exact H0|]. apply IH. unfold step_upd.
    destruct (id_of (fst x)) as [i|]; [|exact H0]. destruct (mem i local); [|exact H0]. apply hpu_no_pending. exact H0. }
  assert (H2 : forall l m0, no_pending m0 -> no_pending (fold_left (step_add local) l m0)).
  { induction l as [|x r IH]; intros m0 H0; cbn [fold_left]; [exact H0|]. apply IH. unfold step_add.
    destruct (id_of (fst x)) as [i|]; [|exact H0]. destruct (mem i local); [exact H0|]. apply hpa_no_pending. exact H0. }
  specialize (H2 ports _ (H1 ports m H)). unfold no_pending in H2.
  rewrite Forall_forall in *. intros p Hp. apply filter_In in Hp. apply H2. apply Hp.
Qed.

Theorem nothing_pending_after_online : forall flags dev ports m,
  Forall (fun n => get n (m_dev m) <> VNone) (m_dev_prov m) ->
  nothing_pending (fst (handle_online cfg_fixed flags dev ports m)).
Proof.
  intros flags dev ports m H. unfold handle_online, apply_provisioning. cbn [fst].
  destruct (nothing_pending_after cfg_fixed flags (set_online m true) H) as [D P]. cbn [apply_provisioning fst] in D, P.
  unfold nothing_pending. cbn [set_ready m_dev_prov m_ports]. split.
  - rewrite fetch_ports_dev_prov. exact D.
  - apply (fetch_ports_no_pending cfg_fixed ports (fetch_device cfg_fixed dev (clear_provisioning cfg_fixed (set_online m true)))).
    exact P.
Qed.

(* ------------------------------------------------------------------------------------------------------------------ *)
(* T3 — on reconnect: exactly one request per pending item, with the cached value, before the refresh, nothing else *)

Definition item_target (it : item) : target :=
  match it with IPortAttr id _ _ => TPort id | IPortValue id _ => TPortValue id | IDevAttr _ _ => TDevice end.

(* a request that is not about the item *)
Definition miss (it : item) (q : preq) : Prop := targets it q = false /\ carries it q = false.
Definition misses (it : item) (l : list preq) : Prop := forall q, In q l -> miss it q.

Lemma miss_target : forall it q, target_eqb (q_target q) (item_target it) = false -> miss it q.
Proof.
  intros it q H. unfold miss, targets, carries.
  destruct it; cbn [item_target] in H; rewrite H; cbn [andb]; rewrite !andb_false_r; auto.
Qed.

Lemma miss_nonpatch : forall it q, is_patch q = false -> miss it q.
Proof. intros it q H. unfold miss, targets, carries. rewrite H. auto. Qed.

Lemma misses_app : forall it a b, misses it a -> misses it b -> misses it (a ++ b).
Proof. intros it a b Ha Hb q Hq. apply in_app_or in Hq. destruct Hq; auto. Qed.

Lemma misses_nil : forall it, misses it [].
Proof. intros it q []. Qed.

Lemma count_app : forall (f : preq -> bool) a b, count f (a ++ b) = (count f a + count f b)%nat.
Proof. intros. unfold count. rewrite filter_app, app_length. reflexivity. Qed.

Lemma count_zero : forall (f : preq -> bool) l, (forall q, In q l -> f q = false) -> count f l = 0%nat.
Proof.
  intros f l H. unfold count. induction l as [|q r IH]; [reflexivity|]. cbn [filter].
  rewrite (H q) by (left; reflexivity). apply IH. intros q' Hq. apply H. right. exact Hq.
Qed.

Lemma count_unique : forall (f : preq -> bool) A q0 B,
  (forall q, In q A -> f q = false) -> f q0 = true -> (forall q, In q B -> f q = false) ->
  count f (A ++ q0 :: B) = 1%nat.
Proof.
  intros f A q0 B HA H0 HB. rewrite count_app, (count_zero f A HA).
  change (q0 :: B) with ([q0] ++ B)%list. rewrite count_app, (count_zero f B HB).
  unfold count. cbn [filter]. rewrite H0. reflexivity.
Qed.

(* the request that pushes an item, and the requests around it *)
Definition pushed_by (it : item) (R : list preq) : Prop :=
  exists A q0 B, R = (A ++ q0 :: B)%list /\ misses it A /\ misses it B /\ targets it q0 = true /\ carries it q0 = true.

Lemma pushed_once_wrap : forall its R pre post,
  (forall it, In it its -> pushed_by it R) ->
  (forall q, In q pre -> is_patch q = false) -> (forall q, In q post -> is_patch q = false) ->
  pushed_once its (pre ++ R ++ post) = true.
Proof.
  intros its R pre post H Hpre Hpost. unfold pushed_once. apply forallb_forall. intros it Hit.
  destruct (H it Hit) as (A & q0 & B & -> & HA & HB & T0 & C0).
  assert (Mpre : misses it pre) by (intros q Hq; apply miss_nonpatch, Hpre, Hq).
  assert (Mpost : misses it post) by (intros q Hq; apply miss_nonpatch, Hpost, Hq).
  assert (E : (pre ++ (A ++ q0 :: B) ++ post)%list = ((pre ++ A) ++ q0 :: (B ++ post))%list).
  { rewrite <- !app_assoc. reflexivity. }
  rewrite E.
  assert (MA := misses_app it _ _ Mpre HA). assert (MB := misses_app it _ _ HB Mpost).
  rewrite (count_unique (targets it)), (count_unique (carries it)); try reflexivity; try assumption;
    intros q Hq; first [apply (MA q Hq)|apply (MB q Hq)].
Qed.

(* the requests of one port under the repaired code *)
Definition attr_req (p : mport) : list preq :=
  match prov_attrs (mp_prov p) (mp_cached p) with
  | [] => []
  | a => [mk_preq "PATCH" (TPort (mp_id p)) (BAttrs a)]
  end.
Definition value_req (p : mport) : list preq :=
  match prov_value p with
  | VNone => []
  | v => [mk_preq "PATCH" (TPortValue (mp_id p)) (BVal v)]
  end.

Lemma port_requests_fixed : forall p, port_requests cfg_fixed p = (attr_req p ++ value_req p)%list.
Proof.
  intros p. unfold port_requests, attr_req, value_req. cbn zeta. f_equal; try reflexivity.
  all: try (destruct (prov_attrs (mp_prov p) (mp_cached p)); reflexivity).
  all: destruct (prov_value p); reflexivity.
Qed.

Lemma attr_req_in : forall p q, In q (attr_req p) ->
  q = mk_preq "PATCH" (TPort (mp_id p)) (BAttrs (prov_attrs (mp_prov p) (mp_cached p))).
Proof.
  intros p q. unfold attr_req. destruct (prov_attrs (mp_prov p) (mp_cached p)); [intros []|].
  intros [<-|[]]. reflexivity.
Qed.

Lemma attr_req_some : forall p kv, In kv (prov_attrs (mp_prov p) (mp_cached p)) ->
  attr_req p = [mk_preq "PATCH" (TPort (mp_id p)) (BAttrs (prov_attrs (mp_prov p) (mp_cached p)))].
Proof.
  intros p kv. unfold attr_req. destruct (prov_attrs (mp_prov p) (mp_cached p)); [intros []|reflexivity].
Qed.

Lemma value_req_in : forall p q, In q (value_req p) ->
  q = mk_preq "PATCH" (TPortValue (mp_id p)) (BVal (prov_value p)) /\ prov_value p <> VNone.
Proof.
  intros p q. unfold value_req. destruct (prov_value p); [intros []|..];
    (intros [<-|[]]; split; [reflexivity|discriminate]).
Qed.

Lemma value_req_some : forall p, prov_value p <> VNone ->
  value_req p = [mk_preq "PATCH" (TPortValue (mp_id p)) (BVal (prov_value p))].
Proof. intros p H. unfold value_req. destruct (prov_value p); [congruence|reflexivity..]. Qed.

Lemma value_item_in : forall p it,
  In it (match prov_value p with VNone => [] | v => [IPortValue (mp_id p) v] end) ->
  it = IPortValue (mp_id p) (prov_value p) /\ prov_value p <> VNone.
Proof.
  intros p it. destruct (prov_value p); [intros []|..]; (intros [<-|[]]; split; [reflexivity|discriminate]).
Qed.

Lemma value_item_mk : forall p, prov_value p <> VNone ->
  In (IPortValue (mp_id p) (prov_value p)) (match prov_value p with VNone => [] | v => [IPortValue (mp_id p) v] end).
Proof. intros p H. destruct (prov_value p); [congruence|left; reflexivity..]. Qed.

Lemma device_requests_some : forall m kv, In kv (prov_attrs (m_dev_prov m) (m_dev m)) ->
  device_requests m = [mk_preq "PATCH" TDevice (BAttrs (prov_attrs (m_dev_prov m) (m_dev m)))].
Proof.
  intros m kv. unfold device_requests. destruct (prov_attrs (m_dev_prov m) (m_dev m)); [intros []|reflexivity].
Qed.

Lemma device_requests_in : forall m q, In q (device_requests m) ->
  q = mk_preq "PATCH" TDevice (BAttrs (prov_attrs (m_dev_prov m) (m_dev m))).
Proof.
  intros m q. unfold device_requests. destruct (prov_attrs (m_dev_prov m) (m_dev m)); [intros []|].
  intros [<-|[]]. reflexivity.
Qed.

Lemma query_requests_in : forall flags q, In q (query_requests flags) ->
  q = mk_preq "GET" TWebhooks BNone \/ q = mk_preq "GET" TReverse BNone.
Proof.
  intros flags q. unfold query_requests. intros H. apply in_app_or in H.
  destruct H as [H|H]; [destruct (has_flag 1 flags)|destruct (has_flag 2 flags)]; cbn [In] in H;
    try contradiction; destruct H as [<-|[]]; auto.
Qed.

Lemma query_nonpatch : forall flags q, In q (query_requests flags) -> is_patch q = false.
Proof. intros flags q H. destruct (query_requests_in flags q H) as [-> | ->]; reflexivity. Qed.

(* every request apply_provisioning builds *)
Lemma requests_elems : forall flags m q, In q (provisioning_requests cfg_fixed flags m) ->
  q = mk_preq "PATCH" TDevice (BAttrs (prov_attrs (m_dev_prov m) (m_dev m))) \/
  (exists p, In p (m_ports m) /\ q = mk_preq "PATCH" (TPort (mp_id p)) (BAttrs (prov_attrs (mp_prov p) (mp_cached p)))) \/
  (exists p, In p (m_ports m) /\ prov_value p <> VNone /\
             q = mk_preq "PATCH" (TPortValue (mp_id p)) (BVal (prov_value p))) \/
  q = mk_preq "GET" TWebhooks BNone \/ q = mk_preq "GET" TReverse BNone.
Proof.
  intros flags m q H. unfold provisioning_requests in H.
  apply in_app_or in H. destruct H as [H|H]; [left; apply device_requests_in; exact H|].
  apply in_app_or in H. destruct H as [H|H]; [|right; right; right; apply (query_requests_in flags); exact H].
  apply in_flat_map in H. destruct H as (p & Hp & H). rewrite port_requests_fixed in H.
  apply in_app_or in H. destruct H as [H|H].
  - right. left. exists p. split; [exact Hp|apply attr_req_in; exact H].
  - right. right. left. destruct (value_req_in p q H) as [E N]. exists p. auto.
Qed.

Lemma In_has_key : forall n v (a : attrs), In (n, v) a -> has_key n a = true.
Proof.
  intros n v a. unfold has_key. induction a as [|[k w] r IH]; [intros []|]. cbn [lookup].
  destruct (String.eqb n k) eqn:E; [reflexivity|]. intros [H|H]; [|exact (IH H)].
  injection H as -> ->. rewrite String.eqb_refl in E. discriminate.
Qed.

Lemma lookup_unique : forall n v (a : attrs), In (n, v) a -> (forall w, In (n, w) a -> w = v) -> lookup n a = Some v.
Proof.
  intros n v a. induction a as [|[k w] r IH]; [intros []|]. intros Hin Hall. cbn [lookup].
  destruct (String.eqb n k) eqn:E.
  - apply String.eqb_eq in E. subst k. f_equal. apply Hall. left. reflexivity.
  - destruct Hin as [H|H].
    + injection H as -> ->. rewrite String.eqb_refl in E. discriminate.
    + apply IH; [exact H|]. intros w' Hw. apply Hall. right. exact Hw.
Qed.

Lemma lookup_prov_attrs : forall n v prov cached, In (n, v) (prov_attrs prov cached) ->
  lookup n (prov_attrs prov cached) = Some v.
Proof.
  intros n v prov cached H. apply lookup_unique; [exact H|].
  intros w Hw. apply prov_attrs_In in H. apply prov_attrs_In in Hw. destruct H as (_ & -> & _). tauto.
Qed.

(* the requests of ports with other ids *)
Lemma misses_other_ports : forall it id l,
  item_target it = TPort id \/ item_target it = TPortValue id -> ~ In id (ids l) ->
  misses it (flat_map (port_requests cfg_fixed) l).
Proof.
  intros it id l Ht Hn q Hq. apply in_flat_map in Hq. destruct Hq as (p & Hp & Hq).
  assert (Hid : String.eqb (mp_id p) id = false).
  { apply String.eqb_neq. intros E. apply Hn. unfold ids. rewrite <- E. apply in_map. exact Hp. }
  rewrite port_requests_fixed in Hq. apply in_app_or in Hq. apply miss_target.
  destruct Hq as [Hq|Hq].
  - rewrite (attr_req_in p q Hq). destruct Ht as [-> | ->]; cbn [q_target target_eqb]; [exact Hid|reflexivity].
  - destruct (value_req_in p q Hq) as [-> _]. destruct Ht as [-> | ->]; cbn [q_target target_eqb]; [reflexivity|exact Hid].
Qed.

Lemma misses_device_requests : forall it id m,
  item_target it = TPort id \/ item_target it = TPortValue id -> misses it (device_requests m).
Proof.
  intros it id m Ht q Hq. rewrite (device_requests_in m q Hq). apply miss_target.
  destruct Ht as [-> | ->]; reflexivity.
Qed.

Lemma misses_query : forall it flags, misses it (query_requests flags).
Proof. intros it flags q Hq. apply miss_nonpatch. apply (query_nonpatch flags). exact Hq. Qed.

Lemma item_pushed : forall flags m it, NoDup (ids (m_ports m)) -> In it (pending_items m) ->
  pushed_by it (provisioning_requests cfg_fixed flags m).
Proof.
  intros flags m it Hnd Hin. unfold pending_items in Hin. apply in_app_or in Hin. unfold provisioning_requests.
  destruct Hin as [Hin|Hin].
  - (* a device attribute *)
    apply in_map_iff in Hin. destruct Hin as ([n v] & <- & Hkv). cbn [fst snd].
    exists [], (mk_preq "PATCH" TDevice (BAttrs (prov_attrs (m_dev_prov m) (m_dev m)))),
           (flat_map (port_requests cfg_fixed) (m_ports m) ++ query_requests flags)%list.
    split; [rewrite (device_requests_some m _ Hkv); reflexivity|].
    split; [apply misses_nil|]. split.
    + apply misses_app; [|apply misses_query].
      intros q Hq. apply in_flat_map in Hq. destruct Hq as (p & _ & Hq). rewrite port_requests_fixed in Hq.
      apply in_app_or in Hq. apply miss_target. destruct Hq as [Hq|Hq].
      * rewrite (attr_req_in p q Hq). reflexivity.
      * destruct (value_req_in p q Hq) as [-> _]. reflexivity.
    + unfold targets, carries, is_patch. cbn [q_method q_target q_body target_eqb].
      rewrite String.eqb_refl, (In_has_key n v _ Hkv), (lookup_prov_attrs n v _ _ Hkv). cbn [option_eqb andb].
      rewrite val_eqb_refl. auto.
  - (* something of a port *)
    apply in_flat_map in Hin. destruct Hin as (p & Hp & Hin).
    destruct (in_split p (m_ports m) Hp) as (l1 & l2 & Hsplit).
    assert (Hn : ~ In (mp_id p) (ids l1) /\ ~ In (mp_id p) (ids l2)).
    { rewrite Hsplit in Hnd. unfold ids in *. rewrite map_app in Hnd. cbn [map] in Hnd. apply NoDup_remove_2 in Hnd.
      split; intro H; apply Hnd; apply in_or_app; auto. }
    destruct Hn as [Hn1 Hn2]. rewrite Hsplit, flat_map_app. cbn [flat_map]. rewrite port_requests_fixed.
    unfold port_items in Hin. apply in_app_or in Hin. destruct Hin as [Hin|Hin].
    + (* an attribute *)
      apply in_map_iff in Hin. destruct Hin as ([n v] & <- & Hkv). cbn [fst snd].
      set (it := IPortAttr (mp_id p) n v).
      assert (Ht : item_target it = TPort (mp_id p) \/ item_target it = TPortValue (mp_id p)) by (left; reflexivity).
      exists (device_requests m ++ flat_map (port_requests cfg_fixed) l1)%list,
             (mk_preq "PATCH" (TPort (mp_id p)) (BAttrs (prov_attrs (mp_prov p) (mp_cached p)))),
             (value_req p ++ flat_map (port_requests cfg_fixed) l2 ++ query_requests flags)%list.
      split; [rewrite (attr_req_some p _ Hkv); rewrite <- !app_assoc; reflexivity|].
      split; [apply misses_app; [apply (misses_device_requests it _ m Ht)|apply (misses_other_ports it _ l1 Ht Hn1)]|].
      split.
      * apply misses_app; [|apply misses_app; [apply (misses_other_ports it _ l2 Ht Hn2)|apply misses_query]].
        intros q Hq. destruct (value_req_in p q Hq) as [-> _]. apply miss_target. reflexivity.
      * unfold it, targets, carries, is_patch. cbn [q_method q_target q_body target_eqb].
        rewrite !String.eqb_refl, (In_has_key n v _ Hkv), (lookup_prov_attrs n v _ _ Hkv). cbn [option_eqb andb].
        rewrite val_eqb_refl. auto.
    + (* the value *)
      destruct (value_item_in p it Hin) as [-> Hv].
      set (it := IPortValue (mp_id p) (prov_value p)).
      assert (Ht : item_target it = TPort (mp_id p) \/ item_target it = TPortValue (mp_id p)) by (right; reflexivity).
      exists (device_requests m ++ flat_map (port_requests cfg_fixed) l1 ++ attr_req p)%list,
             (mk_preq "PATCH" (TPortValue (mp_id p)) (BVal (prov_value p))),
             (flat_map (port_requests cfg_fixed) l2 ++ query_requests flags)%list.
      split; [rewrite (value_req_some p Hv); rewrite <- !app_assoc; reflexivity|].
      split.
      * apply misses_app; [apply (misses_device_requests it _ m Ht)|].
        apply misses_app; [apply (misses_other_ports it _ l1 Ht Hn1)|].
        intros q Hq. rewrite (attr_req_in p q Hq). apply miss_target. reflexivity.
      * split; [apply misses_app; [apply (misses_other_ports it _ l2 Ht Hn2)|apply misses_query]|].
        unfold it, targets, carries, is_patch. cbn [q_method q_target q_body target_eqb].
        rewrite !String.eqb_refl, val_eqb_refl. auto.
Qed.

(* every request is well formed for the HTTP client: nothing is dropped *)
Lemma requests_issued : forall flags m q, In q (provisioning_requests cfg_fixed flags m) -> issued q = true.
Proof.
  intros flags m q H.
  destruct (requests_elems flags m q H) as [-> |[(p & _ & ->)|[(p & _ & _ & ->)|[-> | ->]]]]; reflexivity.
Qed.

Lemma filter_all : forall (f : preq -> bool) l, (forall q, In q l -> f q = true) -> filter f l = l.
Proof.
  intros f l H. induction l as [|q r IH]; [reflexivity|]. cbn [filter]. rewrite (H q) by (left; reflexivity).
  f_equal. apply IH. intros q' Hq. apply H. right. exact Hq.
Qed.

Lemma requests_no_refresh : forall mp flags m q, In q (provisioning_requests cfg_fixed flags m) -> is_refresh mp q = false.
Proof.
  intros mp flags m q H.
  destruct (requests_elems flags m q H) as [-> |[(p & _ & ->)|[(p & _ & _ & ->)|[-> | ->]]]]; destruct mp; reflexivity.
Qed.

Lemma before_refresh_skip : forall mp its l r, (forall q, In q l -> is_refresh mp q = false) ->
  before_refresh mp its (l ++ r) = before_refresh mp its r.
Proof.
  intros mp its l r H. induction l as [|q l' IH]; [reflexivity|]. cbn [app before_refresh].
  rewrite (H q) by (left; reflexivity). apply IH. intros q' Hq. apply H. right. exact Hq.
Qed.

Lemma no_item_targets_nonpatch : forall its q, is_patch q = false -> existsb (fun it => targets it q) its = false.
Proof.
  intros its q H. induction its as [|it r IH]; [reflexivity|]. cbn [existsb]. rewrite IH.
  unfold targets. rewrite H. reflexivity.
Qed.

Lemma requests_not_spurious : forall flags m q, In q (provisioning_requests cfg_fixed flags m) ->
  (if is_patch q then
     match q_target q, q_body q with
     | TPort id, BAttrs a => forallb (fun kv => existsb (fun it => match it with
                                                                   | IPortAttr i n _ => String.eqb i id && String.eqb n (fst kv)
                                                                   | _ => false end) (pending_items m)) a
     | TDevice, BAttrs a => forallb (fun kv => existsb (fun it => match it with
                                                                  | IDevAttr n _ => String.eqb n (fst kv)
                                                                  | _ => false end) (pending_items m)) a
     | TPortValue id, _ => existsb (fun it => match it with IPortValue i _ => String.eqb i id | _ => false end)
                                   (pending_items m)
     | _, _ => false
     end
   else true) = true.
Proof.
  intros flags m q H.
  destruct (requests_elems flags m q H) as [-> |[(p & Hp & ->)|[(p & Hp & Hv & ->)|[-> | ->]]]]; try reflexivity;
    unfold is_patch; cbn [q_method q_target q_body]; rewrite String.eqb_refl.
  - apply forallb_forall. intros kv Hkv. apply existsb_exists. exists (IDevAttr (fst kv) (snd kv)). split.
    + unfold pending_items. apply in_or_app. left. apply (in_map (fun kv => IDevAttr (fst kv) (snd kv))). exact Hkv.
    + apply String.eqb_refl.
  - apply forallb_forall. intros kv Hkv. apply existsb_exists. exists (IPortAttr (mp_id p) (fst kv) (snd kv)). split.
    + unfold pending_items. apply in_or_app. right. apply in_flat_map. exists p. split; [exact Hp|].
      unfold port_items. apply in_or_app. left. apply (in_map (fun kv => IPortAttr (mp_id p) (fst kv) (snd kv))). exact Hkv.
    + rewrite !String.eqb_refl. reflexivity.
  - apply existsb_exists. exists (IPortValue (mp_id p) (prov_value p)). split.
    + unfold pending_items. apply in_or_app. right. apply in_flat_map. exists p. split; [exact Hp|].
      unfold port_items. apply in_or_app. right. apply value_item_mk. exact Hv.
    + apply String.eqb_refl.
Qed.

(* the whole exchange of a reconnect: something that is not a PATCH, the provisioning requests, then the refresh *)
Lemma push_ok_wrap : forall mp flags m pre post,
  NoDup (ids (m_ports m)) ->
  (forall q, In q pre -> is_patch q = false /\ is_refresh mp q = false) ->
  (forall q, In q post -> is_patch q = false) ->
  before_refresh mp (pending_items m) post = true ->
  push_ok mp (pending_items m) (pre ++ provisioning_requests cfg_fixed flags m ++ post) = true.
Proof.
  intros mp flags m pre post Hnd Hpre Hpost Hbr. unfold push_ok.
  rewrite pushed_once_wrap; [|intros it Hit; apply item_pushed; assumption|intros q Hq; apply Hpre, Hq|exact Hpost].
  rewrite before_refresh_skip by (intros q Hq; apply Hpre, Hq).
  rewrite before_refresh_skip by (apply requests_no_refresh). rewrite Hbr. cbn [andb].
  unfold nothing_spurious. apply forallb_forall. intros q Hq.
  apply in_app_or in Hq. destruct Hq as [Hq|Hq]; [rewrite (proj1 (Hpre q Hq)); reflexivity|].
  apply in_app_or in Hq. destruct Hq as [Hq|Hq]; [|rewrite (Hpost q Hq); reflexivity].
  apply (requests_not_spurious flags m q Hq).
Qed.

Theorem pushed_once_fixed : forall flags m, NoDup (ids (m_ports m)) ->
  pushed_once (pending_items m) (filter issued (snd (apply_provisioning cfg_fixed flags m))) = true.
Proof.
  intros flags m Hnd. unfold apply_provisioning. cbn [snd]. rewrite filter_all by apply requests_issued.
  rewrite <- (app_nil_r (provisioning_requests cfg_fixed flags m)).
  apply (pushed_once_wrap (pending_items m) _ [] []).
  - intros it Hit. apply item_pushed; assumption.
  - intros q [].
  - intros q [].
Qed.

Theorem push_ok_online : forall flags dev ports m, NoDup (ids (m_ports m)) ->
  push_ok false (pending_items m) (filter issued (snd (handle_online cfg_fixed flags dev ports m))) = true.
Proof.
  intros flags dev ports m Hnd. unfold handle_online, apply_provisioning. cbn [snd].
  change (provisioning_requests cfg_fixed flags (set_online m true)) with (provisioning_requests cfg_fixed flags m).
  rewrite filter_app, (filter_all issued (provisioning_requests cfg_fixed flags m)) by apply requests_issued.
  change (filter issued refresh_requests) with refresh_requests.
  apply (push_ok_wrap false flags m [] refresh_requests Hnd).
  - intros q [].
  - intros q [<-|[<-|[]]]; reflexivity.
  - unfold refresh_requests. cbn [before_refresh].
    change (is_refresh false (mk_preq "GET" TDevice BNone)) with true. cbn iota.
    cbn [existsb]. rewrite no_item_targets_nonpatch by reflexivity. reflexivity.
Qed.

Lemma poll_device_ports : forall c dev m, m_ports (poll_device c dev m) = m_ports m.
Proof. intros. unfold poll_device. destruct (dict_eqb dev (m_dev m)); [reflexivity|apply hdu_ports]. Qed.

Lemma push_ok_poll_from : forall flags m0, NoDup (ids (m_ports m0)) ->
  push_ok true (pending_items m0)
    (filter issued ([mk_preq "GET" TDevice BNone] ++ provisioning_requests cfg_fixed flags m0 ++ [mk_preq "GET" TPorts BNone]))
  = true.
Proof.
  intros flags m0 Hnd.
  rewrite !filter_app, (filter_all issued (provisioning_requests cfg_fixed flags m0)) by apply requests_issued.
  change (filter issued [mk_preq "GET" TDevice BNone]) with [mk_preq "GET" TDevice BNone].
  change (filter issued [mk_preq "GET" TPorts BNone]) with [mk_preq "GET" TPorts BNone].
  apply (push_ok_wrap true flags m0 _ _ Hnd).
  - intros q [<-|[]]. split; reflexivity.
  - intros q [<-|[]]. reflexivity.
  - reflexivity.
Qed.

(* the line  m_dev_prov m = [] \/ True ->  of the request is dropped, as asked *)
Theorem push_ok_poll : forall flags dev ports m, NoDup (ids (m_ports m)) ->
  push_ok true (pending_items (poll_device cfg_fixed dev m))
          (filter issued (snd (poll_reconnect cfg_fixed flags dev ports m))) = true.
Proof.
  intros flags dev ports m Hnd. unfold poll_reconnect, apply_provisioning. cbn [snd].
  change (provisioning_requests cfg_fixed flags (set_online (poll_device cfg_fixed dev m) true))
    with (provisioning_requests cfg_fixed flags (poll_device cfg_fixed dev m)).
  apply push_ok_poll_from. rewrite poll_device_ports. exact Hnd.
Qed.

(* T5 — the composition over a whole offline episode is in EpisodeThm.v; its refutation for the code that did not clear the
   queue at an offline write is History/C13Old.v C13_offline_write_keeps_queue_refuted *)
