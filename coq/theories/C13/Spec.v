(* C13 — specification: what must be pending, what must reach the slave on reconnect, in which order.  Stated on items
   (what the user changed, with the value the user gave) and on the list of requests the device received; independent of how
   the master builds its requests.  Executable: the same predicates are the oracle on the request log of the simulated slave. *)
From QT Require Export C13.Provisioning.
Open Scope string_scope.

(* something the user changed while the slave was offline *)
Inductive item :=
| IPortAttr (id n : string) (v : val)     (* n is the slave's name of the attribute *)
| IPortValue (id : string) (v : val)
| IDevAttr (n : string) (v : val).

Definition target_eqb (a b : target) : bool :=
  match a, b with
  | TDevice, TDevice | TPorts, TPorts | TWebhooks, TWebhooks | TReverse, TReverse => true
  | TPort x, TPort y | TPortValue x, TPortValue y => String.eqb x y
  | _, _ => false
  end.

Definition is_patch (q : preq) : bool := String.eqb (q_method q) "PATCH".

(* the request is about this item (whatever value it carries) *)
Definition targets (it : item) (q : preq) : bool :=
  is_patch q &&
  match it with
  | IPortAttr id n _ => target_eqb (q_target q) (TPort id) &&
                        match q_body q with BAttrs a => has_key n a | _ => false end
  | IPortValue id _ => target_eqb (q_target q) (TPortValue id)
  | IDevAttr n _ => target_eqb (q_target q) TDevice &&
                    match q_body q with BAttrs a => has_key n a | _ => false end
  end.

(* ... and carries the user's value *)
Definition carries (it : item) (q : preq) : bool :=
  is_patch q &&
  match it with
  | IPortAttr id n v => target_eqb (q_target q) (TPort id) &&
                        match q_body q with BAttrs a => option_eqb val_eqb (lookup n a) (Some v) | _ => false end
  | IPortValue id v => target_eqb (q_target q) (TPortValue id) &&
                       match q_body q with BVal w => val_eqb w v | _ => false end
  | IDevAttr n v => target_eqb (q_target q) TDevice &&
                    match q_body q with BAttrs a => option_eqb val_eqb (lookup n a) (Some v) | _ => false end
  end.

Definition count {A} (f : A -> bool) (l : list A) : nat := List.length (filter f l).

(* exactly one request about the item among those the device received, and it carries the user's value *)
Definition pushed_once (its : list item) (received : list preq) : bool :=
  forallb (fun it => Nat.eqb (count (targets it) received) 1 && Nat.eqb (count (carries it) received) 1) its.

(* a refresh of the mirror *)
Definition is_refresh (mode_poll : bool) (q : preq) : bool :=
  String.eqb (q_method q) "GET" &&
  (target_eqb (q_target q) TPorts || (negb mode_poll && target_eqb (q_target q) TDevice)).

(* no request about an item comes after a refresh *)
Fixpoint before_refresh (mode_poll : bool) (its : list item) (received : list preq) : bool :=
  match received with
  | [] => true
  | q :: r => if is_refresh mode_poll q
              then negb (existsb (fun q' => existsb (fun it => targets it q') its) r)
              else before_refresh mode_poll its r
  end.

(* every attribute / value the device was sent is one of the items: nothing is pushed that the user did not change *)
Definition nothing_spurious (its : list item) (received : list preq) : bool :=
  forallb (fun q =>
    if is_patch q then
      match q_target q, q_body q with
      | TPort id, BAttrs a => forallb (fun kv => existsb (fun it => match it with
                                                                    | IPortAttr i n _ => String.eqb i id && String.eqb n (fst kv)
                                                                    | _ => false end) its) a
      | TDevice, BAttrs a => forallb (fun kv => existsb (fun it => match it with
                                                                   | IDevAttr n _ => String.eqb n (fst kv)
                                                                   | _ => false end) its) a
      | TPortValue id, _ => existsb (fun it => match it with IPortValue i _ => String.eqb i id | _ => false end) its
      | _, _ => false
      end
    else true) received.

Definition push_ok (mode_poll : bool) (its : list item) (received : list preq) : bool :=
  pushed_once its received && before_refresh mode_poll its received && nothing_spurious its received.

(* what is pending in a mirror, as items (the values are the ones the cache holds) *)
Definition port_items (p : mport) : list item :=
  (map (fun kv => IPortAttr (mp_id p) (fst kv) (snd kv)) (prov_attrs (mp_prov p) (mp_cached p)) ++
   match prov_value p with VNone => [] | v => [IPortValue (mp_id p) v] end)%list.

Definition pending_items (m : master) : list item :=
  (map (fun kv => IDevAttr (fst kv) (snd kv)) (prov_attrs (m_dev_prov m) (m_dev m)) ++ flat_map port_items (m_ports m))%list.

Definition nothing_pending (m : master) : Prop :=
  m_dev_prov m = [] /\ Forall (fun p => mp_prov p = []) (m_ports m).

(* the last value the user gave to an item during an offline episode *)
Definition item_key_eqb (a b : item) : bool :=
  match a, b with
  | IPortAttr i n _, IPortAttr j k _ => String.eqb i j && String.eqb n k
  | IPortValue i _, IPortValue j _ => String.eqb i j
  | IDevAttr n _, IDevAttr k _ => String.eqb n k
  | _, _ => false
  end.

Definition edits_of (s : ostep) : list item :=
  match s with
  | OSetAttr id n v => if mem n MASTER_ATTRS then [] else [IPortAttr id (slave_name n) v]
  | OWriteValue id v => [IPortValue id v]
  | OPatchDevice ps => map (fun kv => IDevAttr (fst kv) (snd kv)) ps
  | _ => []
  end.

(* later edits of the same item replace earlier ones *)
Definition last_edits (steps : list ostep) : list item :=
  fold_left (fun acc it => filter (fun x => negb (item_key_eqb x it)) acc ++ [it])%list (flat_map edits_of steps) [].
