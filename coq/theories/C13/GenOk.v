(* C13 — the variant of the three statements that the translator read from slaves/devices.py is the repaired one.
   This lemma is what stops compiling on a tree that has the code as found (F5): the positive theorems of Props/C13.v are
   stated for [cfg_src] and proved through it. *)
From QT Require Import C12.Mirror Gen.C13Gen.
Lemma cfg_src_fixed : cfg_src = cfg_fixed.
Proof. reflexivity. Qed.
