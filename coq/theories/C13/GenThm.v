(* C13 — the theorems of ProvThm.v (proved for the repaired configuration) restated for the configuration the translator read
   from the source. *)
From QT Require Import C12.Mirror C12.Spec C13.Provisioning C13.Spec C13.ProvThm C13.EpisodeThm C13.GenOk Gen.C13Gen.
Open Scope string_scope.

Lemma not_overwritten_attr_src : forall e m id p n,
  find_port id (m_ports m) = Some p -> In n (mp_prov p) -> get n (mp_cached p) <> VNone -> n <> "value" -> keeps id e ->
  exists p', find_port id (m_ports (fst (handle cfg_src e m))) = Some p' /\
    get n (mp_cached p') = get n (mp_cached p) /\ mp_prov p' = mp_prov p.
Proof. rewrite cfg_src_fixed. exact not_overwritten_attr. Qed.

Lemma not_overwritten_value_partial_src : forall e m id p,
  find_port id (m_ports m) = Some p -> In "value" (mp_prov p) -> mp_cached_value p <> VNone -> keeps id e ->
  exists p', find_port id (m_ports (fst (handle cfg_src e m))) = Some p' /\
    mp_cached_value p' = mp_cached_value p /\ mp_prov p' = mp_prov p /\
    (mp_enabled p = true -> stable id (SEv e) ->
     (In "enabled" (mp_prov p) -> get "enabled" (mp_cached p) <> VNone -> truthy (get "enabled" (mp_cached p)) = true) ->
     mp_queue p' = mp_queue p /\ mp_enabled p' = true).
Proof. rewrite cfg_src_fixed. exact not_overwritten_value_partial. Qed.

Lemma not_overwritten_device_src : forall e m n,
  In n (m_dev_prov m) -> get n (m_dev m) <> VNone ->
  get n (m_dev (fst (handle cfg_src e m))) = get n (m_dev m) /\ m_dev_prov (fst (handle cfg_src e m)) = m_dev_prov m.
Proof. rewrite cfg_src_fixed. exact not_overwritten_device. Qed.

Lemma pushed_once_src : forall flags m, NoDup (ids (m_ports m)) ->
  pushed_once (pending_items m) (filter issued (snd (apply_provisioning cfg_src flags m))) = true.
Proof. rewrite cfg_src_fixed. exact pushed_once_fixed. Qed.

Lemma push_ok_online_src : forall flags dev ports m, NoDup (ids (m_ports m)) ->
  push_ok false (pending_items m) (filter issued (snd (handle_online cfg_src flags dev ports m))) = true.
Proof. rewrite cfg_src_fixed. exact push_ok_online. Qed.

Lemma push_ok_poll_src : forall flags dev ports m, NoDup (ids (m_ports m)) ->
  push_ok true (pending_items (poll_device cfg_src dev m)) (filter issued (snd (poll_reconnect cfg_src flags dev ports m))) = true.
Proof. rewrite cfg_src_fixed. exact push_ok_poll. Qed.

Lemma nothing_pending_after_online_src : forall flags dev ports m,
  Forall (fun n => get n (m_dev m) <> VNone) (m_dev_prov m) ->
  nothing_pending (fst (handle_online cfg_src flags dev ports m)).
Proof. rewrite cfg_src_fixed. exact nothing_pending_after_online. Qed.

Lemma episode_keeps_last_edits_src : forall steps m,
  nothing_pending m ->
  (forall e, In (ORemote e) steps -> forall id, keeps id e /\ stable id (SEv e)) ->
  (forall id n v, In (OSetAttr id n v) steps -> slave_name n <> "enabled" /\ slave_name n <> "value") ->
  forall it, In it (last_edits steps) ->
  match it with
  | IDevAttr n v => v <> VNone -> In it (pending_items (orun cfg_src steps m))
  | IPortAttr id n v => v <> VNone -> (exists p, find_port id (m_ports m) = Some p) ->
                        In it (pending_items (orun cfg_src steps m))
  | IPortValue id v => v <> VNone -> (exists p, find_port id (m_ports m) = Some p /\ mp_enabled p = true) ->
                       In it (pending_items (orun cfg_src steps m))
  end.
Proof. rewrite cfg_src_fixed. exact episode_keeps_last_edits. Qed.

Lemma episode_pushed_once_src : forall flags steps m,
  NoDup (ids (m_ports m)) ->
  (forall e, In (ORemote e) steps -> forall id, keeps id e /\ stable id (SEv e)) ->
  (forall id n v, In (OSetAttr id n v) steps -> slave_name n <> "enabled" /\ slave_name n <> "value") ->
  let m' := orun cfg_src steps m in
  pushed_once (pending_items m') (filter issued (snd (apply_provisioning cfg_src flags m'))) = true.
Proof. rewrite cfg_src_fixed. exact episode_pushed_once. Qed.
