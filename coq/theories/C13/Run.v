(* C13 — dispatch used by the generated case files.
   bad_model: the real objects driven step by step through an outage (offline edits, events of the first listen answer,
   _handle_online / _poll_once reconnect, apply_provisioning); mirror state and the requests built must be the model's, with
   the variant of the three statements that the translator read from the source (Gen/C13Gen.v).
   bad_spec:  the request log of the simulated slave after a reconnect against the specification (C13/Spec.v). *)
From QT Require Export C12.Run C13.Spec.
From QT Require Import Gen.C13Gen.
Open Scope string_scope.

Inductive pstep :=
| PM (s : mstep)
| POffline
| POnline (flags : list Z) (dev : attrs) (ports : list (attrs * option val))          (* listening slave answers again *)
| PPollReconnect (flags : list Z) (dev : attrs) (ports : list (attrs * option val))   (* polled slave answers again *)
| PSetAttr (id n : string) (v : val)
| PWriteValue (id : string) (v : val)
| PPatchDevice (params : attrs)
| PProvision (flags : list Z).

(* a request as the HTTP client saw it *)
Definition oreq := (string * string * body)%type.

Definition body_eqb (a b : body) : bool :=
  match a, b with
  | BNone, BNone => true
  | BAttrs x, BAttrs y => dict_eqb x y
  | BVal x, BVal y => val_eqb x y
  | _, _ => false
  end.

Definition oreq_eqb (q : preq) (o : oreq) : bool :=
  let '(mth, path, b) := o in
  String.eqb (q_method q) mth && String.eqb (path_of (q_target q)) path && body_eqb (q_body q) b.

Definition pstep_run (c : cfg) (m : master) (s : pstep) : master * bool * list preq :=
  match s with
  | PM s => (mstep_run c m s, [])
  | POffline => (handle_offline m, true, [])
  | POnline flags dev ports => let '(m', r) := handle_online c flags dev ports m in (m', true, r)
  | PPollReconnect flags dev ports => let '(m', r) := poll_reconnect c flags dev ports m in (m', true, r)
  | PSetAttr id n v => (set_attr_offline id n v m, true, [])
  | PWriteValue id v => (write_value_offline c id v m, true, [])
  | PPatchDevice ps => (patch_device_offline ps m, true, [])
  | PProvision flags => let '(m', r) := apply_provisioning c flags m in (m', true, r)
  end.

Definition pobs := (option obs_state * option (list oreq))%type.

Fixpoint pfirst_bad (c : cfg) (m : master) (steps : list (pstep * pobs)) (i : nat) : option nat :=
  match steps with
  | [] => None
  | (s, (o, rq)) :: r =>
      let '(m', ok, reqs) := pstep_run c m s in
      if ok && match o with Some st => state_matches m' st | None => true end
            && match rq with Some l => list_eqb2 oreq_eqb reqs l | None => true end
      then pfirst_bad c m' r (S i) else Some i
  end.

Definition pcase := (obs_state * list (pstep * pobs))%type.

Definition pmodel_ok (c : cfg) (x : pcase) : bool :=
  match pfirst_bad c (master_of_obs (fst x)) (snd x) 0 with None => true | Some _ => false end.

Definition bad_model (cases : list pcase) : list nat := mismatches (pmodel_ok cfg_src) cases 0.
Definition bad_steps (cases : list pcase) : list nat :=
  map (fun x => match pfirst_bad cfg_src (master_of_obs (fst x)) (snd x) 0 with None => 0 | Some i => S i end) cases.

(* specification oracle: one reconnect episode *)
Inductive pscase :=
| SPush (mode_poll : bool) (its : list item) (received : list preq)   (* what the device received from the reconnect to the sync *)
| SPush2 (mode_poll : bool) (its win : list item) (received : list preq)
      (* win: edits that landed while the reconnect sequence was in progress (sent as online edits or provisioned with the rest):
         exactly once like the others, but not bound to come before the refresh *)
| SOnline (its : list item) (received : list preq)   (* edits made while the slave is online, and all it received meanwhile *)
| SPending (reported expected : list string)          (* "provisioning" shown right after an offline edit contains the names *)
| SNothingPending (reported : list string).           (* "provisioning" shown at the sync point after the reconnect *)

Definition pspec_ok (x : pscase) : bool :=
  match x with
  | SPush mp its rec => push_ok mp its rec
  | SPush2 mp its win rec => pushed_once (its ++ win) rec && before_refresh mp its rec && nothing_spurious (its ++ win) rec
  | SOnline its rec => pushed_once its rec && nothing_spurious its rec
  | SPending rep ex => forallb (fun n => mem n rep) ex
  | SNothingPending rep => match rep with [] => true | _ => false end
  end.

Definition bad_spec (cases : list pscase) : list nat := mismatches pspec_ok cases 0.
(* which clause failed: 0 ok, 1 pushed_once, 2 before_refresh, 3 nothing_spurious, 4 pending not reported, 5 still pending *)
Definition spec_kinds (cases : list pscase) : list nat :=
  map (fun x => match x with
                | SPush mp its rec => if negb (pushed_once its rec) then 1 else if negb (before_refresh mp its rec) then 2
                                      else if negb (nothing_spurious its rec) then 3 else 0
                | SPush2 mp its win rec => if negb (pushed_once (its ++ win) rec) then 1 else if negb (before_refresh mp its rec) then 2
                                           else if negb (nothing_spurious (its ++ win) rec) then 3 else 0
                | SOnline its rec => if negb (pushed_once its rec) then 1 else if negb (nothing_spurious its rec) then 3 else 0
                | SPending rep ex => if forallb (fun n => mem n rep) ex then 0 else 4
                | SNothingPending rep => match rep with [] => 0 | _ => 5 end
                end)%nat cases.
