(* C13 — model of provisioning: edits made while the slave is offline are recorded, kept, and pushed on reconnect
   (qtoggleserver/slaves/ports.py set_attr / write_value, slaves/devices.py intercept_request / apply_provisioning /
   _handle_online / prepare_for_save).  Definitions only; the mirror and the event handlers (with their guards) are those of
   C12/Mirror.v.  The request apply_provisioning builds is modelled as built: method, path and body. *)
From QT Require Export C12.Mirror.
Open Scope string_scope.

(* ------------------------------------------------------------------------------------------------------------------ *)
(* edits on the master while the slave is offline *)

(* SlavePort.set_attr, offline branch (MASTER_ATTRS are handled by the master's own port object) *)
Definition set_attr_offline_port (n : string) (v : val) (p : mport) : mport :=
  if mem n MASTER_ATTRS then with_local p (dict_set n v (mp_local p))
  else
    let n' := slave_name n in
    with_cached (with_prov p (set_add n' (mp_prov p))) (dict_set n' v (mp_cached p)).

Definition set_attr_offline (id n : string) (v : val) (m : master) : master :=
  set_ports m (upd_port id (set_attr_offline_port n v) (m_ports m)).

(* SlavePort.write_value, offline branch *)
Definition write_value_offline_port (c : cfg) (v : val) (p : mport) : mport :=
  let p1 := if offline_write_clears_queue c then with_queue p [] else p in
  with_cached_value (with_prov p1 (set_add "value" (mp_prov p1))) v.

Definition write_value_offline (c : cfg) (id : string) (v : val) (m : master) : master :=
  set_ports m (upd_port id (write_value_offline_port c v) (m_ports m)).

(* Slave.intercept_request('PATCH', '/device', params) while offline *)
Definition patch_device_offline (params : attrs) (m : master) : master :=
  fold_left (fun m kv => set_dev (set_dev_prov m (set_add (fst kv) (m_dev_prov m))) (dict_set (fst kv) (snd kv) (m_dev m)))
            params m.

(* ------------------------------------------------------------------------------------------------------------------ *)
(* apply_provisioning: the requests, in the order they are issued, and the state afterwards *)

Inductive target :=
| TDevice                      (* /device *)
| TPort (id : string)          (* /ports/<id> *)
| TPortValue (id : string)     (* /ports/<id>/value *)
| TPorts                       (* /ports *)
| TWebhooks
| TReverse.

Definition path_of (t : target) : string :=
  match t with
  | TDevice => "/device"
  | TPort id => "/ports/" ++ id
  | TPortValue id => "/ports/" ++ id ++ "/value"
  | TPorts => "/ports"
  | TWebhooks => "/webhooks"
  | TReverse => "/reverse"
  end.

Record preq := mk_preq { q_method : string; q_target : target; q_body : body }.

Definition to_request (q : preq) : request := mk_req (q_method q) (path_of (q_target q)) (q_body q).

Definition port_requests (c : cfg) (p : mport) : list preq :=
  let a := prov_attrs (mp_prov p) (mp_cached p) in
  ((match a with [] => [] | _ => [mk_preq "PATCH" (TPort (mp_id p)) (BAttrs a)] end) ++
   (match prov_value p with
    | VNone => []
    | v => [mk_preq "PATCH" (TPortValue (mp_id p)) (if value_push_has_body c then BVal v else BNone)]
    end))%list.

Definition device_requests (m : master) : list preq :=
  match prov_attrs (m_dev_prov m) (m_dev m) with
  | [] => []
  | a => [mk_preq "PATCH" TDevice (BAttrs a)]
  end.

Definition has_flag (f : Z) (flags : list Z) : bool := existsb (Z.eqb f) flags.

(* flags: 1 = the device has webhooks, 2 = it has reverse calls (then their parameters are queried after provisioning) *)
Definition query_requests (flags : list Z) : list preq :=
  ((if has_flag 1 flags then [mk_preq "GET" TWebhooks BNone] else []) ++
   (if has_flag 2 flags then [mk_preq "GET" TReverse BNone] else []))%list.

Definition provisioning_requests (c : cfg) (flags : list Z) (m : master) : list preq :=
  (device_requests m ++ flat_map (port_requests c) (m_ports m) ++ query_requests flags)%list.

(* clear_provisioning_attrs is only called when something was pending with a value; port.clear_provisioning always *)
(* ... and, in the repaired code, a value that has been sent is queued as the port's newest remote value (the device is
   assumed to accept it) *)
Definition provisioned_port (c : cfg) (p : mport) : mport :=
  let p1 := if value_push_has_body c then match prov_value p with VNone => p | v => push v p end else p in
  with_prov p1 [].

Definition clear_provisioning (c : cfg) (m : master) : master :=
  let m1 := match prov_attrs (m_dev_prov m) (m_dev m) with [] => m | _ => set_dev_prov m [] end in
  set_ports m1 (map (provisioned_port c) (m_ports m1)).

Definition apply_provisioning (c : cfg) (flags : list Z) (m : master) : master * list preq :=
  (clear_provisioning c m, provisioning_requests c flags m).

(* the HTTP client refuses to issue POST / PATCH / PUT without a body and GET with one (tornado): such a request never
   reaches the device *)
Definition issued (q : preq) : bool :=
  let expects := String.eqb (q_method q) "PATCH" || String.eqb (q_method q) "POST" || String.eqb (q_method q) "PUT" in
  match q_body q with BNone => negb expects | _ => expects end.

(* _handle_online of a listening slave: provision, then refresh the device attributes and the ports.  The answers of the
   refresh are arguments (they are what the device answers after it has applied the provisioning requests). *)
Definition refresh_requests : list preq := [mk_preq "GET" TDevice BNone; mk_preq "GET" TPorts BNone].

Definition handle_online (c : cfg) (flags : list Z) (dev : attrs) (ports : list (attrs * option val)) (m : master)
  : master * list preq :=
  let '(m1, reqs) := apply_provisioning c flags (set_online m true) in
  (set_ready (fetch_ports c ports (fetch_device c dev m1)) true, (reqs ++ refresh_requests)%list).

(* reconnect of a polled slave (_poll_once): the GET /device probe is diffed first (guarded), then provisioning, then the ports
   are polled *)
Definition poll_reconnect (c : cfg) (flags : list Z) (dev : attrs) (ports : list (attrs * option val)) (m : master)
  : master * list preq :=
  let m0 := poll_device c dev m in
  let '(m1, reqs) := apply_provisioning c flags (set_online m0 true) in
  (poll_ports c ports (set_ready m1 true),
   ([mk_preq "GET" TDevice BNone] ++ reqs ++ [mk_preq "GET" TPorts BNone])%list).

Definition handle_offline (m : master) : master := set_online m false.

(* ------------------------------------------------------------------------------------------------------------------ *)
(* persistence of the pending sets: prepare_for_save / load_from_data (port), prepare_for_save / Slave(entry) (device) *)

Record saved_port := mk_saved_port { sv_id : string; sv_prov : list string; sv_value : val; sv_attrs : attrs }.
Record saved := mk_saved { sv_ports : list saved_port; sv_dev : attrs; sv_dev_prov : list string }.

Definition save (m : master) : saved :=
  mk_saved (map (fun p => mk_saved_port (mp_id p) (mp_prov p) (mp_cached_value p) (mp_cached p)) (m_ports m))
           (m_dev m) (m_dev_prov m).

(* what is pending, as GET /ports ("provisioning" attribute) and GET /devices report it *)
Definition reported_pending_port (p : mport) : list string := mp_prov p.
Definition reported_pending_device (m : master) : list string := m_dev_prov m.

(* ------------------------------------------------------------------------------------------------------------------ *)
(* steps of an offline episode, for the theorems that quantify over every interleaving *)

Inductive ostep :=
| OSetAttr (id n : string) (v : val)
| OWriteValue (id : string) (v : val)
| OPatchDevice (params : attrs)
| ORemote (e : event)            (* something the slave reported, processed while the edits are pending *)
| OTick.

Definition ostep_run (c : cfg) (m : master) (s : ostep) : master :=
  match s with
  | OSetAttr id n v => set_attr_offline id n v m
  | OWriteValue id v => write_value_offline c id v m
  | OPatchDevice ps => patch_device_offline ps m
  | ORemote e => fst (handle c e m)
  | OTick => tick m
  end.

Definition orun (c : cfg) (steps : list ostep) (m : master) : master := fold_left (ostep_run c) steps m.
