(* C02 — reference semantics of the stateless expression language, written as a denotation ("the value of IF is the value of
   the selected branch", "MIN is the first argument that no other argument is less than", "AND is 0 iff the first argument
   that is not a true value is a false value") rather than following the code's loops and early exits.

   Reading choices (the language reference is not available offline; each is also listed in the evidence):
   * arithmetic is Python's (Base/PyNum.v): ADD is builtin sum(), DIV true division, MOD floored modulo, comparisons exact;
   * an eager function has no value when any argument has none; the kinds of all failing arguments are reported, and when
     they differ the kind is unspecified (KAmbig) — which exception surfaces first under asyncio.gather is a timing matter;
   * SGN is the sign of the number itself (-1, 0, 1), not of its truncation;
   * MIN / MAX over arguments containing NaN are unspecified (IEEE comparisons with NaN are all false);
   * a value the model cannot compute (libm pow, complex results) is unspecified. *)
From QT Require Export Expr.Eval.
Open Scope Z_scope.
Open Scope string_scope.

Definition is_nan_val (v : pyval) : bool := match v with VFloat f => f_is_nan f | _ => false end.

Definition first_such (ok : pyval -> bool) (l : list pyval) : outcome :=
  match find ok l with Some e => Val e | None => Fail [KAmbig] end.

Definition spec_min (a : list pyval) : outcome :=
  if existsb is_nan_val a then Fail [KAmbig]
  else first_such (fun e => forallb (fun x => negb (py_lt x e)) a) a.

Definition spec_max (a : list pyval) : outcome :=
  if existsb is_nan_val a then Fail [KAmbig]
  else first_such (fun e => forallb (fun x => negb (py_gt x e)) a) a.

Definition spec_sgn (x : pyval) : outcome :=
  if is_nan_val x then Fail [KAmbig]
  else if py_gt x (VInt 0) then Val (VInt 1) else if py_lt x (VInt 0) then Val (VInt (-1)) else Val (VInt 0).

Definition spec_fn (c : ctx) (f : string) (a : list pyval) : outcome :=
  if String.eqb f "MIN" then match a with _ :: _ => spec_min a | [] => apply_fn false c f a end
  else if String.eqb f "MAX" then match a with _ :: _ => spec_max a | [] => apply_fn false c f a end
  else if String.eqb f "SGN" then match a with [x] => spec_sgn x | _ => apply_fn false c f a end
  else apply_fn false c f a.

Definition truthy (o : outcome) : bool := match o with Val v => py_truth v | Ref _ => true | Fail _ => false end.
Definition falsy (o : outcome) : bool := match o with Val v => negb (py_truth v) | _ => false end.

Definition spec_and (os : list outcome) : outcome :=
  match find (fun o => negb (truthy o)) os with
  | None => Val (VInt 1)
  | Some (Fail k) => Fail k
  | Some _ => Val (VInt 0)
  end.

Definition spec_or (os : list outcome) : outcome :=
  match find (fun o => negb (falsy o)) os with
  | None => Val (VInt 0)
  | Some (Fail k) => Fail k
  | Some _ => Val (VInt 1)
  end.

Fixpoint sem (c : ctx) (e : expr) {struct e} : outcome :=
  match e with
  | Lit None => Fail [KUnavail]
  | Lit (Some v) => of_pyres (py_float v)
  | PortVal id => eval_port_value c id
  | SelfVal => eval_self_value c
  | PortRef id => eval_port_ref c id
  | SelfRef => match self_id c with Some id => eval_port_ref c id | None => Fail [KErr] end
  | Call f args =>
      if String.eqb f "AND" then spec_and (map (sem c) args)
      else if String.eqb f "OR" then spec_or (map (sem c) args)
      else call_common (sem c) (spec_fn c) f args
  end.

(* ------------------------------------------------------------------ comparing outcomes *)

Definition pyval_eqb (a b : pyval) : bool :=
  match a, b with
  | VBool x, VBool y => Bool.eqb x y
  | VInt x, VInt y => Z.eqb x y
  | VFloat x, VFloat y => sf_eqb x y
  | _, _ => false
  end.

Definition unspecified (ks : list kind) : bool :=
  existsb (fun k => kind_eqb k KAmbig || kind_eqb k (KPy Unmodelled)) ks.

(* [o] (what was observed) is allowed by [r] (the reference / the model) *)
Definition outcome_le (o r : outcome) : bool :=
  match r with
  | Fail ks =>
      if unspecified ks then true
      else match o with Fail ko => list_eqb kind_eqb ko ks | _ => false end
  | Val v => match o with Val w => pyval_eqb w v | _ => false end
  | Ref i => match o with Ref j => String.eqb i j | _ => false end
  end.
