(* C02 — proofs: the evaluator (code-shaped) agrees with the reference semantics; laziness; domain errors; port classification. *)
From QT Require Import Expr.Spec.
Open Scope Z_scope.
Open Scope string_scope.
Open Scope list_scope.

(* ------------------------------------------------------------------ generic: a "keep the first strictly better" scan
   returns the first element that no element beats, for any strict weak order *)
Section FirstBest.
  Variable A : Type.
  Variable ok : A -> Prop.                      (* the elements the order laws are known for (non-NaN values) *)
  Variable lt : A -> A -> bool.
  Hypothesis lt_irrefl : forall x, ok x -> lt x x = false.
  Hypothesis lt_trans : forall x y z, ok x -> ok y -> ok z -> lt x y = true -> lt y z = true -> lt x z = true.
  Hypothesis lt_incomp : forall x y z, ok x -> ok y -> ok z -> lt x y = false -> lt y x = false -> lt x z = lt y z.

  Fixpoint scan (m : A) (l : list A) : A :=
    match l with [] => m | e :: t => scan (if lt e m then e else m) t end.

  Definition unbeaten (L : list A) (e : A) : bool := forallb (fun x => negb (lt x e)) L.

  (* invariant of the scan after the prefix p: c is in p, unbeaten in p, and strictly better than everything before it *)
  Definition inv (p : list A) (c : A) : Prop :=
    exists p1 p2, p = p1 ++ c :: p2 /\ (forall x, In x p -> lt x c = false) /\ (forall x, In x p1 -> lt c x = true).

  Lemma inv_step p c e :
    Forall ok p -> ok e -> inv p c -> inv (p ++ [e]) (if lt e c then e else c).
  Proof.
    intros Hp He (p1 & p2 & Hpe & Hun & Hbefore).
    assert (Hc : ok c) by (rewrite Forall_forall in Hp; apply Hp; rewrite Hpe; apply in_or_app; right; left; reflexivity).
    destruct (lt e c) eqn:E.
    - exists p, []. split; [reflexivity|]. split.
      + intros x Hx. apply in_app_or in Hx. destruct Hx as [Hx|[<-|[]]].
        * destruct (lt x e) eqn:Exe; [|reflexivity].
          assert (ok x) by (rewrite Forall_forall in Hp; auto).
          rewrite <- (Hun x Hx). symmetry. apply (lt_trans x e c); assumption.
        * apply lt_irrefl; assumption.
      + intros x Hx. assert (Hox : ok x) by (rewrite Forall_forall in Hp; auto).
        destruct (lt e x) eqn:Eex; [reflexivity|].
        destruct (lt x e) eqn:Exe.
        * pose proof (lt_trans x e c Hox He Hc Exe E) as Hxc. rewrite (Hun x Hx) in Hxc. discriminate.
        * pose proof (lt_incomp e x c He Hox Hc Eex Exe) as Hi. rewrite E, (Hun x Hx) in Hi. discriminate.
    - exists p1, (p2 ++ [e]). split; [rewrite Hpe, <- app_assoc; reflexivity|]. split.
      + intros x Hx. apply in_app_or in Hx. destruct Hx as [Hx|[<-|[]]]; [apply Hun; exact Hx|exact E].
      + exact Hbefore.
  Qed.

  Lemma scan_inv t : forall p c, Forall ok p -> Forall ok t -> inv p c -> inv (p ++ t) (scan c t).
  Proof.
    induction t as [|e t IH]; intros p c Hp Ht Hi.
    - rewrite app_nil_r. exact Hi.
    - inversion Ht as [|? ? He Ht']; subst. cbn [scan].
      replace (p ++ e :: t) with ((p ++ [e]) ++ t) by (rewrite <- app_assoc; reflexivity).
      apply IH; [apply Forall_app; split; [exact Hp|constructor; [exact He|constructor]]|exact Ht'|].
      apply inv_step; assumption.
  Qed.

  Lemma find_first (P : A -> bool) p1 c p2 :
    (forall x, In x p1 -> P x = false) -> P c = true -> find P (p1 ++ c :: p2) = Some c.
  Proof.
    induction p1 as [|a p1 IH]; intros H1 Hc; cbn [app find].
    - rewrite Hc. reflexivity.
    - rewrite (H1 a (or_introl eq_refl)). apply IH; [intros x Hx; apply H1; right; exact Hx|exact Hc].
  Qed.

  Theorem scan_is_first_unbeaten m t :
    Forall ok (m :: t) -> find (unbeaten (m :: t)) (m :: t) = Some (scan m t).
  Proof.
    intros Hall. inversion Hall as [|? ? Hm Ht]; subst.
    assert (Hi0 : inv [m] m).
    { exists [], []. split; [reflexivity|]. split; [|intros x []].
      intros x [<-|[]]. apply lt_irrefl; exact Hm. }
    pose proof (scan_inv t [m] m (Forall_cons _ Hm (Forall_nil _)) Ht Hi0) as (p1 & p2 & Hpe & Hun & Hbefore).
    change ([m] ++ t) with (m :: t) in *. rewrite Hpe.
    apply find_first.
    - intros x Hx. unfold unbeaten. apply not_true_is_false. intros Hf. rewrite forallb_forall in Hf.
      specialize (Hf (scan m t)). rewrite <- Hpe in Hf.
      assert (Hin : In (scan m t) (m :: t)) by (rewrite Hpe; apply in_or_app; right; left; reflexivity).
      specialize (Hf Hin). rewrite (Hbefore x Hx) in Hf. discriminate.
    - unfold unbeaten. apply forallb_forall. intros x Hx. rewrite <- Hpe in Hx. rewrite (Hun x Hx). reflexivity.
  Qed.
End FirstBest.

(* ------------------------------------------------------------------ the order laws that MIN / MAX rely on *)
Definition not_nan (v : pyval) : Prop := is_nan_val v = false.

Record order_laws : Prop := {
  ol_gt_lt : forall x y, py_gt x y = py_lt y x;
  ol_irrefl : forall x, not_nan x -> py_lt x x = false;
  ol_trans : forall x y z, not_nan x -> not_nan y -> not_nan z -> py_lt x y = true -> py_lt y z = true -> py_lt x z = true;
  ol_incomp : forall x y z, not_nan x -> not_nan y -> not_nan z ->
      py_lt x y = false -> py_lt y x = false -> py_lt x z = py_lt y z /\ py_lt z x = py_lt z y
}.

(* the same laws relative to any class [ok] of values (Expr/OrderThm.v proves them for ok = non-NaN and canonical; the
   record above, which quantifies over every non-NaN [pyval] including non-canonical mantissa/exponent pairs, is refuted there) *)
Record order_laws_on (ok : pyval -> Prop) : Prop := {
  olo_gt_lt : forall x y, py_gt x y = py_lt y x;
  olo_irrefl : forall x, ok x -> py_lt x x = false;
  olo_trans : forall x y z, ok x -> ok y -> ok z -> py_lt x y = true -> py_lt y z = true -> py_lt x z = true;
  olo_incomp : forall x y z, ok x -> ok y -> ok z ->
      py_lt x y = false -> py_lt y x = false -> py_lt x z = py_lt y z /\ py_lt z x = py_lt z y
}.

Lemma order_laws_as_on : order_laws -> order_laws_on not_nan.
Proof. intros [A B C D]. constructor; assumption. Qed.

Lemma min_loop_scan m t : min_loop m t = scan pyval py_lt m t.
Proof. revert m. induction t as [|e t IH]; intros m; cbn [min_loop scan]; [reflexivity|apply IH]. Qed.

Lemma max_loop_scan m t : max_loop m t = scan pyval py_gt m t.
Proof. revert m. induction t as [|e t IH]; intros m; cbn [max_loop scan]; [reflexivity|apply IH]. Qed.

Lemma no_nan_forall l : existsb is_nan_val l = false -> Forall not_nan l.
Proof.
  induction l as [|x l IH]; intros H; constructor; cbn [existsb] in H; apply orb_false_iff in H; destruct H as [H1 H2].
  - exact H1.
  - apply IH; exact H2.
Qed.

Section WithLawsOn.
  Variable ok : pyval -> Prop.
  Hypothesis laws : order_laws_on ok.

  Lemma min_agrees_on m t : Forall ok (m :: t) -> existsb is_nan_val (m :: t) = false -> Val (min_loop m t) = spec_min (m :: t).
  Proof.
    intros Hok Hn. unfold spec_min. rewrite Hn. unfold first_such.
    pose proof (scan_is_first_unbeaten pyval ok py_lt (olo_irrefl ok laws) (olo_trans ok laws)
                  (fun x y z a b c d e => proj1 (olo_incomp ok laws x y z a b c d e)) m t Hok) as H.
    unfold unbeaten in H. rewrite H, min_loop_scan. reflexivity.
  Qed.

  Lemma max_agrees_on m t : Forall ok (m :: t) -> existsb is_nan_val (m :: t) = false -> Val (max_loop m t) = spec_max (m :: t).
  Proof.
    intros Hok Hn. unfold spec_max. rewrite Hn. unfold first_such.
    assert (Hirr : forall x, ok x -> py_gt x x = false) by (intros; rewrite (olo_gt_lt ok laws); apply (olo_irrefl ok laws); assumption).
    assert (Htr : forall x y z, ok x -> ok y -> ok z -> py_gt x y = true -> py_gt y z = true -> py_gt x z = true).
    { intros x y z Hx Hy Hz. rewrite !(olo_gt_lt ok laws). intros A B. apply (olo_trans ok laws z y x); assumption. }
    assert (Hinc : forall x y z, ok x -> ok y -> ok z -> py_gt x y = false -> py_gt y x = false -> py_gt x z = py_gt y z).
    { intros x y z Hx Hy Hz. rewrite !(olo_gt_lt ok laws). intros A B. apply (proj2 (olo_incomp ok laws x y z Hx Hy Hz B A)). }
    pose proof (scan_is_first_unbeaten pyval ok py_gt Hirr Htr Hinc m t Hok) as H.
    unfold unbeaten in H. rewrite H, max_loop_scan. reflexivity.
  Qed.
End WithLawsOn.

Section WithLaws.
  Hypothesis laws : order_laws.

  Lemma min_agrees m t : existsb is_nan_val (m :: t) = false -> Val (min_loop m t) = spec_min (m :: t).
  Proof.
    intros Hn. unfold spec_min. rewrite Hn. unfold first_such.
    pose proof (scan_is_first_unbeaten pyval not_nan py_lt (ol_irrefl laws) (ol_trans laws)
                  (fun x y z a b c d e => proj1 (ol_incomp laws x y z a b c d e)) m t (no_nan_forall _ Hn)) as H.
    unfold unbeaten in H. rewrite H, min_loop_scan. reflexivity.
  Qed.

  Lemma max_agrees m t : existsb is_nan_val (m :: t) = false -> Val (max_loop m t) = spec_max (m :: t).
  Proof.
    intros Hn. unfold spec_max. rewrite Hn. unfold first_such.
    assert (Hirr : forall x, not_nan x -> py_gt x x = false) by (intros; rewrite (ol_gt_lt laws); apply (ol_irrefl laws); assumption).
    assert (Htr : forall x y z, not_nan x -> not_nan y -> not_nan z -> py_gt x y = true -> py_gt y z = true -> py_gt x z = true).
    { intros x y z Hx Hy Hz. rewrite !(ol_gt_lt laws). intros A B. apply (ol_trans laws z y x); assumption. }
    assert (Hinc : forall x y z, not_nan x -> not_nan y -> not_nan z -> py_gt x y = false -> py_gt y x = false -> py_gt x z = py_gt y z).
    { intros x y z Hx Hy Hz. rewrite !(ol_gt_lt laws). intros A B. apply (proj2 (ol_incomp laws x y z Hx Hy Hz B A)). }
    pose proof (scan_is_first_unbeaten pyval not_nan py_gt Hirr Htr Hinc m t (no_nan_forall _ Hn)) as H.
    unfold unbeaten in H. rewrite H, max_loop_scan. reflexivity.
  Qed.
End WithLaws.

(* ------------------------------------------------------------------ laziness of AND / OR, as a fact about any evaluator *)
Lemma and_loop_is_spec_and ev l : and_loop_on ev l = spec_and (map ev l).
Proof.
  unfold spec_and. induction l as [|a r IH]; cbn [and_loop_on map find]; [reflexivity|].
  destruct (ev a) as [v|i|k]; cbn [truthy negb].
  - destruct (py_truth v); cbn [negb]; [exact IH|reflexivity].
  - exact IH.
  - reflexivity.
Qed.

Lemma or_loop_is_spec_or ev l : or_loop_on ev l = spec_or (map ev l).
Proof.
  unfold spec_or. induction l as [|a r IH]; cbn [or_loop_on map find]; [reflexivity|].
  destruct (ev a) as [v|i|k]; cbn [falsy negb].
  - destruct (py_truth v); cbn [negb]; [reflexivity|exact IH].
  - reflexivity.
  - reflexivity.
Qed.

(* the arguments after the deciding one do not matter, whatever they are (they are not evaluated) *)
Lemma and_decided ev pre x post post' v :
  Forall (fun a => truthy (ev a) = true) pre -> ev x = Val v -> py_truth v = false ->
  and_loop_on ev (pre ++ x :: post) = Val (VInt 0) /\ and_loop_on ev (pre ++ x :: post) = and_loop_on ev (pre ++ x :: post').
Proof.
  intros Hpre Hx Hv.
  assert (H : forall tail, and_loop_on ev (pre ++ x :: tail) = Val (VInt 0)).
  { intros tail. induction pre as [|a pre IH]; cbn [app and_loop_on].
    - rewrite Hx, Hv. reflexivity.
    - inversion Hpre as [|? ? Ha Hp]; subst. destruct (ev a) as [w|i|k]; cbn [truthy] in Ha.
      + rewrite Ha. apply IH. exact Hp.
      + apply IH. exact Hp.
      + discriminate. }
  split; [apply H|rewrite !H; reflexivity].
Qed.

Lemma or_decided ev pre x post post' v :
  Forall (fun a => falsy (ev a) = true) pre -> ev x = Val v -> py_truth v = true ->
  or_loop_on ev (pre ++ x :: post) = Val (VInt 1) /\ or_loop_on ev (pre ++ x :: post) = or_loop_on ev (pre ++ x :: post').
Proof.
  intros Hpre Hx Hv.
  assert (H : forall tail, or_loop_on ev (pre ++ x :: tail) = Val (VInt 1)).
  { intros tail. induction pre as [|a pre IH]; cbn [app or_loop_on].
    - rewrite Hx, Hv. reflexivity.
    - inversion Hpre as [|? ? Ha Hp]; subst. destruct (ev a) as [w|i|k]; cbn [falsy] in Ha; try discriminate.
      apply negb_true_iff in Ha. rewrite Ha. apply IH. exact Hp. }
  split; [apply H|rewrite !H; reflexivity].
Qed.

(* ------------------------------------------------------------------ the evaluator agrees with the reference semantics *)

Lemma call_common_ext ev1 ev2 fn1 fn2 f args :
  Forall (fun a => ev1 a = ev2 a) args ->
  (forall vs, gather (map ev1 args) = inl vs -> fn1 f vs = fn2 f vs) ->
  call_common ev1 fn1 f args = call_common ev2 fn2 f args.
Proof.
  intros Hev Hfn.
  assert (Hmap : map ev1 args = map ev2 args).
  { clear Hfn. induction Hev as [|a l Ha Hl IH]; cbn [map]; [reflexivity|rewrite Ha, IH; reflexivity]. }
  assert (Heager :
    match gather (map ev1 args) with inl vs => fn1 f vs | inr ks => Fail (mark_ambig ks) end =
    match gather (map ev2 args) with inl vs => fn2 f vs | inr ks => Fail (mark_ambig ks) end).
  { rewrite <- Hmap. destruct (gather (map ev1 args)) as [vs|ks] eqn:G; [apply Hfn; reflexivity|reflexivity]. }
  unfold call_common.
  destruct (String.eqb f "IF").
  { destruct args as [|a1 [|a2 [|a3 [|a4 r]]]]; try exact Heager.
    inversion Hev as [|? ? H1 Hr1]; subst. inversion Hr1 as [|? ? H2 Hr2]; subst. inversion Hr2 as [|? ? H3 Hr3]; subst.
    rewrite H1, H2, H3. reflexivity. }
  destruct (String.eqb f "AVAILABLE").
  { destruct args as [|a1 [|a2 r]]; try exact Heager.
    inversion Hev as [|? ? H1 Hr1]; subst. rewrite H1. reflexivity. }
  destruct (String.eqb f "DEFAULT").
  { destruct args as [|a1 [|a2 [|a3 r]]]; try exact Heager.
    inversion Hev as [|? ? H1 Hr1]; subst. inversion Hr1 as [|? ? H2 Hr2]; subst.
    rewrite H1, H2. reflexivity. }
  exact Heager.
Qed.

(* no MIN / MAX / SGN call of the expression receives a NaN argument value (where IEEE comparisons stop being an order) *)
Definition nan_sensitive (f : string) : bool := String.eqb f "MIN" || String.eqb f "MAX" || String.eqb f "SGN".

Fixpoint nan_sensitive_free (c : ctx) (e : expr) {struct e} : bool :=
  match e with
  | Call f args =>
      forallb (nan_sensitive_free c) args
      && (if nan_sensitive f
          then match gather (map (eval false c) args) with inl vs => negb (existsb is_nan_val vs) | inr _ => true end
          else true)
  | _ => true
  end.

Section Main.
  Hypothesis laws : order_laws.

  Lemma fn_agrees c f vs :
    (nan_sensitive f = true -> existsb is_nan_val vs = false) -> apply_fn false c f vs = spec_fn c f vs.
  Proof.
    intros Hn. unfold spec_fn, nan_sensitive in *.
    destruct (String.eqb f "MIN") eqn:E1.
    { apply String.eqb_eq in E1. subst f. destruct vs as [|m t]; [reflexivity|].
      change (apply_fn false c "MIN" (m :: t)) with (Val (min_loop m t)). apply min_agrees; [exact laws|apply Hn; reflexivity]. }
    destruct (String.eqb f "MAX") eqn:E2.
    { apply String.eqb_eq in E2. subst f. destruct vs as [|m t]; [reflexivity|].
      change (apply_fn false c "MAX" (m :: t)) with (Val (max_loop m t)). apply max_agrees; [exact laws|apply Hn; reflexivity]. }
    destruct (String.eqb f "SGN") eqn:E3; [|reflexivity].
    apply String.eqb_eq in E3. subst f. destruct vs as [|x [|y r]]; try reflexivity.
    change (apply_fn false c "SGN" [x]) with (sgn_of false x). unfold spec_sgn, sgn_of.
    specialize (Hn eq_refl). cbn [existsb] in Hn. rewrite orb_false_r in Hn. rewrite Hn. reflexivity.
  Qed.

  Theorem eval_matches_reference c e : nan_sensitive_free c e = true -> eval false c e = sem c e.
  Proof.
    induction e as [v|id| |id| |f args IH] using expr_ind'; intros Hfree; try reflexivity.
    cbn [nan_sensitive_free] in Hfree. apply andb_true_iff in Hfree. destruct Hfree as [Hargs Hnan].
    assert (Heq : Forall (fun a => eval false c a = sem c a) args).
    { rewrite forallb_forall in Hargs. rewrite Forall_forall in *. intros a Ha. apply IH; [exact Ha|apply Hargs; exact Ha]. }
    assert (Hmap : map (eval false c) args = map (sem c) args).
    { clear -Heq. induction Heq as [|a l Ha Hl IHl]; cbn [map]; [reflexivity|rewrite Ha, IHl; reflexivity]. }
    cbn [eval sem].
    destruct (String.eqb f "AND") eqn:EA.
    { rewrite and_loop_is_spec_and, Hmap. reflexivity. }
    destruct (String.eqb f "OR") eqn:EO.
    { rewrite or_loop_is_spec_or, Hmap. reflexivity. }
    apply call_common_ext; [exact Heq|].
    intros vs G. apply fn_agrees. intros Hs. rewrite Hs, G in Hnan. apply negb_true_iff in Hnan. exact Hnan.
  Qed.
End Main.

(* the same theorem relative to a decidable class [okb] of values on which the laws hold: every value reaching MIN / MAX / SGN
   is in the class.  Instantiated without any law hypothesis in Expr/OrderThm.v (okb = non-NaN and canonical). *)
Fixpoint sensitive_args_ok (okb : pyval -> bool) (c : ctx) (e : expr) {struct e} : bool :=
  match e with
  | Call f args =>
      forallb (sensitive_args_ok okb c) args
      && (if nan_sensitive f
          then match gather (map (eval false c) args) with inl vs => forallb okb vs | inr _ => true end
          else true)
  | _ => true
  end.

Section MainOn.
  Variable okb : pyval -> bool.
  Hypothesis okb_not_nan : forall v, okb v = true -> is_nan_val v = false.
  Hypothesis laws : order_laws_on (fun v => okb v = true).

  Lemma okb_forall vs : forallb okb vs = true -> Forall (fun v => okb v = true) vs /\ existsb is_nan_val vs = false.
  Proof.
    induction vs as [|v vs IH]; cbn [forallb existsb]; intros H; [split; [constructor|reflexivity]|].
    apply andb_true_iff in H. destruct H as [H1 H2]. destruct (IH H2) as [IH1 IH2].
    split; [constructor; assumption|]. rewrite (okb_not_nan v H1), IH2. reflexivity.
  Qed.

  Lemma fn_agrees_on c f vs :
    (nan_sensitive f = true -> forallb okb vs = true) -> apply_fn false c f vs = spec_fn c f vs.
  Proof.
    intros Hn. unfold spec_fn, nan_sensitive in *.
    destruct (String.eqb f "MIN") eqn:E1.
    { apply String.eqb_eq in E1. subst f. destruct vs as [|m t]; [reflexivity|].
      change (apply_fn false c "MIN" (m :: t)) with (Val (min_loop m t)).
      destruct (okb_forall _ (Hn eq_refl)) as [Hok Hnn]. apply (min_agrees_on _ laws); assumption. }
    destruct (String.eqb f "MAX") eqn:E2.
    { apply String.eqb_eq in E2. subst f. destruct vs as [|m t]; [reflexivity|].
      change (apply_fn false c "MAX" (m :: t)) with (Val (max_loop m t)).
      destruct (okb_forall _ (Hn eq_refl)) as [Hok Hnn]. apply (max_agrees_on _ laws); assumption. }
    destruct (String.eqb f "SGN") eqn:E3; [|reflexivity].
    apply String.eqb_eq in E3. subst f. destruct vs as [|x [|y r]]; try reflexivity.
    change (apply_fn false c "SGN" [x]) with (sgn_of false x). unfold spec_sgn, sgn_of.
    destruct (okb_forall _ (Hn eq_refl)) as [_ Hnn]. cbn [existsb] in Hnn. rewrite orb_false_r in Hnn. rewrite Hnn. reflexivity.
  Qed.

  Theorem eval_matches_reference_on c e : sensitive_args_ok okb c e = true -> eval false c e = sem c e.
  Proof.
    induction e as [v|id| |id| |f args IH] using expr_ind'; intros Hfree; try reflexivity.
    cbn [sensitive_args_ok] in Hfree. apply andb_true_iff in Hfree. destruct Hfree as [Hargs Hnan].
    assert (Heq : Forall (fun a => eval false c a = sem c a) args).
    { rewrite forallb_forall in Hargs. rewrite Forall_forall in *. intros a Ha. apply IH; [exact Ha|apply Hargs; exact Ha]. }
    assert (Hmap : map (eval false c) args = map (sem c) args).
    { clear -Heq. induction Heq as [|a l Ha Hl IHl]; cbn [map]; [reflexivity|rewrite Ha, IHl; reflexivity]. }
    cbn [eval sem].
    destruct (String.eqb f "AND") eqn:EA.
    { rewrite and_loop_is_spec_and, Hmap. reflexivity. }
    destruct (String.eqb f "OR") eqn:EO.
    { rewrite or_loop_is_spec_or, Hmap. reflexivity. }
    apply call_common_ext; [exact Heq|].
    intros vs G. apply fn_agrees_on. intros Hs. rewrite Hs, G in Hnan. exact Hnan.
  Qed.
End MainOn.

(* ------------------------------------------------------------------ laziness at the level of expressions *)

Lemma eval_IF_true s c cnd a b v :
  eval s c cnd = Val v -> py_truth v = true -> forall b', eval s c (Call "IF" [cnd; a; b]) = eval s c (Call "IF" [cnd; a; b']).
Proof.
  intros Hc Hv b'. cbn [eval]. change (String.eqb "IF" "AND") with false. change (String.eqb "IF" "OR") with false.
  unfold call_common. change (String.eqb "IF" "IF") with true. cbv iota. rewrite Hc, Hv. reflexivity.
Qed.

Lemma eval_IF_false s c cnd a b v :
  eval s c cnd = Val v -> py_truth v = false -> forall a', eval s c (Call "IF" [cnd; a; b]) = eval s c (Call "IF" [cnd; a'; b]).
Proof.
  intros Hc Hv a'. cbn [eval]. change (String.eqb "IF" "AND") with false. change (String.eqb "IF" "OR") with false.
  unfold call_common. change (String.eqb "IF" "IF") with true. cbv iota. rewrite Hc, Hv. reflexivity.
Qed.

Lemma eval_AND_decided s c pre x post v :
  Forall (fun a => truthy (eval s c a) = true) pre -> eval s c x = Val v -> py_truth v = false ->
  forall post', eval s c (Call "AND" (pre ++ x :: post)) = Val (VInt 0)
                /\ eval s c (Call "AND" (pre ++ x :: post')) = Val (VInt 0).
Proof.
  intros Hp Hx Hv post'. cbn [eval]. change (String.eqb "AND" "AND") with true. cbv iota.
  split; eapply and_decided; eassumption.
Qed.

Lemma eval_OR_decided s c pre x post v :
  Forall (fun a => falsy (eval s c a) = true) pre -> eval s c x = Val v -> py_truth v = true ->
  forall post', eval s c (Call "OR" (pre ++ x :: post)) = Val (VInt 1)
                /\ eval s c (Call "OR" (pre ++ x :: post')) = Val (VInt 1).
Proof.
  intros Hp Hx Hv post'. cbn [eval]. change (String.eqb "OR" "AND") with false. change (String.eqb "OR" "OR") with true. cbv iota.
  split; eapply or_decided; eassumption.
Qed.

Lemma eval_DEFAULT_available s c a b v :
  eval s c a = Val v -> forall b', eval s c (Call "DEFAULT" [a; b]) = Val v /\ eval s c (Call "DEFAULT" [a; b']) = Val v.
Proof.
  intros Ha b'. cbn [eval]. change (String.eqb "DEFAULT" "AND") with false. change (String.eqb "DEFAULT" "OR") with false.
  unfold call_common. change (String.eqb "DEFAULT" "IF") with false. change (String.eqb "DEFAULT" "AVAILABLE") with false.
  change (String.eqb "DEFAULT" "DEFAULT") with true. cbv iota. rewrite Ha. split; reflexivity.
Qed.

(* ------------------------------------------------------------------ eager functions: no value unless every argument has one *)

Lemma gather_fail_inv os : (exists k, In (Fail k) os) \/ (exists i, In (Ref i) os) -> exists ks, gather os = inr ks.
Proof.
  induction os as [|o r IH]; intros H.
  - destruct H as [[k []]|[i []]].
  - cbn [gather]. destruct o as [v|i|k].
    + assert (Hr : (exists k, In (Fail k) r) \/ (exists i, In (Ref i) r)).
      { destruct H as [[k [Hk|Hk]]|[i [Hi|Hi]]]; try discriminate; [left|right]; eexists; eassumption. }
      destruct (IH Hr) as [ks ->]. eexists; reflexivity.
    + destruct (gather r); eexists; reflexivity.
    + destruct (gather r); eexists; reflexivity.
Qed.

Definition eager_name (f : string) : bool :=
  negb (String.eqb f "AND" || String.eqb f "OR" || String.eqb f "IF" || String.eqb f "AVAILABLE" || String.eqb f "DEFAULT").

Theorem eager_no_value_if_argument_fails s c f args a k :
  eager_name f = true -> In a args -> eval s c a = Fail k -> exists ks, eval s c (Call f args) = Fail ks.
Proof.
  unfold eager_name. intros Hf Hin Ha. apply negb_true_iff in Hf. repeat (apply orb_false_iff in Hf; destruct Hf as [Hf ?]).
  cbn [eval]. rewrite Hf. match goal with H : String.eqb f "OR" = false |- _ => rewrite H end.
  unfold call_common.
  repeat match goal with H : String.eqb f _ = false |- _ => rewrite H; clear H end.
  assert (G : exists ks, gather (map (eval s c) args) = inr ks).
  { apply gather_fail_inv. left. exists k. rewrite <- Ha. apply in_map. exact Hin. }
  destruct G as [ks ->]. eexists; reflexivity.
Qed.

(* ------------------------------------------------------------------ inputs outside a function's domain never yield a value *)

Lemma DIV_by_falsy s c x y : py_truth y = false -> apply_fn s c "DIV" [x; y] = Fail [KErr].
Proof. intros H. cbn. rewrite H. reflexivity. Qed.

Lemma MOD_by_falsy s c x y : py_truth y = false -> apply_fn s c "MOD" [x; y] = Fail [KErr].
Proof. intros H. cbn. rewrite H. reflexivity. Qed.

Definition non_finite (v : pyval) : Prop := match v with VFloat S754_nan | VFloat (S754_infinity _) => True | _ => False end.

Lemma py_int_non_finite v : non_finite v -> exists e, py_int v = inr e.
Proof. destruct v as [b|z|[sg|sg| |sg m e]]; cbn; intros H; try contradiction; eexists; reflexivity. Qed.

Theorem no_value_on_non_finite s c f v :
  In f ["FLOOR"; "CEIL"; "BITNOT"] -> non_finite v -> exists ks, apply_fn s c f [v] = Fail ks.
Proof.
  intros Hf Hv. destruct v as [b|z|[sg|sg| |sg m e]]; cbn in Hv; try contradiction;
    cbn [In] in Hf; repeat (destruct Hf as [<-|Hf]; [cbn; eexists; reflexivity|]); contradiction.
Qed.

Theorem no_value_on_non_finite2 s c f v w :
  In f ["BITAND"; "BITOR"; "BITXOR"; "SHL"; "SHR"] -> non_finite v \/ non_finite w -> exists ks, apply_fn s c f [v; w] = Fail ks.
Proof.
  intros Hf Hv. cbn [In] in Hf.
  assert (Hcase : (exists e, py_int v = inr e) \/ (exists z e, py_int v = inl z /\ py_int w = inr e)).
  { destruct Hv as [Hv|Hw]; [left; apply py_int_non_finite; exact Hv|].
    destruct (py_int v) as [z|e] eqn:E; [right|left; eexists; reflexivity].
    destruct (py_int_non_finite w Hw) as [e He]. exists z, e. split; [reflexivity|exact He]. }
  destruct Hf as [<-|[<-|[<-|[<-|[<-|[]]]]]];
    unfold apply_fn, apply_pure, int2; cbv beta iota; cbn [bit_loop];
    (destruct Hcase as [[e He]|(z & e & Hz & He)]; [rewrite He|rewrite Hz, He]; eexists; reflexivity).
Qed.

Theorem negative_shift_no_value s c f x n :
  In f ["SHL"; "SHR"] -> n < 0 -> exists ks, apply_fn s c f [VInt x; VInt n] = Fail ks.
Proof.
  intros Hf Hn. cbn [In] in Hf. apply Z.ltb_lt in Hn.
  repeat (destruct Hf as [<-|Hf]; [unfold apply_fn, apply_pure, int2; cbv beta iota; cbn [py_int as_num]; unfold py_shl, py_shr; rewrite Hn; eexists; reflexivity|]).
  contradiction.
Qed.

(* ------------------------------------------------------------------ port classification *)

Theorem port_unknown c id : assoc id (ports c) = None -> eval_port_value c id = Fail [KErr].
Proof. intros H. unfold eval_port_value. rewrite H. reflexivity. Qed.

Theorem port_disabled c id : assoc id (ports c) = Some false -> eval_port_value c id = Fail [KErr].
Proof. intros H. unfold eval_port_value. rewrite H. reflexivity. Qed.

Theorem port_unavailable c id :
  assoc id (ports c) = Some true -> (assoc id (port_values c) = None \/ assoc id (port_values c) = Some None) ->
  eval_port_value c id = Fail [KUnavail].
Proof. intros H [H1|H1]; unfold eval_port_value; rewrite H, H1; reflexivity. Qed.

Theorem port_available c id v :
  assoc id (ports c) = Some true -> assoc id (port_values c) = Some (Some v) -> eval_port_value c id = Val v.
Proof. intros H H1. unfold eval_port_value. rewrite H, H1. reflexivity. Qed.

(* ------------------------------------------------------------------ the order laws hold on the integer / boolean fragment *)
Definition is_intlike (v : pyval) : Prop := match v with VFloat _ => False | _ => True end.

Definition int_of (v : pyval) : Z := match as_num v with NInt a => a | NFloat _ => 0 end.

Lemma py_lt_intlike x y : is_intlike x -> is_intlike y -> py_lt x y = Z.ltb (int_of x) (int_of y).
Proof.
  destruct x as [b|z|f], y as [b'|z'|f']; cbn [is_intlike]; try contradiction; intros _ _;
    unfold py_lt, int_of, Z.ltb; cbn [as_num cmp_num];
    match goal with |- context [Z.compare ?a ?b] => destruct (Z.compare a b) end; reflexivity.
Qed.

Lemma intlike_not_nan l : Forall is_intlike l -> existsb is_nan_val l = false.
Proof.
  induction 1 as [|x l Hx Hl IH]; [reflexivity|]. cbn [existsb]. rewrite IH.
  destruct x; cbn in *; try reflexivity; contradiction.
Qed.

(* MIN over integer / boolean arguments is the first minimum — no premise left *)
Theorem min_agrees_intlike m t : Forall is_intlike (m :: t) -> Val (min_loop m t) = spec_min (m :: t).
Proof.
  intros Hall. unfold spec_min. rewrite (intlike_not_nan _ Hall). unfold first_such.
  assert (Hirr : forall x, is_intlike x -> py_lt x x = false)
    by (intros x Hx; rewrite py_lt_intlike by assumption; apply Z.ltb_irrefl).
  assert (Htr : forall x y z, is_intlike x -> is_intlike y -> is_intlike z -> py_lt x y = true -> py_lt y z = true -> py_lt x z = true).
  { intros x y z Hx Hy Hz. rewrite !py_lt_intlike by assumption. rewrite !Z.ltb_lt. apply Z.lt_trans. }
  assert (Hinc : forall x y z, is_intlike x -> is_intlike y -> is_intlike z -> py_lt x y = false -> py_lt y x = false -> py_lt x z = py_lt y z).
  { intros x y z Hx Hy Hz. rewrite !py_lt_intlike by assumption. rewrite !Z.ltb_ge. intros A B.
    replace (int_of x) with (int_of y) by (apply Z.le_antisymm; assumption). reflexivity. }
  pose proof (scan_is_first_unbeaten pyval is_intlike py_lt Hirr Htr Hinc m t Hall) as H.
  unfold unbeaten in H. rewrite H, min_loop_scan. reflexivity.
Qed.
