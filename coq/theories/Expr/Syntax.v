(* Expression syntax shared by C01-C04, C16: literals, port values/references, function calls. *)
From QT Require Export Base.Prelude Base.PyNum.
Open Scope Z_scope.

Inductive expr :=
| Lit (v : option pyval)            (* None = the literal `unavailable`; Some (VInt z) / Some (VFloat f) as parsed *)
| PortVal (id : string)             (* $id *)
| SelfVal                           (* $ *)
| PortRef (id : string)             (* @id *)
| SelfRef                           (* @ *)
| Call (f : string) (args : list expr).

(* induction principle that goes through the argument lists *)
Section ExprInd.
  Variable P : expr -> Prop.
  Hypothesis HLit : forall v, P (Lit v).
  Hypothesis HPortVal : forall id, P (PortVal id).
  Hypothesis HSelfVal : P SelfVal.
  Hypothesis HPortRef : forall id, P (PortRef id).
  Hypothesis HSelfRef : P SelfRef.
  Hypothesis HCall : forall f args, Forall P args -> P (Call f args).

  Fixpoint expr_ind' (e : expr) : P e :=
    match e with
    | Lit v => HLit v
    | PortVal id => HPortVal id
    | SelfVal => HSelfVal
    | PortRef id => HPortRef id
    | SelfRef => HSelfRef
    | Call f args =>
        HCall f args ((fix go (l : list expr) : Forall P l :=
                        match l with [] => Forall_nil P | x :: r => Forall_cons x (expr_ind' x) (go r) end) args)
    end.
End ExprInd.

Fixpoint expr_size (e : expr) : nat :=
  match e with Call _ args => S (fold_right (fun a n => (expr_size a + n)%nat) O args) | _ => 1%nat end.
