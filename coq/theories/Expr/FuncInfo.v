(* the shape of one entry of the function registry (regenerated into Gen/FuncTable.v by harness/translate/functable.py) *)
From QT Require Export Base.Prelude.
Open Scope Z_scope.

Record func_info := {
  fi_name : string;
  fi_min : option Z;            (* MIN_ARGS *)
  fi_max : option Z;            (* MAX_ARGS *)
  fi_deps : list string;        (* DEPS: "second" / "asap" *)
  fi_shape : Z;                 (* 0: only eval_args (eager); 1: only self.args[i].eval (lazy); 2: both; 3: neither *)
  fi_refargs : list Z;          (* 0-based argument positions whose ARG_KINDS entry is PortRef *)
  fi_enabled : bool             (* false when ENABLED is a run-time predicate (HISTORY) *)
}.

Fixpoint find_func (name : string) (t : list func_info) : option func_info :=
  match t with [] => None | fi :: r => if String.eqb name (fi_name fi) then Some fi else find_func name r end.
