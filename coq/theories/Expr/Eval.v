(* C02 — model of expression evaluation (qtoggleserver/core/expressions: base.py, port.py, literalvalues.py, functions.py and
   the stateless function modules), following the code's control flow: eager functions evaluate every argument (asyncio.gather),
   lazy ones exactly those the code awaits; loops and sorts as written.  Definitions only. *)
From QT Require Export Expr.Syntax.
Open Scope Z_scope.

Inductive kind := KUnavail | KSkipped | KErr | KPy (e : pyexc) | KAmbig.
Inductive outcome := Val (v : pyval) | Ref (id : string) | Fail (ks : list kind).

Definition pyexc_code (e : pyexc) : Z :=
  match e with ZeroDiv => 0 | Overflow => 1 | ValueErr => 2 | TypeErr => 3 | Unmodelled => 4 end.
Definition kind_code (k : kind) : Z :=
  match k with KUnavail => 0 | KSkipped => 1 | KErr => 2 | KPy e => 10 + pyexc_code e | KAmbig => 99 end.
Definition kind_eqb (a b : kind) : bool := kind_code a =? kind_code b.

Fixpoint kinsert (k : kind) (l : list kind) : list kind :=
  match l with
  | [] => [k]
  | x :: r => if kind_code k <? kind_code x then k :: l else if kind_code k =? kind_code x then l else x :: kinsert k r
  end.
Definition kunion (a b : list kind) : list kind := fold_right kinsert b a.

Record ctx := {
  port_values : list (string * option pyval);   (* EvalContext.port_values: id -> value / None; absent ids give None *)
  ports : list (string * bool);                 (* registered ports: id -> enabled *)
  now_ms : Z;
  self_id : option string;
  self_last : option pyval;                     (* the own port's live last read value *)
  transform_role : bool                         (* ROLE_TRANSFORM_READ / ROLE_TRANSFORM_WRITE *)
}.

Fixpoint assoc {A} (k : string) (l : list (string * A)) : option A :=
  match l with [] => None | (k', v) :: r => if String.eqb k k' then Some v else assoc k r end.

Definition of_pyres (r : pyres) : outcome := match r with POk v => Val v | PErr e => Fail [KPy e] end.
Definition of_z (r : Z + pyexc) : outcome := match r with inl z => Val (VInt z) | inr e => Fail [KPy e] end.
Definition vbool (b : bool) : outcome := Val (VInt (if b then 1 else 0)).         (* int(<comparison>) *)

(* $id through the context (PortValue._eval) *)
Definition eval_port_value (c : ctx) (id : string) : outcome :=
  match assoc id (ports c) with
  | None => Fail [KErr]                                   (* UnknownPortId *)
  | Some false => Fail [KErr]                             (* DisabledPort *)
  | Some true =>
      match assoc id (port_values c) with
      | Some (Some v) => Val v
      | _ => Fail [KUnavail]                              (* PortValueUnavailable *)
      end
  end.

Definition eval_self_value (c : ctx) : outcome :=
  match self_id c with
  | None => Fail [KErr]                                   (* core_ports.get(None) finds nothing *)
  | Some id =>
      if transform_role c then eval_port_value c id
      else match assoc id (ports c) with
           | None => Fail [KErr]
           | Some false => Fail [KErr]
           | Some true => match self_last c with Some v => Val v | None => Fail [KUnavail] end
           end
  end.

Definition eval_port_ref (c : ctx) (id : string) : outcome :=
  match assoc id (ports c) with None => Fail [KErr] | Some _ => Ref id end.

(* context.timestamp = int(now_ms / 1000) *)
Definition ctx_timestamp (c : ctx) : outcome :=
  match py_truediv (VInt (now_ms c)) (VInt 1000) with
  | POk v => of_z (py_int v)
  | PErr e => Fail [KPy e]
  end.

(* ------------------------------------------------------------------ functions on evaluated arguments *)

Definition int2 (a b : pyval) (k : Z -> Z -> outcome) : outcome :=
  match py_int a with
  | inr e => Fail [KPy e]
  | inl x => match py_int b with inr e => Fail [KPy e] | inl y => k x y end
  end.

Fixpoint mul_loop (r : pyval) (l : list pyval) : pyres :=
  match l with [] => POk r | e :: t => pbind (py_mul r e) (fun r' => mul_loop r' t) end.

Fixpoint bit_loop (op : Z -> Z -> Z) (r : Z) (l : list pyval) : outcome :=
  match l with
  | [] => Val (VInt r)
  | e :: t => match py_int e with inl z => bit_loop op (op r z) t | inr x => Fail [KPy x] end
  end.

Fixpoint min_loop (m : pyval) (l : list pyval) : pyval :=
  match l with [] => m | e :: t => min_loop (if py_lt e m then e else m) t end.
Fixpoint max_loop (m : pyval) (l : list pyval) : pyval :=
  match l with [] => m | e :: t => max_loop (if py_gt e m then e else m) t end.

(* points of LUT / LUTLI: [(args[2i+1], args[2i+2]) for i in range((len(args)-1)//2)] *)
Fixpoint lut_points (l : list pyval) : list (pyval * pyval) :=
  match l with a :: b :: t => (a, b) :: lut_points t | _ => [] end.

(* list.sort(key=p[0]) for lists without NaN keys: stable insertion sort on py_lt
   (elements are inserted from the right, so an element goes in front of the elements with an equal key) *)
Fixpoint pt_insert (p : pyval * pyval) (l : list (pyval * pyval)) : list (pyval * pyval) :=
  match l with
  | [] => [p]
  | q :: r => if py_lt (fst q) (fst p) then q :: pt_insert p r else p :: l
  end.
Definition pt_sort (l : list (pyval * pyval)) : list (pyval * pyval) := fold_right pt_insert [] l.

Fixpoint lut_scan (x : pyval) (p1 : pyval * pyval) (rest : list (pyval * pyval)) : outcome :=
  match rest with
  | [] => Val (snd p1)                                   (* return points[length - 1][1] *)
  | p2 :: r =>
      if py_gt x (fst p2) then lut_scan x p2 r
      else match py_sub x (fst p1), py_sub (fst p2) x with
           | POk d1, POk d2 => if py_lt d1 d2 then Val (snd p1) else Val (snd p2)
           | PErr e, _ => Fail [KPy e]
           | _, PErr e => Fail [KPy e]
           end
  end.

Definition lutli_interp (x : pyval) (p1 p2 : pyval * pyval) : pyres :=
  pbind (py_sub (snd p2) (snd p1)) (fun dy =>
  pbind (py_sub x (fst p1)) (fun dx =>
  pbind (py_mul dy dx) (fun num =>
  pbind (py_sub (fst p2) (fst p1)) (fun den =>
  pbind (py_truediv num den) (fun q => py_add (snd p1) q))))).

Fixpoint lutli_scan (x : pyval) (p1 : pyval * pyval) (rest : list (pyval * pyval)) : outcome :=
  match rest with
  | [] => Val (snd p1)
  | p2 :: r =>
      if py_gt x (fst p2) then lutli_scan x p2 r
      else if py_eq (fst p1) (fst p2) then Val (snd p1)
      else of_pyres (lutli_interp x p1 p2)
  end.

Definition lut_gen (scan : pyval -> pyval * pyval -> list (pyval * pyval) -> outcome) (l : list pyval) : outcome :=
  match l with
  | x :: rest =>
      match pt_sort (lut_points rest) with
      | p0 :: ps => if py_lt x (fst p0) then Val (snd p0) else scan x p0 ps
      | [] => Fail [KPy TypeErr]
      end
  | [] => Fail [KPy TypeErr]
  end.

(* SGN: [sgn_int_first] = true models the code that truncates with int() before taking the sign *)
Definition sgn_of (sgn_int_first : bool) (v : pyval) : outcome :=
  if sgn_int_first then
    match py_int v with
    | inr e => Fail [KPy e]
    | inl z => Val (VInt (Z.sgn z))
    end
  else
    if py_gt v (VInt 0) then Val (VInt 1) else if py_lt v (VInt 0) then Val (VInt (-1)) else Val (VInt 0).

Open Scope string_scope.

Section Apply.
  Variable sgn_int_first : bool.

  (* eager functions: all arguments already evaluated to values *)
  Definition apply_pure (f : string) (a : list pyval) : outcome :=
    match f, a with
    | "ADD", _ => of_pyres (py_sum a)
    | "SUB", [x; y] => of_pyres (py_sub x y)
    | "MUL", _ => of_pyres (mul_loop (VInt 1) a)
    | "DIV", [x; y] => if py_truth y then of_pyres (py_truediv x y) else Fail [KErr]
    | "MOD", [x; y] => if py_truth y then of_pyres (py_mod x y) else Fail [KErr]
    | "POW", [x; y] => of_pyres (py_pow x y)
    | "EQ", [x; y] => vbool (py_eq x y)
    | "GT", [x; y] => vbool (py_gt x y)
    | "GTE", [x; y] => vbool (py_ge x y)
    | "LT", [x; y] => vbool (py_lt x y)
    | "LTE", [x; y] => vbool (py_le x y)
    | "NOT", [x] => vbool (negb (py_truth x))
    | "XOR", [x; y] => vbool (xorb (py_truth x) (py_truth y))
    | "BITAND", _ => bit_loop Z.land (-1) a
    | "BITOR", _ => bit_loop Z.lor 0 a
    | "BITNOT", [x] => match py_int x with inl z => Val (VInt (- z - 1)) | inr e => Fail [KPy e] end
    | "BITXOR", [x; y] => int2 x y (fun p q => Val (VInt (Z.lxor p q)))
    | "SHL", [x; y] => int2 x y (fun p q => of_pyres (py_shl p q))
    | "SHR", [x; y] => int2 x y (fun p q => of_pyres (py_shr p q))
    | "FLOOR", [x] => of_z (py_floor x)
    | "CEIL", [x] => of_z (py_ceil x)
    | "ROUND", [x] => of_pyres (py_round x 0)
    | "ROUND", [x; d] => match py_int d with inl n => of_pyres (py_round x n) | inr e => Fail [KPy e] end
    | "ABS", [x] => Val (py_abs x)
    | "SGN", [x] => sgn_of sgn_int_first x
    | "MIN", m :: t => Val (min_loop m t)
    | "MAX", m :: t => Val (max_loop m t)
    | "AVG", _ => match py_sum a with
                  | POk s => of_pyres (py_truediv s (VInt (Z.of_nat (length a))))
                  | PErr e => Fail [KPy e]
                  end
    | "ONOFFAUTO", [v; auto] =>
        if py_gt v (VInt 0) then Val (VBool true) else if py_lt v (VInt 0) then Val (VBool false) else Val auto
    | "LUT", _ => lut_gen lut_scan a
    | "LUTLI", _ => lut_gen lutli_scan a
    | _, _ => Fail [KPy Unmodelled]
    end.

  (* TIME / TIMEMS are the only functions of this fragment that look at the context *)
  Definition apply_fn (c : ctx) (f : string) (a : list pyval) : outcome :=
    if String.eqb f "TIME" then match a with [] => ctx_timestamp c | _ => Fail [KPy Unmodelled] end
    else if String.eqb f "TIMEMS" then match a with [] => Val (VInt (now_ms c)) | _ => Fail [KPy Unmodelled] end
    else apply_pure f a.

  Definition catchable (k : kind) : bool := match k with KUnavail | KSkipped | KErr => true | _ => false end.

  (* gather over already computed outcomes: all values, or the union of the failure kinds (which one surfaces first
     depends on task timing; more than one distinct kind is marked ambiguous) *)
  Fixpoint gather (os : list outcome) : list pyval + list kind :=
    match os with
    | [] => inl []
    | o :: r =>
        match o, gather r with
        | Val v, inl vs => inl (v :: vs)
        | Val _, inr ks => inr ks
        | Ref _, inl _ => inr [KPy TypeErr]
        | Ref _, inr ks => inr (kunion [KPy TypeErr] ks)
        | Fail k, inl _ => inr k
        | Fail k, inr ks => inr (kunion k ks)
        end
    end.

  Definition mark_ambig (ks : list kind) : list kind :=
    match ks with _ :: _ :: _ => kunion [KAmbig] ks | _ => ks end.

  (* what a caught / uncaught failure of the first argument of AVAILABLE / DEFAULT leads to *)
  Definition on_failure (k : list kind) (caught : outcome) : outcome :=
    if forallb catchable k then caught
    else if existsb catchable k then Fail (kunion [KAmbig] k) else Fail k.

  (* every function except AND / OR, given how sub-expressions are evaluated ([ev]) and the eager functions ([fn]).
     IF awaits the condition and then one branch; AVAILABLE / DEFAULT catch ExpressionEvalError of their first argument;
     everything else awaits all its arguments (eval_args = asyncio.gather). *)
  Definition call_common (ev : expr -> outcome) (fn : string -> list pyval -> outcome) (f : string) (args : list expr)
    : outcome :=
    let eager :=
      match gather (map ev args) with
      | inl vs => fn f vs
      | inr ks => Fail (mark_ambig ks)
      end in
    if String.eqb f "IF" then
      match args with
      | [cnd; a; b] =>
          match ev cnd with
          | Val v => if py_truth v then ev a else ev b
          | Ref _ => ev a
          | Fail k => Fail k
          end
      | _ => eager
      end
    else if String.eqb f "AVAILABLE" then
      match args with
      | [a] => match ev a with Fail k => on_failure k (Val (VBool false)) | _ => Val (VBool true) end
      | _ => eager
      end
    else if String.eqb f "DEFAULT" then
      match args with
      | [a; b] => match ev a with Fail k => on_failure k (ev b) | o => o end
      | _ => eager
      end
    else eager.

  (* AND / OR: `for arg in self.args: if not await arg.eval(context): return 0` — arguments after the deciding one are
     never evaluated *)
  Definition and_loop_on (ev : expr -> outcome) : list expr -> outcome :=
    fix go (l : list expr) : outcome :=
    match l with
    | [] => Val (VInt 1)
    | a :: r => match ev a with
                | Val v => if py_truth v then go r else Val (VInt 0)
                | Ref _ => go r
                | Fail k => Fail k
                end
    end.

  Definition or_loop_on (ev : expr -> outcome) : list expr -> outcome :=
    fix go (l : list expr) : outcome :=
    match l with
    | [] => Val (VInt 0)
    | a :: r => match ev a with
                | Val v => if py_truth v then Val (VInt 1) else go r
                | Ref _ => Val (VInt 1)
                | Fail k => Fail k
                end
    end.

  Fixpoint eval (c : ctx) (e : expr) {struct e} : outcome :=
    match e with
    | Lit None => Fail [KUnavail]
    | Lit (Some v) => of_pyres (py_float v)
    | PortVal id => eval_port_value c id
    | SelfVal => eval_self_value c
    | PortRef id => eval_port_ref c id
    | SelfRef => match self_id c with Some id => eval_port_ref c id | None => Fail [KErr] end
    | Call f args =>
        if String.eqb f "AND" then and_loop_on (eval c) args
        else if String.eqb f "OR" then or_loop_on (eval c) args
        else call_common (eval c) (apply_fn c) f args
    end.
End Apply.
