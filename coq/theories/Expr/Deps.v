(* Dependencies of an expression (Expression.get_deps) and their soundness: evaluation only looks at what get_deps reports.
   Used by C02 and C01 ("a change of a port it does not read never alters it"). *)
From QT Require Import Expr.Spec Expr.EvalThm.
Open Scope Z_scope.
Open Scope string_scope.
Open Scope list_scope.

(* the `$id` entries of get_deps() *)
Fixpoint port_deps (e : expr) : list string :=
  match e with
  | PortVal id => [id]
  | Call _ args => flat_map port_deps args
  | _ => []
  end.

Fixpoint ref_deps (e : expr) : list string :=       (* @id: only the existence of the port is looked at *)
  match e with
  | PortRef id => [id]
  | Call _ args => flat_map ref_deps args
  | _ => []
  end.

Fixpoint uses_self (e : expr) : bool :=
  match e with SelfVal | SelfRef => true | Call _ args => existsb uses_self args | _ => false end.

(* 'second' / 'asap' in get_deps(): TIME / TIMEMS in this fragment *)
Fixpoint uses_time (e : expr) : bool :=
  match e with
  | Call f args => String.eqb f "TIME" || String.eqb f "TIMEMS" || existsb uses_time args
  | _ => false
  end.

Definition agree_on (e : expr) (c1 c2 : ctx) : Prop :=
  (forall id, In id (port_deps e) -> assoc id (ports c1) = assoc id (ports c2) /\ assoc id (port_values c1) = assoc id (port_values c2))
  /\ (forall id, In id (ref_deps e) -> (assoc id (ports c1) = None <-> assoc id (ports c2) = None))
  /\ (uses_self e = true -> eval_self_value c1 = eval_self_value c2 /\ self_id c1 = self_id c2
                            /\ forall id, self_id c1 = Some id -> (assoc id (ports c1) = None <-> assoc id (ports c2) = None))
  /\ (uses_time e = true -> now_ms c1 = now_ms c2).

Lemma eval_port_ref_agree c1 c2 id :
  (assoc id (ports c1) = None <-> assoc id (ports c2) = None) -> eval_port_ref c1 id = eval_port_ref c2 id.
Proof.
  unfold eval_port_ref. intros [H1 H2].
  destruct (assoc id (ports c1)) as [b1|]; destruct (assoc id (ports c2)) as [b2|]; try reflexivity.
  - specialize (H2 eq_refl). discriminate.
  - specialize (H1 eq_refl). discriminate.
Qed.

Lemma apply_fn_agree s c1 c2 f vs :
  (String.eqb f "TIME" || String.eqb f "TIMEMS" = true -> now_ms c1 = now_ms c2) -> apply_fn s c1 f vs = apply_fn s c2 f vs.
Proof.
  intros H. unfold apply_fn, ctx_timestamp.
  destruct (String.eqb f "TIME") eqn:E1; [rewrite (H eq_refl); reflexivity|].
  destruct (String.eqb f "TIMEMS") eqn:E2; [rewrite (H eq_refl); reflexivity|reflexivity].
Qed.

Lemma agree_on_arg f args a c1 c2 : In a args -> agree_on (Call f args) c1 c2 -> agree_on a c1 c2.
Proof.
  intros Hin (Hp & Hr & Hs & Ht). unfold agree_on. split; [|split; [|split]].
  - intros id Hid. apply Hp. cbn [port_deps]. apply in_flat_map. exists a. split; assumption.
  - intros id Hid. apply Hr. cbn [ref_deps]. apply in_flat_map. exists a. split; assumption.
  - intros Hu. apply Hs. cbn [uses_self]. apply existsb_exists. exists a. split; assumption.
  - intros Hu. apply Ht. cbn [uses_time]. apply orb_true_iff. right. apply existsb_exists. exists a. split; assumption.
Qed.

Theorem deps_sound s e : forall c1 c2, agree_on e c1 c2 -> eval s c1 e = eval s c2 e.
Proof.
  induction e as [v|id| |id| |f args IH] using expr_ind'; intros c1 c2 Hag.
  - destruct v; reflexivity.
  - destruct Hag as (Hp & _). destruct (Hp id (or_introl eq_refl)) as [H1 H2].
    cbn [eval]. unfold eval_port_value. rewrite H1, H2. reflexivity.
  - destruct Hag as (_ & _ & Hs & _). cbn [eval]. apply Hs. reflexivity.
  - destruct Hag as (_ & Hr & _). cbn [eval]. apply eval_port_ref_agree. apply Hr. left. reflexivity.
  - destruct Hag as (_ & _ & Hs & _). destruct (Hs eq_refl) as (_ & Hid & Hex). cbn [eval]. rewrite <- Hid.
    destruct (self_id c1) as [id|]; [|reflexivity]. apply eval_port_ref_agree. apply Hex. reflexivity.
  - assert (Heq : Forall (fun a => eval s c1 a = eval s c2 a) args).
    { rewrite Forall_forall in *. intros a Ha. apply IH; [exact Ha|]. eapply agree_on_arg; eassumption. }
    assert (Hmap : map (eval s c1) args = map (eval s c2) args).
    { clear -Heq. induction Heq as [|a l Ha Hl IHl]; cbn [map]; [reflexivity|rewrite Ha, IHl; reflexivity]. }
    cbn [eval].
    destruct (String.eqb f "AND"); [rewrite !and_loop_is_spec_and, Hmap; reflexivity|].
    destruct (String.eqb f "OR"); [rewrite !or_loop_is_spec_or, Hmap; reflexivity|].
    apply call_common_ext; [exact Heq|]. intros vs _. apply apply_fn_agree.
    intros Ht. destruct Hag as (_ & _ & _ & Htime). apply Htime. cbn [uses_time]. rewrite Ht. reflexivity.
Qed.

(* a change of a port the expression does not read never alters its value *)
Corollary non_dependency_irrelevant s e c q (v : option pyval) :
  ~ In q (port_deps e) -> ~ In q (ref_deps e) -> uses_self e = false ->
  eval s {| port_values := (q, v) :: port_values c; ports := ports c; now_ms := now_ms c;
            self_id := self_id c; self_last := self_last c; transform_role := transform_role c |} e
  = eval s c e.
Proof.
  intros Hq Hr Hs. apply deps_sound. unfold agree_on. cbn [ports port_values now_ms self_id].
  split; [|split; [|split]].
  - intros id Hin. split; [reflexivity|]. cbn [assoc].
    destruct (String.eqb id q) eqn:E; [|reflexivity]. apply String.eqb_eq in E. subst. contradiction.
  - intros id Hin. tauto.
  - intros Hu. rewrite Hs in Hu. discriminate.
  - intros _. reflexivity.
Qed.
