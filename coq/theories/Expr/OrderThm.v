(* C02 — the order laws MIN / MAX / SGN rely on, proved for every value the evaluator can meet: bool, int and every
   non-NaN *canonical* binary64 float (zero, infinity, or a finite (s, m, e) with [bounded 53 1024 m e]), in all mixed
   combinations.  Route: every good value is mapped to an extended integer [key v] = v * 2^1074 (every canonical finite
   binary64 is a multiple of 2^-1074), [cmp_num] is shown to be the comparison of keys, and the laws follow from those of Z.
   Part 2 (end of file) proves that evaluation preserves canonicity, so that over a canonical context the canonicity premise
   disappears as well.  Stdlib only, no axioms. *)
From Coq Require Import Lia.
From QT Require Import Expr.Spec Expr.EvalThm.
Open Scope Z_scope.
Open Scope list_scope.
Unset Lia Cache.

(* ------------------------------------------------------------------ good values *)
Definition canonical_sf (f : sf) : bool := valid_binary prec emax f.

Definition canonical_val (v : pyval) : bool := match v with VFloat f => canonical_sf f | _ => true end.

Definition good_val (v : pyval) : bool := negb (is_nan_val v) && canonical_val v.

Lemma good_not_nan v : good_val v = true -> is_nan_val v = false.
Proof. unfold good_val. intros H. apply andb_true_iff in H. destruct H as [H _]. apply negb_true_iff in H. exact H. Qed.

Lemma good_bool b : good_val (VBool b) = true.
Proof. reflexivity. Qed.

Lemma good_int z : good_val (VInt z) = true.
Proof. reflexivity. Qed.

(* ------------------------------------------------------------------ duality holds for every pair of values, NaN and
   non-canonical floats included *)
Lemma SFcompare_antisym f g : SFcompare g f = option_map CompOpp (SFcompare f g).
Proof.
  destruct f as [s|s| |s m e], g as [t|t| |t n e']; try reflexivity;
    try (destruct s; reflexivity); try (destruct t; reflexivity); try (destruct s, t; reflexivity).
  cbn [SFcompare option_map].
  change (Pcompare n m Eq) with (Pos.compare n m). change (Pcompare m n Eq) with (Pos.compare m n).
  rewrite (Z.compare_antisym e e'), (Pos.compare_antisym m n).
  destruct s, t; try reflexivity; destruct (e ?= e'); cbn [CompOpp]; try reflexivity;
    destruct (Pos.compare m n); reflexivity.
Qed.

Lemma cmp_num_antisym a b : cmp_num b a = option_map CompOpp (cmp_num a b).
Proof.
  destruct a as [x|f], b as [y|g]; cbn [cmp_num].
  - cbn [option_map]. rewrite (Z.compare_antisym x y). reflexivity.
  - reflexivity.
  - destruct (cmp_Z_f y f) as [c|]; [destruct c|]; reflexivity.
  - apply SFcompare_antisym.
Qed.

Theorem py_gt_lt_all x y : py_gt x y = py_lt y x.
Proof.
  unfold py_gt, py_lt. rewrite (cmp_num_antisym (as_num x) (as_num y)).
  destruct (cmp_num (as_num x) (as_num y)) as [c|]; [destruct c|]; reflexivity.
Qed.

(* ------------------------------------------------------------------ extended integers *)
Inductive xz := XNeg | XFin (z : Z) | XPos.

Definition xcmp (a b : xz) : comparison :=
  match a, b with
  | XNeg, XNeg => Eq
  | XNeg, _ => Lt
  | _, XNeg => Gt
  | XPos, XPos => Eq
  | XPos, _ => Gt
  | _, XPos => Lt
  | XFin x, XFin y => x ?= y
  end.

Lemma xcmp_refl a : xcmp a a = Eq.
Proof. destruct a; cbn [xcmp]; try reflexivity. apply Z.compare_refl. Qed.

Lemma xcmp_antisym a b : xcmp b a = CompOpp (xcmp a b).
Proof. destruct a, b; cbn [xcmp]; try reflexivity. apply Z.compare_antisym. Qed.

Lemma xcmp_eq a b : xcmp a b = Eq -> a = b.
Proof. destruct a, b; cbn [xcmp]; intros H; try discriminate; try reflexivity. apply Z.compare_eq in H. subst. reflexivity. Qed.

Lemma xcmp_trans a b c : xcmp a b = Lt -> xcmp b c = Lt -> xcmp a c = Lt.
Proof.
  destruct a, b, c; cbn [xcmp]; intros H1 H2; try discriminate; try reflexivity.
  rewrite Z.compare_lt_iff in *. lia.
Qed.

(* ------------------------------------------------------------------ the key of a value: value * 2^1074 *)
Definition sh := 1074.
Lemma sh_val : sh = 1074.
Proof. reflexivity. Qed.
Ltac slia := pose proof sh_val; lia.

Definition smant (s : bool) (m : positive) : Z := if s then Zneg m else Zpos m.

Definition fkey (f : sf) : xz :=
  match f with
  | S754_nan => XFin 0
  | S754_infinity s => if s then XNeg else XPos
  | S754_zero _ => XFin 0
  | S754_finite s m e => XFin (smant s m * 2 ^ (e + sh))
  end.

Definition nkey (n : num) : xz := match n with NInt z => XFin (z * 2 ^ sh) | NFloat f => fkey f end.

Definition key (v : pyval) : xz := nkey (as_num v).

(* ------------------------------------------------------------------ digits of a canonical mantissa *)
Lemma digits2_pos_bounds m : 2 ^ (Zpos (digits2_pos m) - 1) <= Zpos m < 2 ^ Zpos (digits2_pos m).
Proof.
  induction m as [p IH|p IH|]; cbn [digits2_pos].
  - rewrite Pos2Z.inj_succ. change (Zpos p~1) with (2 * Zpos p + 1).
    replace (Z.succ (Zpos (digits2_pos p)) - 1) with (Z.succ (Zpos (digits2_pos p) - 1)) by lia.
    rewrite !Z.pow_succ_r by lia. lia.
  - rewrite Pos2Z.inj_succ. change (Zpos p~0) with (2 * Zpos p).
    replace (Z.succ (Zpos (digits2_pos p)) - 1) with (Z.succ (Zpos (digits2_pos p) - 1)) by lia.
    rewrite !Z.pow_succ_r by lia. lia.
  - change (2 ^ (1 - 1)) with 1. change (2 ^ 1) with 2. lia.
Qed.

Lemma bounded_facts m e :
  bounded prec emax m e = true ->
  - sh <= e /\ Zpos m < 2 * 2 ^ 52 /\ (- sh < e -> 2 ^ 52 <= Zpos m).
Proof.
  unfold bounded, canonical_mantissa, fexp, emin, prec, emax, sh. intros H.
  apply andb_true_iff in H. destruct H as [H _]. apply Zeq_bool_eq in H.
  pose proof (digits2_pos_bounds m) as [Hlo Hhi].
  set (d := Zpos (digits2_pos m)) in *.
  assert (Hd : 0 < d) by (unfold d; lia).
  change (2 * 2 ^ 52) with (2 ^ 53).
  assert (Hcases : (d = 53 /\ - 1074 <= e) \/ (d <= 53 /\ e = - 1074)) by lia.
  destruct Hcases as [[Hd53 He]|[Hd53 He]].
  - rewrite Hd53 in *. change (53 - 1) with 52 in Hlo. split; [lia|]. split; [exact Hhi|]. intros _. exact Hlo.
  - split; [lia|]. split; [|lia].
    assert (2 ^ d <= 2 ^ 53) by (apply Z.pow_le_mono_r; lia). lia.
Qed.

Lemma mul_compare_r n m p : 0 < p -> (n * p ?= m * p) = (n ?= m).
Proof. intros H. symmetry. apply Zmult_compare_compat_r. lia. Qed.

(* a canonical float with the smaller exponent is the smaller one *)
Lemma lt_by_exponent m1 e1 m2 e2 :
  bounded prec emax m1 e1 = true -> bounded prec emax m2 e2 = true -> e1 < e2 ->
  Zpos m1 * 2 ^ (e1 + sh) < Zpos m2 * 2 ^ (e2 + sh).
Proof.
  intros B1 B2 Hlt.
  destruct (bounded_facts _ _ B1) as (He1 & Hm1 & _).
  destruct (bounded_facts _ _ B2) as (He2 & _ & Hm2).
  specialize (Hm2 ltac:(slia)).
  replace (e2 + sh) with ((e1 + sh) + (e2 - e1)) by slia.
  rewrite (Z.pow_add_r 2 (e1 + sh) (e2 - e1)) by slia.
  assert (HA : 0 < 2 ^ (e1 + sh)) by (apply Z.pow_pos_nonneg; slia).
  assert (HB : 2 <= 2 ^ (e2 - e1)).
  { change 2 with (2 ^ 1) at 1. apply Z.pow_le_mono_r; slia. }
  set (A := 2 ^ (e1 + sh)) in *. set (B := 2 ^ (e2 - e1)) in *. set (P := 2 ^ 52) in *.
  (* m1 * A < 2 P A <= m2 * 2 * A <= m2 * (A * B) *)
  apply Z.lt_le_trans with (2 * P * A).
  - apply Z.mul_lt_mono_pos_r; [exact HA|exact Hm1].
  - apply Z.le_trans with (Zpos m2 * (A * 2)).
    + replace (2 * P * A) with (P * (A * 2)) by ring. apply Z.mul_le_mono_nonneg_r; [slia|exact Hm2].
    + apply Z.mul_le_mono_nonneg_l; [slia|]. apply Z.mul_le_mono_nonneg_l; [slia|exact HB].
Qed.

(* on canonical finite floats of positive sign, the lexicographic (exponent, mantissa) comparison is the numeric one *)
Lemma lex_is_numeric m1 e1 m2 e2 :
  bounded prec emax m1 e1 = true -> bounded prec emax m2 e2 = true ->
  match e1 ?= e2 with Lt => Lt | Gt => Gt | Eq => Pcompare m1 m2 Eq end
  = (Zpos m1 * 2 ^ (e1 + sh) ?= Zpos m2 * 2 ^ (e2 + sh)).
Proof.
  intros B1 B2. destruct (Z.compare_spec e1 e2) as [He|He|He].
  - subst e2. destruct (bounded_facts _ _ B1) as (He1 & _ & _).
    rewrite mul_compare_r by (apply Z.pow_pos_nonneg; slia). reflexivity.
  - symmetry. apply Z.compare_lt_iff. apply lt_by_exponent; assumption.
  - symmetry. apply Z.compare_gt_iff. apply lt_by_exponent; assumption.
Qed.

Lemma finite_pos_key m e : bounded prec emax m e = true -> 0 < Zpos m * 2 ^ (e + sh).
Proof.
  intros B. destruct (bounded_facts _ _ B) as (He & _ & _).
  apply Z.mul_pos_pos; [slia|apply Z.pow_pos_nonneg; slia].
Qed.

Lemma zneg_mul m k : Zneg m * k = - (Zpos m * k).
Proof. change (Zneg m) with (- Zpos m). ring. Qed.

(* ------------------------------------------------------------------ float / float *)
Lemma SFcompare_key f g :
  f_is_nan f = false -> f_is_nan g = false -> canonical_sf f = true -> canonical_sf g = true ->
  SFcompare f g = Some (xcmp (fkey f) (fkey g)).
Proof.
  unfold canonical_sf.
  destruct f as [s|s| |s m e], g as [t|t| |t n e']; cbn [f_is_nan valid_binary]; intros Nf Ng Cf Cg; try discriminate.
  - reflexivity.
  - destruct t; reflexivity.
  - (* zero, finite *)
    cbn [SFcompare fkey xcmp]. pose proof (finite_pos_key _ _ Cg) as Hp. f_equal. symmetry.
    destruct t; unfold smant; [rewrite zneg_mul; apply Z.compare_gt_iff; slia|apply Z.compare_lt_iff; slia].
  - destruct s; reflexivity.
  - destruct s, t; reflexivity.
  - destruct s; reflexivity.
  - (* finite, zero *)
    cbn [SFcompare fkey xcmp]. pose proof (finite_pos_key _ _ Cf) as Hp. f_equal. symmetry.
    destruct s; unfold smant; [rewrite zneg_mul; apply Z.compare_lt_iff; slia|apply Z.compare_gt_iff; slia].
  - destruct t; reflexivity.
  - (* finite, finite *)
    cbn [SFcompare fkey xcmp]. f_equal.
    pose proof (finite_pos_key _ _ Cf) as Hpf. pose proof (finite_pos_key _ _ Cg) as Hpg.
    destruct s, t; unfold smant; rewrite ?zneg_mul.
    + rewrite Z.compare_opp, (Z.compare_antisym (Zpos m * 2 ^ (e + sh))), <- (lex_is_numeric m e n e' Cf Cg).
      destruct (e ?= e'); reflexivity.
    + symmetry. apply Z.compare_lt_iff. slia.
    + symmetry. apply Z.compare_gt_iff. slia.
    + apply lex_is_numeric; assumption.
Qed.

(* ------------------------------------------------------------------ int / float *)
Lemma cmp_Z_f_key z f :
  f_is_nan f = false -> canonical_sf f = true -> cmp_Z_f z f = Some (xcmp (XFin (z * 2 ^ sh)) (fkey f)).
Proof.
  unfold canonical_sf. destruct f as [s|s| |s m e]; cbn [f_is_nan valid_binary]; intros Nf Cf; try discriminate.
  - cbn [cmp_Z_f fkey xcmp]. f_equal. change 0 with (0 * 2 ^ sh) at 2.
    rewrite mul_compare_r by (apply Z.pow_pos_nonneg; slia). reflexivity.
  - destruct s; reflexivity.
  - destruct (bounded_facts _ _ Cf) as (He & _ & _).
    cbn [cmp_Z_f fkey xcmp]. unfold f_as_frac. fold (smant s m).
    destruct (Z.leb_spec 0 e) as [Hle|Hgt]; f_equal.
    + change (2 ^ 0) with 1. rewrite Z.mul_1_r.
      rewrite Z.pow_add_r by (slia). rewrite Z.mul_assoc.
      rewrite mul_compare_r by (apply Z.pow_pos_nonneg; slia). reflexivity.
    + replace sh with ((- e) + (e + sh)) at 1 by slia.
      rewrite (Z.pow_add_r 2 (- e) (e + sh)) by slia. rewrite Z.mul_assoc.
      rewrite mul_compare_r by (apply Z.pow_pos_nonneg; slia). reflexivity.
Qed.

(* ------------------------------------------------------------------ every comparison of good values is the comparison of keys *)
Definition good_num (n : num) : bool := match n with NInt _ => true | NFloat f => negb (f_is_nan f) && canonical_sf f end.

Lemma good_val_num v : good_val v = good_num (as_num v).
Proof. destruct v as [b|z|f]; reflexivity. Qed.

Lemma cmp_num_key a b : good_num a = true -> good_num b = true -> cmp_num a b = Some (xcmp (nkey a) (nkey b)).
Proof.
  destruct a as [x|f], b as [y|g]; cbn [good_num cmp_num nkey]; intros Ga Gb;
    repeat match goal with H : _ && _ = true |- _ => apply andb_true_iff in H; destruct H as [?H ?H] end;
    repeat match goal with H : negb _ = true |- _ => apply negb_true_iff in H end.
  - cbn [xcmp]. rewrite mul_compare_r by (apply Z.pow_pos_nonneg; slia). reflexivity.
  - apply cmp_Z_f_key; assumption.
  - rewrite (cmp_Z_f_key y f) by assumption. cbn [option_map]. rewrite <- xcmp_antisym. reflexivity.
  - apply SFcompare_key; assumption.
Qed.

Theorem cmp_good x y :
  good_val x = true -> good_val y = true -> cmp_num (as_num x) (as_num y) = Some (xcmp (key x) (key y)).
Proof. rewrite !good_val_num. apply cmp_num_key. Qed.

Lemma py_lt_key x y :
  good_val x = true -> good_val y = true -> py_lt x y = match xcmp (key x) (key y) with Lt => true | _ => false end.
Proof. intros Gx Gy. unfold py_lt. rewrite (cmp_good x y Gx Gy). reflexivity. Qed.

(* ------------------------------------------------------------------ the four laws *)
Definition good (v : pyval) : Prop := good_val v = true.

Theorem py_lt_irrefl x : good x -> py_lt x x = false.
Proof. intros G. rewrite py_lt_key by assumption. rewrite xcmp_refl. reflexivity. Qed.

Theorem py_lt_trans x y z : good x -> good y -> good z -> py_lt x y = true -> py_lt y z = true -> py_lt x z = true.
Proof.
  intros Gx Gy Gz. rewrite !py_lt_key by assumption. intros H1 H2.
  destruct (xcmp (key x) (key y)) eqn:E1; try discriminate. destruct (xcmp (key y) (key z)) eqn:E2; try discriminate.
  rewrite (xcmp_trans _ _ _ E1 E2). reflexivity.
Qed.

(* values that are not ordered either way have the same key, hence compare alike with everything *)
Lemma incomparable_same_key x y : good x -> good y -> py_lt x y = false -> py_lt y x = false -> key x = key y.
Proof.
  intros Gx Gy. rewrite !py_lt_key by assumption. rewrite (xcmp_antisym (key x) (key y)). intros H1 H2.
  apply xcmp_eq. destruct (xcmp (key x) (key y)); [reflexivity|discriminate|discriminate].
Qed.

Theorem py_lt_incomp x y z :
  good x -> good y -> good z -> py_lt x y = false -> py_lt y x = false -> py_lt x z = py_lt y z /\ py_lt z x = py_lt z y.
Proof.
  intros Gx Gy Gz H1 H2. rewrite !py_lt_key by assumption.
  rewrite (incomparable_same_key x y Gx Gy H1 H2). split; reflexivity.
Qed.

(* the derived statements for > *)
Theorem py_gt_irrefl x : good x -> py_gt x x = false.
Proof. intros G. rewrite py_gt_lt_all. apply py_lt_irrefl; exact G. Qed.

Theorem py_gt_trans x y z : good x -> good y -> good z -> py_gt x y = true -> py_gt y z = true -> py_gt x z = true.
Proof. intros Gx Gy Gz. rewrite !py_gt_lt_all. intros A B. apply (py_lt_trans z y x); assumption. Qed.

(* totality up to key equality: exactly one of <, >, "same key" *)
Theorem py_lt_trichotomy x y : good x -> good y -> py_lt x y = true \/ py_lt y x = true \/ key x = key y.
Proof.
  intros Gx Gy. rewrite !py_lt_key by assumption. rewrite (xcmp_antisym (key x) (key y)).
  destruct (xcmp (key x) (key y)) eqn:E; cbn [CompOpp]; [right; right; apply xcmp_eq; exact E|left; reflexivity|right; left; reflexivity].
Qed.

Theorem order_laws_good : order_laws_on good.
Proof.
  constructor.
  - exact py_gt_lt_all.
  - exact py_lt_irrefl.
  - exact py_lt_trans.
  - exact py_lt_incomp.
Qed.

(* ------------------------------------------------------------------ canonicity is necessary: on non-canonical floats
   SFcompare (lexicographic on (exponent, mantissa)) is not the numeric order, and the laws fail.
   x = 1*2^1 (= 2.0, not canonical), y = 2, z = 3*2^0 (= 3.0, not canonical): x ~ y, y < z, but not x < z. *)
Definition nc_x := VFloat (S754_finite false 1 1).
Definition nc_y := VInt 2.
Definition nc_z := VFloat (S754_finite false 3 0).

Lemma noncanonical_breaks_incomp :
  is_nan_val nc_x = false /\ is_nan_val nc_y = false /\ is_nan_val nc_z = false /\
  py_lt nc_x nc_y = false /\ py_lt nc_y nc_x = false /\ py_lt nc_x nc_z = false /\ py_lt nc_y nc_z = true.
Proof. vm_compute. repeat split; reflexivity. Qed.

(* hence the unrestricted record (laws for every non-NaN pyval, canonical or not) is NOT inhabited *)
Theorem order_laws_refuted_on_noncanonical : ~ order_laws.
Proof.
  intros L. destruct noncanonical_breaks_incomp as (Nx & Ny & Nz & A & B & C & D).
  destruct (ol_incomp L nc_x nc_y nc_z Nx Ny Nz A B) as [E _]. rewrite C, D in E. discriminate.
Qed.

(* ------------------------------------------------------------------ the evaluator equals the reference semantics, no law
   hypothesis left *)
Definition sensitive_args_good : ctx -> expr -> bool := sensitive_args_ok good_val.

Theorem eval_matches_reference_closed c e : sensitive_args_good c e = true -> eval false c e = sem c e.
Proof. apply (eval_matches_reference_on good_val good_not_nan order_laws_good). Qed.

(* the premise is the old one, strengthened *)
Lemma forallb_good_no_nan vs : forallb good_val vs = true -> existsb is_nan_val vs = false.
Proof.
  induction vs as [|v vs IH]; [reflexivity|]. cbn [forallb existsb]. intros H. apply andb_true_iff in H.
  destruct H as [H1 H2]. rewrite (good_not_nan v H1), (IH H2). reflexivity.
Qed.

Theorem sensitive_args_good_nan_free c e : sensitive_args_good c e = true -> nan_sensitive_free c e = true.
Proof.
  unfold sensitive_args_good.
  induction e as [v|id| |id| |f args IH] using expr_ind'; intros H; try reflexivity.
  cbn [sensitive_args_ok nan_sensitive_free] in *. apply andb_true_iff in H. destruct H as [Ha Hs].
  apply andb_true_iff. split.
  - rewrite forallb_forall in *. rewrite Forall_forall in IH. intros a Hin. apply IH; [exact Hin|apply Ha; exact Hin].
  - destruct (nan_sensitive f); [|reflexivity].
    destruct (gather (map (eval false c) args)) as [vs|ks]; [|reflexivity].
    apply negb_true_iff. apply forallb_good_no_nan. exact Hs.
Qed.

(* MIN / MAX on good arguments are the first minimum / maximum *)
Theorem min_agrees_good m t : forallb good_val (m :: t) = true -> Val (min_loop m t) = spec_min (m :: t).
Proof.
  intros H. apply (min_agrees_on good order_laws_good).
  - apply Forall_forall. rewrite forallb_forall in H. exact H.
  - apply forallb_good_no_nan. exact H.
Qed.

Theorem max_agrees_good m t : forallb good_val (m :: t) = true -> Val (max_loop m t) = spec_max (m :: t).
Proof.
  intros H. apply (max_agrees_on good order_laws_good).
  - apply Forall_forall. rewrite forallb_forall in H. exact H.
  - apply forallb_good_no_nan. exact H.
Qed.

(* ================================================================== PART 2 — closure: evaluation only produces canonical
   floats.  [binary_round_aux] yields [valid_binary] data whenever the input mantissa is not too short for its exponent
   (e <= fexp (digits m + e)); [binary_normalize] (SFadd, SFsub, float(int), int/int, fmod, round) establishes that by
   shl_align, SFmul by digits(mx*my) >= digits mx + digits my - 1, SFdiv by the pre-shift of SFdiv_core_binary.  Stdlib only
   (Z.log2 lemmas); nothing is said about the *value* of the rounded result, only that it is a canonical datum. *)
(* ------------------------------------------------------------------ closure: the float operations produce canonical data *)
Definition fx (z : Z) : Z := Z.max (z - 53) (-1074).

Lemma fexp_fx z : fexp prec emax z = fx z.
Proof. reflexivity. Qed.

Lemma fx_mono a b : a <= b -> fx a <= fx b.
Proof. unfold fx. lia. Qed.

Lemma D_pos m : 0 < m -> Zdigits2 m = Z.log2 m + 1.
Proof.
  destruct m as [|p|p]; try lia. intros _. cbn [Zdigits2].
  pose proof (digits2_pos_bounds p) as Hb.
  assert (H : Z.log2 (Zpos p) = Zpos (digits2_pos p) - 1).
  { apply Z.log2_unique; [lia|]. replace (Z.succ (Zpos (digits2_pos p) - 1)) with (Zpos (digits2_pos p)) by lia. exact Hb. }
  lia.
Qed.

Lemma D_nonneg m : 0 <= Zdigits2 m.
Proof. destruct m; cbn [Zdigits2]; lia. Qed.

Lemma D_mono a b : 0 <= a <= b -> Zdigits2 a <= Zdigits2 b.
Proof.
  intros [Ha Hab]. destruct (Z.eq_dec a 0) as [->|Hne]; [apply D_nonneg|].
  rewrite !D_pos by lia. pose proof (Z.log2_le_mono a b Hab). lia.
Qed.

Lemma D_div m n : 0 <= m -> 0 <= n -> Zdigits2 (m / 2 ^ n) = Z.max 0 (Zdigits2 m - n).
Proof.
  intros Hm Hn. destruct (Z.eq_dec m 0) as [->|Hne].
  - rewrite Z.div_0_l by (apply Z.pow_nonzero; lia). cbn [Zdigits2]. lia.
  - rewrite <- Z.shiftr_div_pow2 by lia. rewrite (D_pos m) by lia.
    destruct (Z.eq_dec (Z.shiftr m n) 0) as [E|E].
    + rewrite E. cbn [Zdigits2]. apply Z.shiftr_eq_0_iff in E. lia.
    + assert (Hs : 0 <= Z.shiftr m n) by (apply Z.shiftr_nonneg; lia).
      rewrite D_pos by lia. rewrite Z.log2_shiftr by lia.
      assert (~ Z.log2 m < n) by (intros Hlt; apply E; apply Z.shiftr_eq_0_iff; right; lia). lia.
Qed.

Lemma D_mul_pow2 m k : 0 < m -> 0 <= k -> Zdigits2 (m * 2 ^ k) = Zdigits2 m + k.
Proof.
  intros Hm Hk. assert (0 < m * 2 ^ k) by (apply Z.mul_pos_pos; [lia|apply Z.pow_pos_nonneg; lia]).
  rewrite !D_pos by lia. rewrite Z.log2_mul_pow2 by lia. lia.
Qed.

Lemma shr_1_m mrs : 0 <= shr_m mrs -> shr_m (shr_1 mrs) = shr_m mrs / 2.
Proof.
  destruct mrs as [m r s]. cbn [shr_m]. intros H. rewrite <- Z.div2_div.
  destruct m as [|[p|p|]|p]; try lia; reflexivity.
Qed.

Lemma div_nonneg2 m k : 0 <= m -> 0 <= m / 2 ^ k.
Proof.
  intros H. destruct (Z.le_gt_cases 0 k) as [Hk|Hk].
  - apply Z.div_pos; [lia|apply Z.pow_pos_nonneg; lia].
  - rewrite Z.pow_neg_r by lia. rewrite Zdiv_0_r. lia.
Qed.

Lemma iter_pos_shr p : forall mrs, 0 <= shr_m mrs -> shr_m (iter_pos shr_1 p mrs) = shr_m mrs / 2 ^ Zpos p.
Proof.
  induction p as [p IH|p IH|]; intros mrs H; cbn [iter_pos].
  - assert (H1 : 0 <= shr_m (shr_1 mrs)) by (rewrite shr_1_m by lia; apply Z.div_pos; lia).
    assert (H2 : 0 <= shr_m (iter_pos shr_1 p (shr_1 mrs))) by (rewrite IH by lia; apply div_nonneg2; lia).
    rewrite IH by lia. rewrite IH by lia. rewrite shr_1_m by lia.
    assert (Hp : 0 < 2 ^ Zpos p) by (apply Z.pow_pos_nonneg; lia).
    rewrite !Z.div_div by lia. f_equal.
    replace (Zpos p~1) with (1 + (Zpos p + Zpos p)) by lia. rewrite !Z.pow_add_r by lia. change (2 ^ 1) with 2. ring.
  - assert (H2 : 0 <= shr_m (iter_pos shr_1 p mrs)) by (rewrite IH by lia; apply div_nonneg2; lia).
    rewrite IH by lia. rewrite IH by lia.
    assert (Hp : 0 < 2 ^ Zpos p) by (apply Z.pow_pos_nonneg; lia).
    rewrite !Z.div_div by lia. f_equal.
    replace (Zpos p~0) with (Zpos p + Zpos p) by lia. rewrite !Z.pow_add_r by lia. ring.
  - rewrite shr_1_m by lia. reflexivity.
Qed.

(* one shr_fexp step, arithmetically *)
Definition stage_m (m e : Z) : Z := let n := fx (Zdigits2 m + e) - e in if 0 <? n then m / 2 ^ n else m.
Definition stage_e (m e : Z) : Z := let n := fx (Zdigits2 m + e) - e in if 0 <? n then e + n else e.

Lemma shr_fexp_spec m e l :
  0 <= m -> exists mrs, shr_fexp prec emax m e l = (mrs, stage_e m e) /\ shr_m mrs = stage_m m e.
Proof.
  intros Hm. unfold shr_fexp, stage_e, stage_m. rewrite fexp_fx.
  assert (Hrec : shr_m (shr_record_of_loc m l) = m) by (destruct l as [|[]]; reflexivity).
  destruct (fx (Zdigits2 m + e) - e) as [|p|p] eqn:En; cbn [shr Z.ltb Z.compare].
  - eexists; split; [reflexivity|exact Hrec].
  - eexists; split; [reflexivity|]. rewrite iter_pos_shr by lia. rewrite Hrec. reflexivity.
  - eexists; split; [reflexivity|exact Hrec].
Qed.

Lemma stage_canon m e :
  0 <= m -> e <= fx (Zdigits2 m + e) -> 0 <= stage_m m e /\ fx (Zdigits2 (stage_m m e) + stage_e m e) = stage_e m e.
Proof.
  intros Hm He. unfold stage_m, stage_e. pose proof (D_nonneg m) as Hd.
  destruct (Z.ltb_spec 0 (fx (Zdigits2 m + e) - e)) as [Hn|Hn].
  - split; [apply div_nonneg2; exact Hm|]. rewrite D_div by lia. unfold fx in *. lia.
  - split; [exact Hm|]. lia.
Qed.

Lemma round_ne_cases m l : round_nearest_even m l = m \/ round_nearest_even m l = m + 1.
Proof. destruct l as [|[]]; cbn [round_nearest_even]; try (left; reflexivity); try (right; reflexivity). destruct (Z.even m); [left|right]; reflexivity. Qed.

(* the rounding core produces valid data as soon as the input mantissa is not too short for its exponent *)
Theorem binary_round_aux_valid s m e l :
  0 <= m -> e <= fx (Zdigits2 m + e) -> valid_binary prec emax (binary_round_aux prec emax s m e l) = true.
Proof.
  intros Hm He. unfold binary_round_aux.
  destruct (shr_fexp_spec m e l Hm) as (mrs1 & E1 & M1). rewrite E1.
  destruct (stage_canon m e Hm He) as [Hm1 Hc1]. rewrite <- M1 in Hm1, Hc1.
  set (m2 := round_nearest_even (shr_m mrs1) (loc_of_shr_record mrs1)).
  assert (Hm2 : 0 <= shr_m mrs1 <= m2) by (unfold m2; destruct (round_ne_cases (shr_m mrs1) (loc_of_shr_record mrs1)) as [->| ->]; lia).
  assert (He2 : stage_e m e <= fx (Zdigits2 m2 + stage_e m e)).
  { rewrite <- Hc1 at 1. apply fx_mono. pose proof (D_mono _ _ Hm2). lia. }
  destruct (shr_fexp_spec m2 (stage_e m e) loc_Exact ltac:(lia)) as (mrs2 & E2 & M2). rewrite E2.
  destruct (stage_canon m2 (stage_e m e) ltac:(lia) He2) as [Hm3 Hc3]. rewrite <- M2 in Hm3, Hc3.
  destruct (shr_m mrs2) as [|p|p]; try reflexivity.
  destruct (Zle_bool (stage_e m2 (stage_e m e)) (emax - prec)) eqn:Ele; [|reflexivity].
  cbn [valid_binary]. unfold bounded, canonical_mantissa. rewrite Ele, fexp_fx.
  cbn [Zdigits2] in Hc3. rewrite Hc3. rewrite (proj1 (Zeq_is_eq_bool _ _) eq_refl). reflexivity.
Qed.

Lemma shift_pos_Z d m : Zpos (shift_pos d m) = Zpos m * 2 ^ Zpos d.
Proof. rewrite shift_pos_correct, Z.pow_pos_fold. ring. Qed.

Theorem binary_round_valid s m e : valid_binary prec emax (binary_round prec emax s m e) = true.
Proof.
  unfold binary_round, shl_align. rewrite fexp_fx. change (Zpos (digits2_pos m)) with (Zdigits2 (Zpos m)).
  destruct (fx (Zdigits2 (Zpos m) + e) - e) as [|d|d] eqn:En.
  - apply binary_round_aux_valid; lia.
  - apply binary_round_aux_valid; lia.
  - apply binary_round_aux_valid; [lia|]. rewrite shift_pos_Z. rewrite D_mul_pow2 by lia.
    apply Z.eq_le_incl.
    replace (Zdigits2 (Zpos m) + Zpos d + fx (Zdigits2 (Zpos m) + e)) with (Zdigits2 (Zpos m) + e) by lia. reflexivity.
Qed.

Theorem binary_normalize_valid m e sz : valid_binary prec emax (binary_normalize prec emax m e sz) = true.
Proof. destruct m; cbn [binary_normalize]; [reflexivity|apply binary_round_valid|apply binary_round_valid]. Qed.

(* ------------------------------------------------------------------ SFadd / SFsub / SFmul / SFdiv *)
Notation vb := (valid_binary prec emax).

Lemma bounded_fx m e : bounded prec emax m e = true -> fx (Zdigits2 (Zpos m) + e) = e /\ e <= 971.
Proof.
  unfold bounded, canonical_mantissa. rewrite fexp_fx. intros H. apply andb_true_iff in H. destruct H as [H1 H2].
  apply Zeq_bool_eq in H1. apply Z.leb_le in H2. split; [exact H1|exact H2].
Qed.

Lemma fadd_valid x y : vb x = true -> vb y = true -> vb (fadd x y) = true.
Proof.
  unfold fadd. destruct x as [sx|sx| |sx mx ex], y as [sy|sy| |sy my ey]; cbn [SFadd]; intros Hx Hy;
    try reflexivity; try assumption; try (destruct (Bool.eqb _ _); reflexivity).
  apply binary_normalize_valid.
Qed.

Lemma fsub_valid x y : vb x = true -> vb y = true -> vb (fsub x y) = true.
Proof.
  unfold fsub. destruct x as [sx|sx| |sx mx ex], y as [sy|sy| |sy my ey]; cbn [SFsub]; intros Hx Hy;
    try reflexivity; try assumption; try (destruct (Bool.eqb _ _); reflexivity).
  apply binary_normalize_valid.
Qed.

Lemma fmul_valid x y : vb x = true -> vb y = true -> vb (fmul x y) = true.
Proof.
  unfold fmul. destruct x as [sx|sx| |sx mx ex], y as [sy|sy| |sy my ey]; cbn [SFmul]; intros Hx Hy; try reflexivity.
  cbn [valid_binary] in Hx, Hy. destruct (bounded_fx _ _ Hx) as [Cx _]. destruct (bounded_fx _ _ Hy) as [Cy _].
  apply binary_round_aux_valid; [lia|].
  rewrite Pos2Z.inj_mul.
  assert (Hd : Zdigits2 (Zpos mx) + Zdigits2 (Zpos my) - 1 <= Zdigits2 (Zpos mx * Zpos my)).
  { rewrite !D_pos by lia. pose proof (Z.log2_mul_below (Zpos mx) (Zpos my)). lia. }
  pose proof (D_pos (Zpos mx)). pose proof (D_pos (Zpos my)).
  pose proof (Z.log2_nonneg (Zpos mx)). pose proof (Z.log2_nonneg (Zpos my)).
  unfold fx in *. lia.
Qed.

Lemma D_quot a b : 0 < a -> 0 < b -> Zdigits2 a - Zdigits2 b <= Zdigits2 (a / b).
Proof.
  intros Ha Hb. destruct (Z.le_gt_cases (Zdigits2 a - Zdigits2 b) 0) as [Hle|Hgt].
  - pose proof (D_nonneg (a / b)). lia.
  - rewrite (D_pos a), (D_pos b) in * by lia.
    destruct (Z.log2_spec a Ha) as [Ha1 _]. destruct (Z.log2_spec b Hb) as [_ Hb2].
    pose proof (Z.log2_nonneg a). pose proof (Z.log2_nonneg b).
    set (k := Z.log2 a - Z.log2 b - 1) in *.
    assert (Hk : 0 <= k) by (unfold k; lia).
    assert (Hpk : 0 < 2 ^ k) by (apply Z.pow_pos_nonneg; lia).
    assert (Hq : 2 ^ k <= a / b).
    { apply Z.div_le_lower_bound; [lia|].
      apply Z.le_trans with (2 ^ Z.succ (Z.log2 b) * 2 ^ k); [apply Z.mul_le_mono_nonneg_r; lia|].
      rewrite <- Z.pow_add_r by lia. replace (Z.succ (Z.log2 b) + k) with (Z.log2 a) by (unfold k; lia). exact Ha1. }
    assert (Hqp : 0 < a / b) by lia.
    rewrite (D_pos (a / b)) by lia. apply (Z.log2_le_pow2 _ _ Hqp) in Hq. unfold k in Hq. lia.
Qed.

Lemma div_core_spec m1 e1 m2 e2 :
  0 < m1 -> 0 < m2 ->
  let '(q, e', l) := SFdiv_core_binary prec emax m1 e1 m2 e2 in 0 <= q /\ e' <= fx (Zdigits2 q + e').
Proof.
  intros H1 H2. unfold SFdiv_core_binary. rewrite fexp_fx.
  set (e' := Z.min (fx (Zdigits2 m1 + e1 - (Zdigits2 m2 + e2))) (e1 - e2)).
  assert (Hs : 0 <= e1 - e2 - e') by (unfold e'; lia).
  set (m' := match e1 - e2 - e' with Z0 => m1 | Zpos _ => Z.shiftl m1 (e1 - e2 - e') | Zneg _ => 0 end).
  assert (Hm' : m' = m1 * 2 ^ (e1 - e2 - e')).
  { unfold m'. destruct (e1 - e2 - e') as [|p|p] eqn:Es; [change (2 ^ 0) with 1; ring|apply Z.shiftl_mul_pow2; lia|lia]. }
  destruct (Z.div_eucl m' m2) as [q r] eqn:Ediv.
  assert (Hq : q = m' / m2) by (unfold Z.div; rewrite Ediv; reflexivity).
  assert (Hm'pos : 0 < m') by (rewrite Hm'; apply Z.mul_pos_pos; [lia|apply Z.pow_pos_nonneg; lia]).
  split; [rewrite Hq; apply Z.div_pos; lia|].
  pose proof (D_quot m' m2 Hm'pos H2) as Hd. rewrite <- Hq in Hd.
  rewrite Hm', D_mul_pow2 in Hd by lia.
  apply Z.le_trans with (fx (Zdigits2 m1 + e1 - (Zdigits2 m2 + e2))); [unfold e'; lia|].
  apply fx_mono. lia.
Qed.

Lemma fdiv_valid x y : vb x = true -> vb y = true -> vb (fdiv x y) = true.
Proof.
  unfold fdiv. destruct x as [sx|sx| |sx mx ex], y as [sy|sy| |sy my ey]; cbn [SFdiv]; intros Hx Hy; try reflexivity.
  pose proof (div_core_spec (Zpos mx) ex (Zpos my) ey ltac:(lia) ltac:(lia)) as H.
  destruct (SFdiv_core_binary prec emax (Zpos mx) ex (Zpos my) ey) as [[q e'] l]. destruct H as [Hq He].
  apply binary_round_aux_valid; assumption.
Qed.

Lemma fabs_valid x : vb x = true -> vb (SFabs x) = true.
Proof. destruct x; cbn; intros H; try reflexivity; exact H. Qed.

(* ------------------------------------------------------------------ the numeric tower *)
Notation cv := canonical_val.
Definition cn (n : num) : bool := match n with NInt _ => true | NFloat f => vb f end.
Definition cvr (r : pyres) : Prop := match r with POk v => cv v = true | PErr _ => True end.
Definition cvf (r : sf + pyexc) : Prop := match r with inl f => vb f = true | inr _ => True end.
Definition cvo (o : outcome) : Prop := match o with Val v => cv v = true | _ => True end.

Lemma cv_cn v : cv v = cn (as_num v).
Proof. destruct v; reflexivity. Qed.

Lemma f_of_Z_raw_valid z : vb (f_of_Z_raw z) = true.
Proof. apply binary_normalize_valid. Qed.

Lemma to_float_cvf n : cn n = true -> cvf (to_float n).
Proof.
  destruct n as [z|f]; cbn [cn to_float cvf]; intros H; [|exact H].
  unfold f_of_Z. destruct (f_is_inf (f_of_Z_raw z)); cbn [cvf]; [exact I|apply f_of_Z_raw_valid].
Qed.

Lemma float_binop_cvr op a b :
  (forall x y, vb x = true -> vb y = true -> vb (op x y) = true) -> cn a = true -> cn b = true -> cvr (float_binop op a b).
Proof.
  intros Hop Ha Hb. unfold float_binop. pose proof (to_float_cvf a Ha) as Fa. pose proof (to_float_cvf b Hb) as Fb.
  destruct (to_float a) as [x|e]; [|exact I]. destruct (to_float b) as [y|e]; [|exact I]. cbn [cvr cvf canonical_val] in *.
  apply Hop; assumption.
Qed.

Lemma py_add_cvr a b : cv a = true -> cv b = true -> cvr (py_add a b).
Proof.
  rewrite !cv_cn. unfold py_add. intros Ha Hb.
  destruct (as_num a) as [x|f] eqn:Ea, (as_num b) as [y|g] eqn:Eb; try reflexivity; apply float_binop_cvr; try assumption; apply fadd_valid.
Qed.

Lemma py_sub_cvr a b : cv a = true -> cv b = true -> cvr (py_sub a b).
Proof.
  rewrite !cv_cn. unfold py_sub. intros Ha Hb.
  destruct (as_num a) as [x|f] eqn:Ea, (as_num b) as [y|g] eqn:Eb; try reflexivity; apply float_binop_cvr; try assumption; apply fsub_valid.
Qed.

Lemma py_mul_cvr a b : cv a = true -> cv b = true -> cvr (py_mul a b).
Proof.
  rewrite !cv_cn. unfold py_mul. intros Ha Hb.
  destruct (as_num a) as [x|f] eqn:Ea, (as_num b) as [y|g] eqn:Eb; try reflexivity; apply float_binop_cvr; try assumption; apply fmul_valid.
Qed.

Lemma f_of_ratio_valid p q : vb (f_of_ratio p q) = true.
Proof. unfold f_of_ratio. destruct (p =? 0); [reflexivity|apply binary_normalize_valid]. Qed.

Lemma div_floats_cvr x y : cn x = true -> cn y = true ->
  cvr match to_float x, to_float y with
      | inl fx, inl fy => if f_is_zero fy then PErr ZeroDiv else POk (VFloat (fdiv fx fy))
      | inr e, _ => PErr e
      | _, inr e => PErr e
      end.
Proof.
  intros Ha Hb. pose proof (to_float_cvf x Ha) as Fa. pose proof (to_float_cvf y Hb) as Fb.
  destruct (to_float x) as [fx'|e]; [|exact I]. destruct (to_float y) as [fy'|e]; [|exact I].
  destruct (f_is_zero fy'); [exact I|]. cbn [cvr cvf canonical_val] in *. apply fdiv_valid; assumption.
Qed.

Lemma py_truediv_cvr a b : cv a = true -> cv b = true -> cvr (py_truediv a b).
Proof.
  rewrite !cv_cn. unfold py_truediv. intros Ha Hb.
  destruct (as_num a) as [x|f] eqn:Ea, (as_num b) as [y|g] eqn:Eb; try (apply div_floats_cvr; assumption).
  destruct (y =? 0); [exact I|]. destruct (x =? 0); [reflexivity|].
  destruct (f_is_inf _); [exact I|]. cbn [cvr canonical_val]. apply f_of_ratio_valid.
Qed.

Lemma f_fmod_valid x y : vb x = true -> vb y = true -> vb (f_fmod x y) = true.
Proof.
  destruct x as [sx|sx| |sx mx ex], y as [sy|sy| |sy my ey]; cbn [f_fmod]; intros Hx Hy; try reflexivity; try assumption.
  destruct (_ =? 0); [reflexivity|apply binary_normalize_valid].
Qed.

Lemma f_rem_cvf x y : vb x = true -> vb y = true -> cvf (f_rem x y).
Proof.
  intros Hx Hy. unfold f_rem. destruct (f_is_zero y); [exact I|].
  pose proof (f_fmod_valid x y Hx Hy) as Hm.
  destruct (f_is_zero (f_fmod x y)); [reflexivity|].
  destruct (negb _); cbn [cvf]; [apply fadd_valid; assumption|exact Hm].
Qed.

Lemma lift_f_cvr r : cvf r -> cvr (lift_f r).
Proof. destruct r; cbn; intros H; exact H. Qed.

Lemma py_mod_cvr a b : cv a = true -> cv b = true -> cvr (py_mod a b).
Proof.
  rewrite !cv_cn. unfold py_mod. intros Ha Hb.
  assert (G : forall x y, cn x = true -> cn y = true ->
     cvr match to_float x, to_float y with
         | inl fx, inl fy => lift_f (f_rem fx fy) | inr e, _ => PErr e | _, inr e => PErr e end).
  { intros x y Hx Hy. pose proof (to_float_cvf x Hx) as Fa. pose proof (to_float_cvf y Hy) as Fb.
    destruct (to_float x) as [fx'|e]; [|exact I]. destruct (to_float y) as [fy'|e]; [|exact I].
    apply lift_f_cvr. apply f_rem_cvf; assumption. }
  destruct (as_num a) as [x|f] eqn:Ea, (as_num b) as [y|g] eqn:Eb; try (apply G; assumption).
  destruct (y =? 0); [exact I|reflexivity].
Qed.

Lemma py_pow_cvr a b : cvr (py_pow a b).
Proof. unfold py_pow. destruct (as_num a), (as_num b); try exact I. destruct (0 <=? z0); [reflexivity|exact I]. Qed.

Lemma f_round_cvf f nd : vb f = true -> cvf (f_round f nd).
Proof.
  intros Hf. destruct f as [s|s| |s m e]; cbn [f_round cvf]; try exact Hf.
  destruct (323 <? nd); [exact Hf|]. destruct (nd <? -308); [reflexivity|].
  destruct (f_as_frac s m e) as [n k].
  destruct (if 0 <=? nd then _ else _) as [q den].
  set (r := f_of_ratio _ den). pose proof (f_of_ratio_valid (if 0 <=? nd then q else q * 10 ^ (- nd)) den) as Hr. fold r in Hr.
  destruct r as [s'|s'| |s' m' e']; cbn [f_is_inf cvf]; try exact I; try reflexivity. exact Hr.
Qed.

Lemma py_round_cvr v nd : cv v = true -> cvr (py_round v nd).
Proof.
  rewrite cv_cn. unfold py_round. destruct (as_num v) as [z|f]; intros H; [reflexivity|].
  apply lift_f_cvr. apply f_round_cvf. exact H.
Qed.

Lemma py_abs_cv v : cv v = true -> cv (py_abs v) = true.
Proof. rewrite cv_cn. unfold py_abs. destruct (as_num v) as [z|f]; intros H; [reflexivity|]. apply fabs_valid. exact H. Qed.

Lemma py_float_cvr v : cv v = true -> cvr (py_float v).
Proof. rewrite cv_cn. intros H. unfold py_float. apply lift_f_cvr. apply to_float_cvf. exact H. Qed.

Lemma pbind_cvr r k : cvr r -> (forall v, cv v = true -> cvr (k v)) -> cvr (pbind r k).
Proof. destruct r as [v|e]; cbn [pbind cvr]; intros H Hk; [apply Hk; exact H|exact I]. Qed.

Fixpoint all_cv (l : list pyval) : Prop := match l with [] => True | x :: r => cv x = true /\ all_cv r end.

Lemma sum_generic_cvr l : forall acc, cv acc = true -> all_cv l -> cvr (sum_generic acc l).
Proof.
  induction l as [|x r IH]; intros acc Ha Hl; cbn [sum_generic]; [exact Ha|].
  destruct Hl as [Hx Hr]. apply pbind_cvr; [apply py_add_cvr; assumption|]. intros v Hv. apply IH; assumption.
Qed.

Lemma fold_comp_valid f c : vb f = true -> vb c = true -> vb (fold_comp f c) = true.
Proof. intros Hf Hc. unfold fold_comp. destruct (_ && _); [apply fadd_valid; assumption|exact Hf]. Qed.

Lemma sum_float_cvr l : forall f c, vb f = true -> vb c = true -> all_cv l -> cvr (sum_float f c l).
Proof.
  induction l as [|x r IH]; intros f c Hf Hc Hl; cbn [sum_float].
  - apply fold_comp_valid; assumption.
  - destruct Hl as [Hx Hr]. destruct x as [b|z|g].
    + cbn [as_num]. destruct (fits_long _).
      * apply IH; [apply fadd_valid; [assumption|apply f_of_Z_raw_valid]|assumption|assumption].
      * apply pbind_cvr; [apply py_add_cvr; [apply fold_comp_valid; assumption|reflexivity]|].
        intros v Hv. apply sum_generic_cvr; assumption.
    + cbn [as_num]. destruct (fits_long _).
      * apply IH; [apply fadd_valid; [assumption|apply f_of_Z_raw_valid]|assumption|assumption].
      * apply pbind_cvr; [apply py_add_cvr; [apply fold_comp_valid; assumption|reflexivity]|].
        intros v Hv. apply sum_generic_cvr; assumption.
    + cbn [canonical_val] in Hx.
      assert (Ht : vb (fadd f g) = true) by (apply fadd_valid; assumption).
      apply IH; [exact Ht| |exact Hr].
      destruct (SFleb _ _); apply fadd_valid; try assumption; apply fadd_valid; try assumption; apply fsub_valid; assumption.
Qed.

Lemma sum_int_cvr l : forall i, all_cv l -> cvr (sum_int i l).
Proof.
  induction l as [|x r IH]; intros i Hl; cbn [sum_int]; [reflexivity|].
  destruct Hl as [Hx Hr]. destruct x as [b|z|g].
  - cbn [as_num]. destruct (_ && _); [apply IH; exact Hr|apply sum_generic_cvr; [reflexivity|exact Hr]].
  - cbn [as_num]. destruct (_ && _); [apply IH; exact Hr|apply sum_generic_cvr; [reflexivity|exact Hr]].
  - apply pbind_cvr; [apply py_add_cvr; [reflexivity|exact Hx]|].
    intros acc Ha. destruct acc as [b|z|f]; [apply sum_generic_cvr; assumption|apply sum_generic_cvr; assumption|].
    apply sum_float_cvr; [exact Ha|reflexivity|exact Hr].
Qed.

Lemma py_sum_cvr l : all_cv l -> cvr (py_sum l).
Proof. apply sum_int_cvr. Qed.

Lemma mul_loop_cvr l : forall r, cv r = true -> all_cv l -> cvr (mul_loop r l).
Proof.
  induction l as [|x t IH]; intros r Hr Hl; cbn [mul_loop]; [exact Hr|].
  destruct Hl as [Hx Ht]. apply pbind_cvr; [apply py_mul_cvr; assumption|]. intros v Hv. apply IH; assumption.
Qed.

Lemma of_pyres_cvo r : cvr r -> cvo (of_pyres r).
Proof. destruct r; cbn; intros H; exact H. Qed.

Lemma of_z_cvo r : cvo (of_z r).
Proof. destruct r; cbn; [reflexivity|exact I]. Qed.

Lemma vbool_cvo b : cvo (vbool b).
Proof. reflexivity. Qed.

Lemma bit_loop_cvo op l : forall r, cvo (bit_loop op r l).
Proof. induction l as [|x t IH]; intros r; cbn [bit_loop]; [reflexivity|]. destruct (py_int x); [apply IH|exact I]. Qed.

Lemma int2_cvo a b k : (forall x y, cvo (k x y)) -> cvo (int2 a b k).
Proof. intros H. unfold int2. destruct (py_int a); [|exact I]. destruct (py_int b); [apply H|exact I]. Qed.

Lemma min_loop_cv l : forall m, cv m = true -> all_cv l -> cv (min_loop m l) = true.
Proof.
  induction l as [|x t IH]; intros m Hm Hl; cbn [min_loop]; [exact Hm|]. destruct Hl as [Hx Ht].
  apply IH; [destruct (py_lt x m); assumption|exact Ht].
Qed.

Lemma max_loop_cv l : forall m, cv m = true -> all_cv l -> cv (max_loop m l) = true.
Proof.
  induction l as [|x t IH]; intros m Hm Hl; cbn [max_loop]; [exact Hm|]. destruct Hl as [Hx Ht].
  apply IH; [destruct (py_gt x m); assumption|exact Ht].
Qed.

(* LUT / LUTLI *)
Definition cvp (p : pyval * pyval) : Prop := cv (fst p) = true /\ cv (snd p) = true.

Lemma lut_points_cv l : all_cv l -> Forall cvp (lut_points l) /\ (forall a, cv a = true -> Forall cvp (lut_points (a :: l))).
Proof.
  induction l as [|b t IH]; intros Hl.
  - split; [constructor|intros a Ha; constructor].
  - destruct Hl as [Hb Ht]. destruct (IH Ht) as [IH1 IH2]. split; [apply IH2; exact Hb|].
    intros a Ha. cbn [lut_points]. constructor; [split; assumption|exact IH1].
Qed.

Lemma pt_insert_cv p l : cvp p -> Forall cvp l -> Forall cvp (pt_insert p l).
Proof.
  intros Hp Hl. induction Hl as [|q r Hq Hr IH]; cbn [pt_insert]; [constructor; [exact Hp|constructor]|].
  destruct (py_lt _ _); constructor; try assumption. constructor; assumption.
Qed.

Lemma pt_sort_cv l : Forall cvp l -> Forall cvp (pt_sort l).
Proof. unfold pt_sort. induction 1 as [|p r Hp Hr IH]; cbn [fold_right]; [constructor|apply pt_insert_cv; assumption]. Qed.

Lemma lut_scan_cvo x rest : forall p1, cv x = true -> cvp p1 -> Forall cvp rest -> cvo (lut_scan x p1 rest).
Proof.
  induction rest as [|p2 r IH]; intros p1 Hx Hp1 Hr; cbn [lut_scan]; [exact (proj2 Hp1)|].
  inversion Hr as [|? ? Hp2 Hr']; subst. destruct (py_gt x (fst p2)); [apply IH; assumption|].
  destruct (py_sub x (fst p1)); [|exact I]. destruct (py_sub (fst p2) x); [|exact I].
  destruct (py_lt _ _); [exact (proj2 Hp1)|exact (proj2 Hp2)].
Qed.

Lemma lutli_interp_cvr x p1 p2 : cv x = true -> cvp p1 -> cvp p2 -> cvr (lutli_interp x p1 p2).
Proof.
  intros Hx [H1a H1b] [H2a H2b]. unfold lutli_interp.
  apply pbind_cvr; [apply py_sub_cvr; assumption|]. intros dy Hdy.
  apply pbind_cvr; [apply py_sub_cvr; assumption|]. intros dx Hdx.
  apply pbind_cvr; [apply py_mul_cvr; assumption|]. intros num Hnum.
  apply pbind_cvr; [apply py_sub_cvr; assumption|]. intros den Hden.
  apply pbind_cvr; [apply py_truediv_cvr; assumption|]. intros q Hq.
  apply py_add_cvr; assumption.
Qed.

Lemma lutli_scan_cvo x rest : forall p1, cv x = true -> cvp p1 -> Forall cvp rest -> cvo (lutli_scan x p1 rest).
Proof.
  induction rest as [|p2 r IH]; intros p1 Hx Hp1 Hr; cbn [lutli_scan]; [exact (proj2 Hp1)|].
  inversion Hr as [|? ? Hp2 Hr']; subst. destruct (py_gt x (fst p2)); [apply IH; assumption|].
  destruct (py_eq _ _); [exact (proj2 Hp1)|]. apply of_pyres_cvo. apply lutli_interp_cvr; assumption.
Qed.

Lemma lut_gen_cvo scan l :
  (forall x p1 rest, cv x = true -> cvp p1 -> Forall cvp rest -> cvo (scan x p1 rest)) -> all_cv l -> cvo (lut_gen scan l).
Proof.
  intros Hscan Hl. unfold lut_gen. destruct l as [|x rest]; [exact I|]. destruct Hl as [Hx Hr].
  pose proof (pt_sort_cv _ (proj1 (lut_points_cv rest Hr))) as Hs.
  destruct (pt_sort (lut_points rest)) as [|p0 ps]; [exact I|].
  inversion Hs as [|? ? Hp0 Hps]; subst. destruct (py_lt x (fst p0)); [exact (proj2 Hp0)|apply Hscan; assumption].
Qed.

(* ------------------------------------------------------------------ the functions of the language *)
Ltac crack :=
  repeat match goal with
  | |- context [match ?x with _ => _ end] => is_var x; destruct x
  end.

Lemma py_shl_cvr p q : cvr (py_shl p q).
Proof. unfold py_shl. destruct (q <? 0); [exact I|reflexivity]. Qed.
Lemma py_shr_cvr p q : cvr (py_shr p q).
Proof. unfold py_shr. destruct (q <? 0); [exact I|reflexivity]. Qed.

Lemma sgn_of_cvo x : cvo (sgn_of false x).
Proof. unfold sgn_of. destruct (py_gt _ _); [reflexivity|]. destruct (py_lt _ _); reflexivity. Qed.

Lemma avg_cvo a : all_cv a ->
  cvo match py_sum a with POk s => of_pyres (py_truediv s (VInt (Z.of_nat (length a)))) | PErr e => Fail [KPy e] end.
Proof.
  intros H. pose proof (py_sum_cvr a H) as Hs. destruct (py_sum a) as [s|e]; [|exact I].
  apply of_pyres_cvo. apply py_truediv_cvr; [exact Hs|reflexivity].
Qed.

Ltac fin :=
  cbn [all_cv]; intros;
  repeat match goal with H : _ /\ _ |- _ => destruct H end;
  repeat match goal with |- cvo (if ?b then _ else _) => destruct b end;
  try exact I; try reflexivity; try assumption;
  first
  [ apply vbool_cvo | apply of_z_cvo | apply bit_loop_cvo | apply sgn_of_cvo
  | apply avg_cvo; cbn [all_cv]; auto
  | apply int2_cvo; intros; first [reflexivity | apply of_pyres_cvo; first [apply py_shl_cvr | apply py_shr_cvr]]
  | apply of_pyres_cvo;
    first [apply py_sum_cvr | apply py_sub_cvr | apply mul_loop_cvr | apply py_truediv_cvr | apply py_mod_cvr
          | apply py_pow_cvr | apply py_round_cvr]; cbn [all_cv]; auto
  | apply py_abs_cv; assumption
  | apply min_loop_cv; assumption
  | apply max_loop_cv; assumption
  | apply (lut_gen_cvo lut_scan); [intros; apply lut_scan_cvo; assumption|cbn [all_cv]; auto]
  | apply (lut_gen_cvo lutli_scan); [intros; apply lutli_scan_cvo; assumption|cbn [all_cv]; auto]
  | match goal with |- cvo (match py_int ?d with _ => _ end) => destruct (py_int d) end;
    first [exact I | reflexivity | apply of_pyres_cvo; apply py_round_cvr; assumption]
  ].

Lemma apply_pure_cvo f a : all_cv a -> cvo (apply_pure false f a).
Proof.
  unfold apply_pure. revert a.
  crack.
  all: try (intros; exact I).
  all: intros a; crack.
  all: fin.
Qed.

Lemma apply_fn_cvo c f a : all_cv a -> cvo (apply_fn false c f a).
Proof.
  intros H. unfold apply_fn.
  destruct (String.eqb f "TIME"). { destruct a; [|exact I]. unfold ctx_timestamp. destruct (py_truediv _ _); [apply of_z_cvo|exact I]. }
  destruct (String.eqb f "TIMEMS"). { destruct a; [reflexivity|exact I]. }
  apply apply_pure_cvo. exact H.
Qed.

Lemma gather_cv os : Forall cvo os -> match gather os with inl vs => all_cv vs | inr _ => True end.
Proof.
  induction 1 as [|o r Ho Hr IH]; cbn [gather]; [exact I|].
  destruct o as [v|i|k]; destruct (gather r) as [vs|ks]; try exact I. cbn [all_cv]. split; assumption.
Qed.

Lemma on_failure_cvo k o : cvo o -> cvo (on_failure k o).
Proof. intros H. unfold on_failure. destruct (forallb _ _); [exact H|]. destruct (existsb _ _); exact I. Qed.

Lemma call_common_cvo ev c f args : Forall (fun a => cvo (ev a)) args -> cvo (call_common ev (apply_fn false c) f args).
Proof.
  intros Hev.
  assert (Heager : cvo match gather (map ev args) with inl vs => apply_fn false c f vs | inr ks => Fail (mark_ambig ks) end).
  { assert (Hm : Forall cvo (map ev args)) by (induction Hev; cbn [map]; constructor; assumption).
    pose proof (gather_cv _ Hm) as G. destruct (gather (map ev args)); [apply apply_fn_cvo; exact G|exact I]. }
  unfold call_common.
  destruct (String.eqb f "IF").
  { destruct args as [|a1 [|a2 [|a3 [|a4 r]]]]; try exact Heager.
    inversion Hev as [|? ? H1 Hr1]; subst. inversion Hr1 as [|? ? H2 Hr2]; subst. inversion Hr2 as [|? ? H3 Hr3]; subst.
    destruct (ev a1) as [v|i|k]; [destruct (py_truth v); assumption|assumption|exact I]. }
  destruct (String.eqb f "AVAILABLE").
  { destruct args as [|a1 [|a2 r]]; try exact Heager.
    destruct (ev a1) as [v|i|k]; try reflexivity. apply on_failure_cvo. reflexivity. }
  destruct (String.eqb f "DEFAULT").
  { destruct args as [|a1 [|a2 [|a3 r]]]; try exact Heager.
    inversion Hev as [|? ? H1 Hr1]; subst. inversion Hr1 as [|? ? H2 Hr2]; subst.
    destruct (ev a1) as [v|i|k] eqn:E1; [exact H1|exact I|apply on_failure_cvo; exact H2]. }
  exact Heager.
Qed.

Lemma and_loop_cvo ev l : cvo (and_loop_on ev l).
Proof. induction l as [|a r IH]; cbn [and_loop_on]; [reflexivity|]. destruct (ev a) as [v|i|k]; [destruct (py_truth v); [exact IH|reflexivity]|exact IH|exact I]. Qed.

Lemma or_loop_cvo ev l : cvo (or_loop_on ev l).
Proof. induction l as [|a r IH]; cbn [or_loop_on]; [reflexivity|]. destruct (ev a) as [v|i|k]; [destruct (py_truth v); [reflexivity|exact IH]|reflexivity|exact I]. Qed.

(* canonical context: every port value and the own last value are canonical; canonical literals *)
Definition ctx_canonical (c : ctx) : bool :=
  forallb (fun kv => match snd kv with Some v => canonical_val v | None => true end) (port_values c)
  && match self_last c with Some v => canonical_val v | None => true end.

Fixpoint lits_canonical (e : expr) : bool :=
  match e with
  | Lit (Some v) => canonical_val v
  | Call _ args => forallb lits_canonical args
  | _ => true
  end.

Lemma assoc_cv id l v :
  forallb (fun kv : string * option pyval => match snd kv with Some v => canonical_val v | None => true end) l = true ->
  assoc id l = Some (Some v) -> cv v = true.
Proof.
  induction l as [|[k w] r IH]; cbn [assoc forallb]; intros H E; [discriminate|].
  apply andb_true_iff in H. destruct H as [H1 H2]. destruct (String.eqb id k); [|apply IH; assumption].
  injection E as ->. exact H1.
Qed.

Lemma eval_port_value_cvo c id : ctx_canonical c = true -> cvo (eval_port_value c id).
Proof.
  intros H. apply andb_true_iff in H. destruct H as [H _]. unfold eval_port_value.
  destruct (assoc id (ports c)) as [[|]|]; try exact I.
  destruct (assoc id (port_values c)) as [[v|]|] eqn:E; try exact I. exact (assoc_cv _ _ _ H E).
Qed.

Theorem eval_canonical c e : ctx_canonical c = true -> lits_canonical e = true -> cvo (eval false c e).
Proof.
  intros Hc. induction e as [v|id| |id| |f args IH] using expr_ind'; intros Hl.
  - destruct v as [v|]; [|exact I]. cbn [eval]. apply of_pyres_cvo. apply py_float_cvr. exact Hl.
  - apply eval_port_value_cvo. exact Hc.
  - cbn [eval]. unfold eval_self_value. destruct (self_id c) as [id|]; [|exact I].
    destruct (transform_role c); [apply eval_port_value_cvo; exact Hc|].
    destruct (assoc id (ports c)) as [[|]|]; try exact I.
    apply andb_true_iff in Hc. destruct Hc as [_ Hs]. destruct (self_last c); [exact Hs|exact I].
  - cbn [eval]. unfold eval_port_ref. destruct (assoc id (ports c)); exact I.
  - cbn [eval]. destruct (self_id c); [|exact I]. unfold eval_port_ref. destruct (assoc _ (ports c)); exact I.
  - cbn [eval]. destruct (String.eqb f "AND"); [apply and_loop_cvo|]. destruct (String.eqb f "OR"); [apply or_loop_cvo|].
    apply call_common_cvo. cbn [lits_canonical] in Hl. rewrite forallb_forall in Hl. rewrite Forall_forall in *.
    intros a Ha. apply IH; [exact Ha|apply Hl; exact Ha].
Qed.

(* ------------------------------------------------------------------ with a canonical context and canonical literals the
   original premise (no NaN reaches MIN / MAX / SGN) is enough *)
Lemma all_cv_good vs : all_cv vs -> existsb is_nan_val vs = false -> forallb good_val vs = true.
Proof.
  induction vs as [|v vs IH]; cbn [all_cv existsb forallb]; intros H N; [reflexivity|].
  destruct H as [Hv Hr]. apply orb_false_iff in N. destruct N as [N1 N2].
  unfold good_val at 1. rewrite N1, Hv, (IH Hr N2). reflexivity.
Qed.

Theorem canonical_nan_free_good c e :
  ctx_canonical c = true -> lits_canonical e = true -> nan_sensitive_free c e = true -> sensitive_args_good c e = true.
Proof.
  intros Hc. unfold sensitive_args_good.
  induction e as [v|id| |id| |f args IH] using expr_ind'; intros Hl H; try reflexivity.
  cbn [sensitive_args_ok nan_sensitive_free lits_canonical] in *. apply andb_true_iff in H. destruct H as [Ha Hs].
  apply andb_true_iff. split.
  - rewrite forallb_forall in *. rewrite Forall_forall in IH. intros a Hin. apply IH; [exact Hin|apply Hl; exact Hin|apply Ha; exact Hin].
  - destruct (nan_sensitive f); [|reflexivity].
    assert (Hm : Forall cvo (map (eval false c) args)).
    { rewrite forallb_forall in Hl. clear -Hc Hl. induction args as [|a r IHr]; cbn [map]; constructor.
      - apply eval_canonical; [exact Hc|apply Hl; left; reflexivity].
      - apply IHr. intros x Hx. apply Hl. right. exact Hx. }
    pose proof (gather_cv _ Hm) as G.
    destruct (gather (map (eval false c) args)) as [vs|ks]; [|reflexivity].
    apply all_cv_good; [exact G|]. apply negb_true_iff in Hs. exact Hs.
Qed.

Theorem eval_matches_reference_canonical c e :
  ctx_canonical c = true -> lits_canonical e = true -> nan_sensitive_free c e = true -> eval false c e = sem c e.
Proof. intros Hc Hl Hn. apply eval_matches_reference_closed. apply canonical_nan_free_good; assumption. Qed.

(* the value of an expression over a canonical context is canonical *)
Corollary eval_value_canonical c e v :
  ctx_canonical c = true -> lits_canonical e = true -> eval false c e = Val v -> canonical_val v = true.
Proof. intros Hc Hl E. pose proof (eval_canonical c e Hc Hl) as H. rewrite E in H. exact H. Qed.
