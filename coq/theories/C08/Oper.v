(* C08 — operations (insert / update / replace / remove): definitions only.

   An operation of the driver changes the in-memory store and calls _save.  Its control skeleton is regenerated from
   json.py as an operation tree (Gen/C08Gen.v: op_trees); a path through it is a list of steps: OMem (some in-memory
   change, possibly a whole loop over records that contains no save) and OSave (one complete run of save_prog on the
   current in-memory store).  The property needs every path to contain at most one save, with nothing after it
   (one_save_last): then the crash states of the OPERATION are the crash states of that single save. *)
From QT Require Export C08.Spec.

Inductive ostep := OMem | OSave.

Inductive oprog :=
| PMem                       (* statements that contain neither a save nor a return/raise *)
| PSave                      (* self._save(self._unindex(self._data)) *)
| PExit                      (* return / raise *)
| PSkip
| PSeq (a b : oprog)
| PIf (a b : oprog)
| PLoop (body : oprog).      (* a loop whose body contains a save *)

(* a path: its steps and whether it has left the operation *)
Definition seqp (la lb : list (list ostep * bool)) : list (list ostep * bool) :=
  flat_map (fun pa : list ostep * bool =>
              if snd pa then [pa] else map (fun pb : list ostep * bool => (fst pa ++ fst pb, snd pb)) lb) la.

Fixpoint paths (t : oprog) : list (list ostep * bool) :=
  match t with
  | PMem => [([OMem], false)]
  | PSave => [([OSave], false)]
  | PExit => [([], true)]
  | PSkip => [([], false)]
  | PSeq a b => seqp (paths a) (paths b)
  | PIf a b => paths a ++ paths b
  | PLoop b => let pb := paths b in ([], false) :: pb ++ seqp pb pb     (* zero, one, two iterations *)
  end.

Fixpoint one_save_last (p : list ostep) : bool :=
  match p with
  | [] => true
  | OMem :: r => one_save_last r
  | OSave :: r => match r with [] => true | _ => false end
  end.

Definition tree_ok (t : oprog) : bool := forallb (fun p : list ostep * bool => one_save_last (fst p)) (paths t).

Definition has_save (t : oprog) : bool := existsb (fun p : list ostep * bool => existsb (fun s => match s with OSave => true | OMem => false end) (fst p)) (paths t).

Section Oper.
  Variable data : Type.
  Variable ser : data -> bytes.
  Variable chg : nat -> data -> data.      (* the i-th in-memory change of this execution *)

  Fixpoint op_mem (p : list ostep) (i : nat) (mem : data) : data :=
    match p with
    | [] => mem
    | OMem :: r => op_mem r (S i) (chg i mem)
    | OSave :: r => op_mem r i mem
    end.

  (* every file-system state in which the process can die while the operation runs *)
  Fixpoint op_crash_states (sp : list op) (ub : bool) (p : list ostep) (i : nat) (mem : data) (s : fs bytes)
    : list (fs bytes) :=
    match p with
    | [] => [s]
    | OMem :: r => op_crash_states sp ub r (S i) (chg i mem) s
    | OSave :: r =>
        crash_states_c (ser mem) ub sp 0 s
        ++ match run_c (ser mem) ub sp 0 s with Some s' => op_crash_states sp ub r i mem s' | None => [] end
    end.

  (* the files after the complete operation; None = a save raised *)
  Fixpoint op_run (sp : list op) (ub : bool) (p : list ostep) (i : nat) (mem : data) (s : fs bytes) : option (fs bytes) :=
    match p with
    | [] => Some s
    | OMem :: r => op_run sp ub r (S i) (chg i mem) s
    | OSave :: r => match run_c (ser mem) ub sp 0 s with Some s' => op_run sp ub r i mem s' | None => None end
    end.
End Oper.
