(* C08 — the decoder hypotheses hold for framed decoders and for the toy instance. *)
From QT Require Import C08.Framing.
Open Scope Z_scope.

Section Frame.
  Variable depth : bytes -> Z.
  Variable data : Type.
  Variable ser : data -> bytes.
  Variable parse0 : bytes -> option data.
  Hypothesis parse0_ser : forall d, parse0 (ser d) = Some d.
  Hypothesis ser_closed : forall d, closed_at_end depth (ser d) = true.

  Lemma framed_ser : forall d, framed depth parse0 (ser d) = Some d.
  Proof. intro d. unfold framed. rewrite ser_closed. apply parse0_ser. Qed.

  Lemma framed_nil : framed depth parse0 [] = None.
  Proof. reflexivity. Qed.

  (* no proper non-empty prefix of a serialised store is accepted *)
  Lemma framed_prefix : forall d k, (0 < k < List.length (ser d))%nat -> framed depth parse0 (firstn k (ser d)) = None.
  Proof.
    intros d k Hk. unfold framed. destruct (closed_at_end depth (firstn k (ser d))) eqn:E; [exfalso | reflexivity].
    unfold closed_at_end in E. apply andb_prop in E. destruct E as [E _]. apply andb_prop in E. destruct E as [_ E].
    apply Z.eqb_eq in E.
    pose proof (ser_closed d) as C. unfold closed_at_end in C. apply andb_prop in C. destruct C as [_ C].
    rewrite forallb_forall in C. assert (Hin : In k (seq 1 (List.length (ser d) - 1))) by (apply in_seq; lia).
    specialize (C k Hin). apply Z.ltb_lt in C. lia.
  Qed.
End Frame.

(* the toy instance *)
Lemma toy_body_ser : forall n, toy_body (repeat 49 n ++ [125]) = Some n.
Proof. induction n as [|n IH]; [reflexivity|]. cbn [repeat app toy_body]. rewrite IH. reflexivity. Qed.

Lemma toy_parse_ser : forall n, toy_parse (toy_ser n) = Some n.
Proof. intro n. unfold toy_ser, toy_parse. change (123 =? 123) with true. cbv iota. apply toy_body_ser. Qed.

Lemma toy_parse_nil : toy_parse [] = None.
Proof. reflexivity. Qed.

Lemma toy_body_prefix : forall n k, (k < S n)%nat -> toy_body (firstn k (repeat 49 n ++ [125])) = None.
Proof.
  induction n as [|n IH]; intros k Hk.
  - assert (k = O) by lia. subst k. reflexivity.
  - destruct k as [|k]; [reflexivity|]. cbn [repeat app firstn toy_body].
    change (49 =? 125) with false. change (49 =? 49) with true. cbv iota. rewrite IH by lia. reflexivity.
Qed.

Lemma toy_length : forall n, List.length (toy_ser n) = S (S n).
Proof. intro n. unfold toy_ser. cbn [List.length]. rewrite app_length, repeat_length. simpl. lia. Qed.

Lemma toy_parse_prefix : forall n k, (0 < k < List.length (toy_ser n))%nat -> toy_parse (firstn k (toy_ser n)) = None.
Proof.
  intros n k Hk. rewrite toy_length in Hk. destruct k as [|k]; [lia|].
  unfold toy_ser. cbn [firstn toy_parse]. change (123 =? 123) with true. cbv iota. apply toy_body_prefix. lia.
Qed.

(* the driver's file shape is closed exactly at its end (braces inside string literals do not count) *)
Example json_shape_closed :
  closed_at_end json_depth
    (string_to_bytes "{""ports"": [{""id"": ""p1"", ""name"": ""a}{\\\""b""}], ""device"": []}") = true.
Proof. vm_compute. reflexivity. Qed.
