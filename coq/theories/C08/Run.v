(* C08 — dispatch used by the generated case files of the harness.

   One case = one save observed on the real JSONDriver:
     ub        use_backup
     init      abstract contents of (data, backup, temp) before the save: 0 absent, 2 holds pre, 5 anything
     tr        the file operations _save performed, coded kind*100 + file*10 + file2
               (1 rename, 2 remove, 3 create, 4 write, 5 flush, 6 fsync, 7 close; files 1 data, 2 backup, 3 temp)
     crashes   the distinct crash states materialised by the harness, each as
               ((mask data, mask backup, mask temp), outcome)  where a content mask is 0 = absent or a sum of
               1 empty, 2 = the bytes holding pre, 4 = the payload, 8 = proper non-empty prefix of the payload, 16 other,
               and outcome (what a fresh driver loaded) is a sum of 1 = pre, 2 = post, 4 = empty store, 8 = other, 16 = failure.
   bad_trace / bad_states / bad_load: cases where the model regenerated from json.py (save_prog, load_prog) differs from
   what the implementation did;  bad_spec: cases where the implementation contradicts the specification oracle. *)
From QT Require Export C08.Spec C08.Framing.
From QT Require Import Gen.C08Gen.
Open Scope Z_scope.

Definition fcode (f : fname) : Z := match f with FData => 1 | FBackup => 2 | FTemp => 3 end.

Definition op_code (o : op) : Z :=
  match o with
  | ORename a b => 100 + fcode a * 10 + fcode b
  | ORemove f => 200 + fcode f * 10
  | OCreate f => 300 + fcode f * 10
  | OWrite f => 400 + fcode f * 10
  | OFlush f => 500 + fcode f * 10
  | OFsync f => 600 + fcode f * 10
  | OClose f => 700 + fcode f * 10
  | OSkipUnless _ _ => 0
  end.

Definition acont_of (z : Z) : option acont :=
  match z with 1 => Some AEmpty | 2 => Some APre | 3 => Some APost | 4 => Some APart | 5 => Some AJunk | _ => None end.

Definition decode (i : Z * Z * Z) : fs acont := let '(d, b, t) := i in mkfs (acont_of d) (acont_of b) (acont_of t).

Definition shape (s : fs acont) : fs unit :=
  let u (x : option acont) := match x with Some _ => Some tt | None => None end in
  mkfs (u (fdata s)) (u (fbackup s)) (u (ftemp s)).

Definition cont_matches (a : option acont) (m : Z) : bool :=
  match a with
  | None => m =? 0
  | Some AEmpty => Z.testbit m 0
  | Some APre => Z.testbit m 1
  | Some APost => Z.testbit m 2
  | Some APart => Z.testbit m 3
  | Some AJunk => negb (m =? 0)
  end.

Definition state_matches (s : fs acont) (m : Z * Z * Z) : bool :=
  let '(d, b, t) := m in cont_matches (fdata s) d && cont_matches (fbackup s) b && cont_matches (ftemp s) t.

Definition outcome_matches (r : lres adata) (o : Z) : bool :=
  match r with
  | LOk DPre => Z.testbit o 0
  | LOk DPost => Z.testbit o 1
  | LOk DEmpty => Z.testbit o 2
  | LFail => Z.testbit o 4
  | LUnknown => true
  end.

Definition case := (bool * (Z * Z * Z) * list Z * list (Z * Z * Z * Z))%type.

Definition trace_ok (c : case) : bool :=
  let '(ub, init, tr, _) := c in
  list_eqb Z.eqb (map op_code (trace_u ub save_prog 0 (shape (decode init)))) tr.

(* every observed crash state is one the model predicts, and every predicted one has been observed *)
Definition states_ok (c : case) : bool :=
  let '(ub, init, _, crashes) := c in
  let model := crash_states_a ub save_prog 0 (decode init) in
  forallb (fun '(m, _) => existsb (fun s => state_matches s m) model) crashes
  && forallb (fun s => existsb (fun '(m, _) => state_matches s m) crashes) model.

(* on every observed crash state the load tree answers what the real _load answered *)
Definition load_ok (c : case) : bool :=
  let '(ub, init, _, crashes) := c in
  let model := crash_states_a ub save_prog 0 (decode init) in
  forallb (fun '(m, o) =>
             forallb (fun s => if state_matches s m then outcome_matches (load_a ub load_prog s) o else true) model)
          crashes.

Definition case_spec_ok (c : case) : bool := let '(_, _, _, crashes) := c in forallb (fun '(_, o) => spec_ok o) crashes.

Definition bad_trace (cases : list case) : list nat := mismatches trace_ok cases 0.
Definition bad_states (cases : list case) : list nat := mismatches states_ok cases 0.
Definition bad_load (cases : list case) : list nat := mismatches load_ok cases 0.
Definition bad_spec (cases : list case) : list nat := mismatches case_spec_ok cases 0.

(* payloads written by the real driver that are NOT closed exactly at their last byte (framing premise, Framing.v) *)
Definition bad_frame (payloads : list bytes) : list nat := mismatches (closed_at_end json_depth) payloads 0.
