(* C08 — soundness of the decision procedure of Check.v.

   For an arbitrary data type, serialiser and decoder satisfying
       parse (ser d) = Some d,   parse [] = None,   no proper non-empty prefix of ser d parses,
   every concrete crash state of a save program is described by an abstract crash state (simulation, by induction on the
   program), and the abstract load result determines the concrete one (by induction on the load tree).  Hence: if
   check_all sp lp = true then the save program sp with the load tree lp is crash-atomic and durable, for every pre, post,
   use_backup flag, every crash point and every byte prefix. *)
From QT Require Import C08.Check.

Section Abs.
  Variable data : Type.
  Variable ser : data -> bytes.
  Variable parse : bytes -> option data.
  Variable d_empty : data.
  Hypothesis parse_ser : forall d, parse (ser d) = Some d.
  Hypothesis parse_nil : parse [] = None.
  Hypothesis parse_prefix : forall d k, (0 < k < List.length (ser d))%nat -> parse (firstn k (ser d)) = None.

  Lemma ser_nonempty : forall d, ser d <> [].
  Proof. intros d H. pose proof (parse_ser d) as P. rewrite H, parse_nil in P. discriminate. Qed.

  Notation holds := (holds data ser d_empty).
  Notation loadc := (load_c data parse d_empty).

  Section Pair.
    Variables pre post : data.
    Let w := ser post.

    (* concretisation *)
    Definition gam (a : acont) (c : bytes) : Prop :=
      match a with
      | AEmpty => c = []
      | APre => c = ser pre
      | APost => c = ser post
      | APart => exists k, (0 < k < List.length (ser post))%nat /\ c = firstn k (ser post)
      | AJunk => True
      end.

    Definition ogam (a : option acont) (c : option bytes) : Prop :=
      match a, c with
      | None, None => True
      | Some a, Some c => gam a c
      | _, _ => False
      end.

    Definition sgam (sa : fs acont) (s : fs bytes) : Prop :=
      ogam (fdata sa) (fdata s) /\ ogam (fbackup sa) (fbackup s) /\ ogam (ftemp sa) (ftemp s).

    Lemma sgam_fget : forall sa s f, sgam sa s -> ogam (fget sa f) (fget s f).
    Proof. intros sa s f (H1 & H2 & H3). destruct f; assumption. Qed.

    Lemma sgam_fset : forall sa s f va v, sgam sa s -> ogam va v -> sgam (fset sa f va) (fset s f v).
    Proof. intros sa s f va v (H1 & H2 & H3) H. destruct f; unfold sgam; simpl; auto. Qed.

    Lemma exists_sim : forall sa s f, sgam sa s -> exists_ sa f = exists_ s f.
    Proof.
      intros sa s f H. unfold exists_. pose proof (sgam_fget _ _ f H) as G.
      destruct (fget sa f), (fget s f); simpl in G; try contradiction; reflexivity.
    Qed.

    Lemma eval_cond_sim : forall ub sa s c, sgam sa s -> eval_cond ub sa c = eval_cond ub s c.
    Proof.
      intros ub sa s c H. induction c; simpl; try reflexivity.
      - apply exists_sim; assumption.
      - now rewrite IHc.
      - now rewrite IHc1, IHc2.
      - now rewrite IHc1, IHc2.
    Qed.

    Definition orel (oa : option (fs acont)) (oc : option (fs bytes)) : Prop :=
      match oa, oc with
      | Some sa, Some s => sgam sa s
      | None, None => True
      | _, _ => False
      end.

    Lemma write_final_gam : forall a c, gam a c -> gam (snd (a_write a)) (c ++ w).
    Proof. intros a c H. destruct a; simpl in *; try exact I. subst c. reflexivity. Qed.

    Lemma write_prefix_gam : forall a c k, gam a c -> exists a', In a' (fst (a_write a)) /\ gam a' (c ++ firstn k w).
    Proof.
      intros a c k H. destruct a; simpl in *; try (exists AJunk; split; [left; reflexivity | exact I]).
      subst c. simpl. unfold w in *. destruct k as [|k].
      - exists AEmpty. split; [left; reflexivity | reflexivity].
      - destruct (Nat.lt_ge_cases (S k) (List.length w)) as [Hlt | Hge].
        + exists APart. split; [right; left; reflexivity |]. exists (S k). unfold w in Hlt. split; [lia | reflexivity].
        + exists APost. split; [right; right; left; reflexivity |]. unfold w in Hge. unfold gam. apply firstn_all2. exact Hge.
    Qed.

    Lemma step_sim : forall o sa s, sgam sa s ->
      orel (step (C := acont) AEmpty a_write o sa) (step (C := bytes) [] (bytes_write w) o s).
    Proof.
      intros o sa s H.
      assert (K : forall f, match fget sa f, fget s f with
                            | Some a, Some c => gam a c | None, None => True | _, _ => False end).
      { intro f. exact (sgam_fget _ _ f H). }
      destruct o as [a b | f | f | f | f | f | f | c n]; simpl.
      - specialize (K a). destruct (fget sa a), (fget s a); try contradiction; simpl; [| exact I].
        apply sgam_fset; [apply sgam_fset; assumption | exact I].
      - specialize (K f). destruct (fget sa f), (fget s f); try contradiction; simpl; [| exact I].
        apply sgam_fset; [assumption | exact I].
      - apply sgam_fset; [assumption | simpl; reflexivity].
      - specialize (K f). destruct (fget sa f), (fget s f); try contradiction; simpl; [| exact I].
        apply sgam_fset; [assumption |]. simpl. apply write_final_gam. assumption.
      - specialize (K f). destruct (fget sa f), (fget s f); try contradiction; simpl; [assumption | exact I].
      - specialize (K f). destruct (fget sa f), (fget s f); try contradiction; simpl; [assumption | exact I].
      - specialize (K f). destruct (fget sa f), (fget s f); try contradiction; simpl; [assumption | exact I].
      - assumption.
    Qed.

    Lemma during_sim : forall o sa s, sgam sa s -> forall s', In s' (during (C := bytes) (bytes_write w) o s) ->
      exists sa', In sa' (during a_write o sa) /\ sgam sa' s'.
    Proof.
      intros o sa s H s' Hin.
      assert (Triv : s' = s -> exists sa', In sa' (during a_write o sa) /\ sgam sa' s').
      { intros ->. exists sa. split; [| assumption]. destruct o; simpl; try (left; reflexivity).
        destruct (fget sa f); left; reflexivity. }
      destruct o; try (simpl in Hin; destruct Hin as [<- | []]; apply Triv; reflexivity).
      pose proof (sgam_fget _ _ f H) as G. unfold during in Hin.
      destruct (fget sa f) as [a|] eqn:Ea, (fget s f) as [c|] eqn:Ec; simpl in G; try contradiction.
      - destruct Hin as [<- | Hin]; [apply Triv; reflexivity |].
        unfold bytes_write in Hin. cbn [fst] in Hin.
        apply in_map_iff in Hin. destruct Hin as (c' & <- & Hin).
        apply in_map_iff in Hin. destruct Hin as (p & <- & Hin). unfold prefixes in Hin.
        apply in_map_iff in Hin. destruct Hin as (k & <- & _).
        destruct (write_prefix_gam a c k G) as (a' & Ha' & Hg).
        exists (fset sa f (Some a')). split.
        + unfold during. rewrite Ea. right. apply (in_map (fun c' => fset sa f (Some c'))). exact Ha'.
        + apply sgam_fset; assumption.
      - destruct Hin as [<- | []]. apply Triv. reflexivity.
    Qed.

    Lemma crash_sim : forall ub p skip sa s, sgam sa s ->
      forall s', In s' (crash_states_c w ub p skip s) -> exists sa', In sa' (crash_states_a ub p skip sa) /\ sgam sa' s'.
    Proof.
      unfold crash_states_c, crash_states_a.
      intros ub p. induction p as [|o r IH]; intros skip sa s H s' Hin; simpl in *.
      - destruct Hin as [<- | []]. exists sa. split; [left; reflexivity | assumption].
      - destruct skip as [|k]; [| apply IH with (s := s); assumption].
        apply in_app_or in Hin. destruct Hin as [Hin | Hin].
        + destruct (during_sim o sa s H s' Hin) as (sa' & Hi & Hg). exists sa'. split; [apply in_or_app; left|]; assumption.
        + assert (Gen : forall oa oc, orel oa oc ->
                    In s' (match oc with Some s1 => crash_states (C := bytes) [] (bytes_write w) ub r 0 s1 | None => [] end) ->
                    exists sa', In sa' (match oa with Some sa1 => crash_states AEmpty a_write ub r 0 sa1 | None => [] end)
                                /\ sgam sa' s').
          { intros oa oc Hr Hi. destruct oa, oc; simpl in Hr; try contradiction.
            apply IH with (s := f0); assumption. }
          pose proof (step_sim o sa s H) as Hs.
          destruct o;
            try (destruct (Gen _ _ Hs Hin) as (sa' & Hi & Hg); exists sa'; split; [apply in_or_app; right|]; assumption).
          rewrite <- (eval_cond_sim ub sa s c H) in Hin.
          destruct (IH _ sa s H s' Hin) as (sa' & Hi & Hg). exists sa'. split; [apply in_or_app; right|]; assumption.
    Qed.

    Lemma run_sim : forall ub p skip sa s, sgam sa s -> orel (run_a ub p skip sa) (run_c w ub p skip s).
    Proof.
      unfold run_c, run_a.
      intros ub p. induction p as [|o r IH]; intros skip sa s H; simpl.
      - assumption.
      - destruct skip as [|k]; [| apply IH; assumption].
        pose proof (step_sim o sa s H) as Hs.
        destruct o;
          try (destruct (step (C := acont) AEmpty a_write _ sa), (step (C := bytes) [] (bytes_write w) _ s); simpl in Hs; try contradiction;
               [apply IH; assumption | exact I]).
        rewrite (eval_cond_sim ub sa s c H). apply IH. assumption.
    Qed.

    (* load *)
    Definition lrel (ra : lres adata) (rc : lres data) : Prop :=
      match ra with
      | LOk DPre => rc = LOk pre
      | LOk DPost => rc = LOk post
      | LOk DEmpty => rc = LOk d_empty
      | LFail => rc = LFail
      | LUnknown => True
      end.

    Lemma firstn_nonempty : forall (l : bytes) k, (0 < k < List.length l)%nat -> firstn k l <> [].
    Proof. intros l k Hk. destruct l; simpl in Hk; [lia|]. destruct k; [lia|]. simpl. discriminate. Qed.

    Lemma load_sim : forall ub lp sa s, sgam sa s -> lrel (load_a ub lp sa) (loadc ub lp s).
    Proof.
      unfold load_a, load_c.
      intros ub lp sa s H. induction lp as [| | f a IHa b IHb | f a IHa b IHb | a IHa b IHb | f e IHe]; simpl.
      - reflexivity.
      - reflexivity.
      - rewrite (exists_sim sa s f H). destruct (exists_ s f); assumption.
      - pose proof (sgam_fget _ _ f H) as G.
        destruct (fget sa f) as [x|], (fget s f) as [c|]; simpl in G; try contradiction; [| reflexivity].
        destruct x; simpl in *.
        + subst c. simpl. assumption.
        + subst c. destruct (ser pre) eqn:E; [exfalso; eapply ser_nonempty; eassumption | assumption].
        + subst c. destruct (ser post) eqn:E; [exfalso; eapply ser_nonempty; eassumption | assumption].
        + destruct G as (k & Hk & ->). pose proof (firstn_nonempty _ _ Hk) as Hn.
          destruct (firstn k (ser post)); [congruence | assumption].
        + exact I.
      - destruct ub; assumption.
      - pose proof (sgam_fget _ _ f H) as G.
        destruct (fget sa f) as [x|], (fget s f) as [c|]; simpl in G; try contradiction; [| reflexivity].
        unfold bytes_parse. destruct x; simpl in *.
        + subst c. rewrite parse_nil. assumption.
        + subst c. rewrite parse_ser. reflexivity.
        + subst c. rewrite parse_ser. reflexivity.
        + destruct G as (k & Hk & ->). rewrite (parse_prefix _ _ Hk). assumption.
        + exact I.
    Qed.

    (* initial states and the per-state test *)
    Lemma holds_init : forall ub s, holds ub pre s ->
      exists pe sa, (pe = true -> pre = d_empty) /\ In sa (a_inits ub pe) /\ sgam sa s.
    Proof.
      intros ub [D B T]. unfold holds. simpl.
      intros [HD | [(Hub & HD & HB) | (He & HD & HB)]]; subst.
      - exists false.
        exists (mkfs (Some APre) (match B with Some _ => Some AJunk | None => None end)
                     (match T with Some _ => Some AJunk | None => None end)).
        split; [discriminate|]. split.
        + destruct B, T; simpl; auto 10.
        + unfold sgam. simpl. destruct B, T; simpl; auto.
      - exists false. exists (mkfs None (Some APre) (match T with Some _ => Some AJunk | None => None end)).
        split; [discriminate|]. split.
        + destruct T; simpl; auto 10.
        + unfold sgam. simpl. destruct T; simpl; auto.
      - exists true. exists (mkfs None None (match T with Some _ => Some AJunk | None => None end)).
        split; [reflexivity|]. split.
        + destruct ub, T; simpl; auto 10.
        + unfold sgam. simpl. destruct T; simpl; auto.
    Qed.

    Lemma a_holds_pre_sound : forall ub pe sa s,
      a_holds_pre ub pe sa = true -> sgam sa s -> (pe = true -> pre = d_empty) -> holds ub pre s.
    Proof.
      intros ub pe [ad ab at_] [D B T] Hc (H1 & H2 & _) Hpe. unfold a_holds_pre in Hc. unfold holds. simpl in *.
      destruct ad as [x|].
      - destruct x; try discriminate. destruct D; simpl in H1; [| contradiction]. left. congruence.
      - destruct D; simpl in H1; [contradiction|].
        destruct ab as [y|].
        + destruct y; try discriminate. destruct B; simpl in H2; [| contradiction]. right. left. subst. auto.
        + destruct B; simpl in H2; [contradiction|]. right. right. auto.
    Qed.

    Lemma a_holds_post_sound : forall ub sa s, a_holds_post ub sa = true -> sgam sa s -> holds ub post s.
    Proof.
      intros ub [ad ab at_] [D B T] Hc (H1 & H2 & _). unfold a_holds_post in Hc. unfold holds. simpl in *.
      destruct ad as [x|].
      - destruct x; try discriminate. destruct D; simpl in H1; [| contradiction]. left. congruence.
      - destruct D; simpl in H1; [contradiction|].
        destruct ab as [y|]; [| discriminate].
        destruct y; try discriminate. destruct B; simpl in H2; [| contradiction]. right. left. subst. auto.
    Qed.

    Lemma state_ok_sound : forall ub pe lp sa s,
      a_state_ok ub pe lp sa = true -> sgam sa s -> (pe = true -> pre = d_empty) ->
      (loadc ub lp s = LOk pre /\ holds ub pre s) \/ (loadc ub lp s = LOk post /\ holds ub post s).
    Proof.
      intros ub pe lp sa s Hc H Hpe. unfold a_state_ok in Hc. pose proof (load_sim ub lp sa s H) as L.
      destruct (load_a ub lp sa) as [[]| |]; try discriminate; simpl in L.
      - left. split; [assumption | eapply a_holds_pre_sound; eassumption].
      - right. split; [assumption | eapply a_holds_post_sound; eassumption].
      - apply andb_prop in Hc. destruct Hc as [Hp Hc]. left. split.
        + rewrite L. rewrite (Hpe Hp). reflexivity.
        + eapply a_holds_pre_sound; eassumption.
    Qed.

    Lemma check_all_one : forall sp lp ub pe sa,
      check_all sp lp = true -> In sa (a_inits ub pe) -> check_one sp lp ub pe sa = true.
    Proof.
      intros sp lp ub pe sa Hc Hin. unfold check_all in Hc. rewrite forallb_forall in Hc.
      assert (Hub : In ub [false; true]) by (destruct ub; simpl; auto).
      specialize (Hc ub Hub). rewrite forallb_forall in Hc.
      assert (Hpe : In pe [false; true]) by (destruct pe; simpl; auto).
      specialize (Hc pe Hpe). rewrite forallb_forall in Hc. apply Hc. assumption.
    Qed.

    Theorem crash_atomic_pair : forall sp lp, check_all sp lp = true ->
      forall ub s s', holds ub pre s -> In s' (crash_states_c (ser post) ub sp 0 s) ->
        (loadc ub lp s' = LOk pre /\ holds ub pre s') \/ (loadc ub lp s' = LOk post /\ holds ub post s').
    Proof.
      intros sp lp Hc ub s s' Hh Hin.
      destruct (holds_init ub s Hh) as (pe & sa & Hpe & Hsa & Hg).
      pose proof (check_all_one sp lp ub pe sa Hc Hsa) as H1. unfold check_one in H1.
      apply andb_prop in H1. destruct H1 as [H1 _]. rewrite forallb_forall in H1.
      destruct (crash_sim ub sp 0 sa s Hg s' Hin) as (sa' & Hi & Hg').
      eapply state_ok_sound; [apply H1; exact Hi | exact Hg' | exact Hpe].
    Qed.

    Theorem durable_pair : forall sp lp, check_all sp lp = true ->
      forall ub s, holds ub pre s ->
        exists s', run_c (ser post) ub sp 0 s = Some s' /\ holds ub post s' /\ loadc ub lp s' = LOk post.
    Proof.
      intros sp lp Hc ub s Hh.
      destruct (holds_init ub s Hh) as (pe & sa & Hpe & Hsa & Hg).
      pose proof (check_all_one sp lp ub pe sa Hc Hsa) as H1. unfold check_one in H1.
      apply andb_prop in H1. destruct H1 as [_ H1]. unfold a_run_ok in H1.
      pose proof (run_sim ub sp 0 sa s Hg) as R. fold w.
      destruct (run_a ub sp 0 sa) as [sa'|]; [| discriminate].
      destruct (run_c w ub sp 0 s) as [s'|]; simpl in R; [| contradiction].
      apply andb_prop in H1. destruct H1 as [Hp Hl].
      exists s'. split; [reflexivity|]. split; [eapply a_holds_post_sound; eassumption|].
      pose proof (load_sim ub lp sa' s' R) as L. destruct (load_a ub lp sa') as [[]| |]; try discriminate. exact L.
    Qed.
  End Pair.

  (* ------------------------------------------------------------------------------------------------------------ *)
  (* whole histories *)

  Lemma crash_states_head : forall w ub p (s : fs bytes), In s (crash_states_c w ub p 0 s).
  Proof.
    intros w ub p s. unfold crash_states_c. destruct p as [|o r]; simpl; [left; reflexivity|].
    apply in_or_app. left. destruct o; simpl; try (left; reflexivity). destruct (fget s f); left; reflexivity.
  Qed.

  Theorem holds_load : forall sp lp, check_all sp lp = true ->
    forall ub d s, holds ub d s -> loadc ub lp s = LOk d.
  Proof.
    intros sp lp Hc ub d s Hh.
    destruct (crash_atomic_pair d d sp lp Hc ub s s Hh (crash_states_head _ _ _ _)) as [[L _] | [L _]]; exact L.
  Qed.

  Theorem reach_holds : forall sp lp, check_all sp lp = true ->
    forall ub d s, reach data ser d_empty parse sp lp ub d s -> holds ub d s.
  Proof.
    intros sp lp Hc ub d s R. induction R as [| d d' s s' R IH Hrun | d d' d'' s s' R IH Hin Hl].
    - right. right. simpl. auto.
    - destruct (durable_pair d d' sp lp Hc ub s IH) as (s'' & Hr & Hh & _). rewrite Hrun in Hr.
      injection Hr as <-. exact Hh.
    - destruct (crash_atomic_pair d d' sp lp Hc ub s s' IH Hin) as [[L Hh] | [L Hh]];
        rewrite Hl in L; injection L as ->; exact Hh.
  Qed.

  Theorem crash_atomic_reach : forall sp lp, check_all sp lp = true ->
    forall ub d s, reach data ser d_empty parse sp lp ub d s ->
      loadc ub lp s = LOk d
      /\ forall d' s', In s' (crash_states_c (ser d') ub sp 0 s) -> atomic data (loadc ub lp s') d d'.
  Proof.
    intros sp lp Hc ub d s R. pose proof (reach_holds sp lp Hc ub d s R) as Hh. split.
    - eapply holds_load; eassumption.
    - intros d' s' Hin. destruct (crash_atomic_pair d d' sp lp Hc ub s s' Hh Hin) as [[L _] | [L _]];
        [left | right]; exact L.
  Qed.

  Theorem durable_reach : forall sp lp, check_all sp lp = true ->
    forall ub d s, reach data ser d_empty parse sp lp ub d s ->
      forall d', exists s', run_c (ser d') ub sp 0 s = Some s' /\ loadc ub lp s' = LOk d'
                           /\ reach data ser d_empty parse sp lp ub d' s'.
  Proof.
    intros sp lp Hc ub d s R d'. pose proof (reach_holds sp lp Hc ub d s R) as Hh.
    destruct (durable_pair d d' sp lp Hc ub s Hh) as (s' & Hr & _ & L).
    exists s'. split; [exact Hr|]. split; [exact L|]. eapply reach_save; eassumption.
  Qed.
End Abs.
