(* C08 — the decision procedure accepts the save program and the load tree regenerated from json.py (Gen/C08Gen.v).
   Evaluated completely by vm_compute on every run; this is the obligation that fails when _save / _load stop being
   crash-atomic in the model. *)
From QT Require Import C08.Check Gen.C08Gen.

Lemma save_load_check : check_all save_prog load_prog = true.
Proof. vm_compute. reflexivity. Qed.
