(* C08 — the decision procedure accepts the save program and the load tree regenerated from json.py (Gen/C08Gen.v).
   Evaluated completely by vm_compute on every run; this is the obligation that fails when _save / _load stop being
   crash-atomic in the model. *)
From QT Require Import C08.Check C08.Oper Gen.C08Gen.

Lemma save_load_check : check_all save_prog load_prog = true.
Proof. vm_compute. reflexivity. Qed.

(* every path through every operation that saves (insert, update, replace, remove, ...) performs at most one save, as its last
   step: the operation's crash states are those of that one save *)
Lemma op_trees_check : forallb (fun nt : string * oprog => tree_ok (snd nt) && has_save (snd nt)) op_trees = true.
Proof. vm_compute. reflexivity. Qed.

Lemma op_tree_ok : forall name t, In (name, t) op_trees -> tree_ok t = true.
Proof.
  intros name t H. pose proof op_trees_check as C. rewrite forallb_forall in C. specialize (C _ H). simpl in C.
  apply andb_prop in C. exact (proj1 C).
Qed.
