(* C08 — serialiser shapes for which the three decoder hypotheses of the crash theorem hold (definitions only).

   closed_at_end depth c: the text c is non-empty, its nesting depth returns to zero exactly at its last byte and is
   positive after every proper non-empty prefix.  That is the shape of the JSON driver's file: one top-level object
   `{ ... }` with nothing after the closing brace.  A decoder that only accepts such texts (framed) rejects the empty text
   and every proper non-empty prefix of a serialised store (FramingThm.v), whatever the value decoder inside does.
   json_depth is the bracket depth of JSON text outside string literals.  toy_* is a complete small instance used for
   the non-vacuity example and for the witnesses in History/C08Old.v. *)
From QT Require Export C08.Model.
Open Scope Z_scope.

Definition closed_at_end (depth : bytes -> Z) (c : bytes) : bool :=
  negb (match c with [] => true | _ => false end) && (depth c =? 0)
  && forallb (fun k => 0 <? depth (firstn k c)) (seq 1 (List.length c - 1)).

Definition framed {data} (depth : bytes -> Z) (parse0 : bytes -> option data) (c : bytes) : option data :=
  if closed_at_end depth c then parse0 c else None.

(* bytes: 34 double quote, 92 backslash, 123 and 125 braces, 91 and 93 brackets *)
Fixpoint scan (c : bytes) (depth : Z) (instr esc : bool) : Z :=
  match c with
  | [] => depth
  | x :: r =>
      if instr then
        if esc then scan r depth true false
        else if x =? 92 then scan r depth true true
        else if x =? 34 then scan r depth false false
        else scan r depth true false
      else if x =? 34 then scan r depth true false
      else if (x =? 123) || (x =? 91) then scan r (depth + 1) false false
      else if (x =? 125) || (x =? 93) then scan r (depth - 1) false false
      else scan r depth false false
  end.

Definition json_depth (c : bytes) : Z := scan c 0 false false.

(* a complete toy instance: the store is a natural number n, written  { 1 1 ... 1 }  (n ones) *)
Definition toy_ser (n : nat) : bytes := 123 :: repeat 49 n ++ [125].

Fixpoint toy_body (c : bytes) : option nat :=
  match c with
  | [] => None
  | x :: r =>
      if x =? 125 then match r with [] => Some O | _ => None end
      else if x =? 49 then option_map S (toy_body r)
      else None
  end.

Definition toy_parse (c : bytes) : option nat :=
  match c with
  | x :: r => if x =? 123 then toy_body r else None
  | [] => None
  end.
