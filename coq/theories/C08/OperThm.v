(* C08 — operation-level atomicity: a path with at most one save, and nothing after it, is crash-atomic and durable. *)
From QT Require Import C08.Check C08.AbsThm C08.Oper.

Section OperThm.
  Variable data : Type.
  Variable ser : data -> bytes.
  Variable parse : bytes -> option data.
  Variable d_empty : data.
  Hypothesis parse_ser : forall d, parse (ser d) = Some d.
  Hypothesis parse_nil : parse [] = None.
  Hypothesis parse_prefix : forall d k, (0 < k < List.length (ser d))%nat -> parse (firstn k (ser d)) = None.
  Variable chg : nat -> data -> data.
  Variables (sp : list op) (lp : lprog).
  Hypothesis Hc : check_all sp lp = true.

  Notation holds := (holds data ser d_empty).
  Notation loadc := (load_c data parse d_empty).

  Theorem op_crash_atomic : forall ub pre p, one_save_last p = true ->
    forall i mem s s', holds ub pre s -> In s' (op_crash_states data ser chg sp ub p i mem s) ->
      (loadc ub lp s' = LOk pre /\ holds ub pre s')
      \/ (loadc ub lp s' = LOk (op_mem data chg p i mem) /\ holds ub (op_mem data chg p i mem) s').
  Proof.
    intros ub pre p. induction p as [|st r IH]; intros Hok i mem s s' Hh Hin.
    - simpl in Hin. destruct Hin as [<- | []]. left. split; [| exact Hh].
      eapply holds_load; eassumption.
    - destruct st; simpl in *.
      + eapply IH; eassumption.
      + destruct r; [| discriminate]. simpl.
        apply in_app_or in Hin. destruct Hin as [Hin | Hin].
        * eapply crash_atomic_pair; eassumption.
        * destruct (durable_pair data ser parse d_empty parse_ser parse_nil parse_prefix pre mem sp lp Hc ub s Hh)
            as (s2 & Hr & Hh2 & L).
          rewrite Hr in Hin. simpl in Hin. destruct Hin as [<- | []]. right. split; assumption.
  Qed.

  Theorem op_durable : forall ub pre p, one_save_last p = true -> existsb (fun s => match s with OSave => true | OMem => false end) p = true ->
    forall i mem s, holds ub pre s ->
      exists s', op_run data ser chg sp ub p i mem s = Some s'
                 /\ holds ub (op_mem data chg p i mem) s' /\ loadc ub lp s' = LOk (op_mem data chg p i mem).
  Proof.
    intros ub pre p. induction p as [|st r IH]; intros Hok Hs i mem s Hh.
    - discriminate.
    - destruct st; simpl in *.
      + eapply IH; eassumption.
      + destruct r; [| discriminate]. simpl.
        destruct (durable_pair data ser parse d_empty parse_ser parse_nil parse_prefix pre mem sp lp Hc ub s Hh)
          as (s2 & Hr & Hh2 & L).
        rewrite Hr. exists s2. auto.
  Qed.

  Lemma tree_ok_path : forall t p, tree_ok t = true -> In p (paths t) -> one_save_last (fst p) = true.
  Proof. intros t p H Hin. unfold tree_ok in H. rewrite forallb_forall in H. apply H. exact Hin. Qed.
End OperThm.
