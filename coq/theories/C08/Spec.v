(* C08 — specification, written independently of the save/load procedures.

   The store holds a value d : data.  What the property demands of a file-system state s' in which the process died while
   `post` was being saved over `pre`:   load s' = pre  or  load s' = post   (never a failure, never anything else).
   `holds ub d s` describes the file-system states that hold d at rest: the states in which a completed save (or a restart
   after a crash) leaves the files.  It is the pre-condition of the crash theorem and is re-established by it, so the theorem
   chains over whole histories (Reach, below).
   The executable part (spec_ok) is the oracle the harness evaluates on the outcomes observed on the real driver. *)
From QT Require Export C08.Model.

Section Spec.
  Variable data : Type.
  Variable ser : data -> bytes.
  Variable d_empty : data.

  Definition holds (ub : bool) (d : data) (s : fs bytes) : Prop :=
    fdata s = Some (ser d)
    \/ (ub = true /\ fdata s = None /\ fbackup s = Some (ser d))
    \/ (d = d_empty /\ fdata s = None /\ fbackup s = None).

  Definition atomic (r : lres data) (pre post : data) : Prop := r = LOk pre \/ r = LOk post.

  (* histories: complete saves, and saves interrupted by a crash followed by a restart (the store then holds what load
     returns).  reach sp lp ub d s: after some history the files are s and the running driver's store content is d. *)
  Variable parse : bytes -> option data.

  Inductive reach (sp : list op) (lp : lprog) (ub : bool) : data -> fs bytes -> Prop :=
  | reach_init : reach sp lp ub d_empty (mkfs None None None)
  | reach_save : forall d d' s s',
      reach sp lp ub d s -> run_c (ser d') ub sp 0 s = Some s' -> reach sp lp ub d' s'
  | reach_crash : forall d d' d'' s s',
      reach sp lp ub d s -> In s' (crash_states_c (ser d') ub sp 0 s) -> load_c data parse d_empty ub lp s' = LOk d'' ->
      reach sp lp ub d'' s'.
End Spec.

(* outcome of a restart observed on the real driver, as a bit mask:
   1 = the store equals pre, 2 = equals post, 4 = is empty, 8 = something else, 16 = start-up failure *)
Definition spec_ok (outcome : Z) : bool := Z.testbit outcome 0 || Z.testbit outcome 1.
