(* C08 — the decision procedure (definitions only): run the save program on the abstract file system from every abstract
   initial state and test every crash state with the abstract load.  Soundness: AbsThm.v.  It is evaluated by vm_compute
   on the program regenerated from json.py (GenOk.v), so the theorems are re-checked for whatever the translator emits. *)
From QT Require Export C08.Spec.

(* abstract initial states: the store holds pre.  ub = use_backup, pe = "pre is the empty store" *)
Definition a_any : list (option acont) := [None; Some AJunk].

Definition a_inits (ub pe : bool) : list (fs acont) :=
  flat_map (fun b => map (fun t => mkfs (Some APre) b t) a_any) a_any
  ++ (if ub then map (fun t => mkfs None (Some APre) t) a_any else [])
  ++ (if pe then map (fun t => mkfs None None t) a_any else []).

Definition a_holds_pre (ub pe : bool) (sa : fs acont) : bool :=
  match fdata sa, fbackup sa with
  | Some APre, _ => true
  | None, Some APre => ub
  | None, None => pe
  | _, _ => false
  end.

Definition a_holds_post (ub : bool) (sa : fs acont) : bool :=
  match fdata sa, fbackup sa with
  | Some APost, _ => true
  | None, Some APost => ub
  | _, _ => false
  end.

Definition a_state_ok (ub pe : bool) (lp : lprog) (sa : fs acont) : bool :=
  match load_a ub lp sa with
  | LOk DPre => a_holds_pre ub pe sa
  | LOk DPost => a_holds_post ub sa
  | LOk DEmpty => pe && a_holds_pre ub pe sa
  | _ => false
  end.

Definition a_run_ok (ub : bool) (sp : list op) (lp : lprog) (sa : fs acont) : bool :=
  match run_a ub sp 0 sa with
  | Some sa' => a_holds_post ub sa' && match load_a ub lp sa' with LOk DPost => true | _ => false end
  | None => false
  end.

Definition check_one (sp : list op) (lp : lprog) (ub pe : bool) (sa : fs acont) : bool :=
  forallb (a_state_ok ub pe lp) (crash_states_a ub sp 0 sa) && a_run_ok ub sp lp sa.

Definition check_all (sp : list op) (lp : lprog) : bool :=
  forallb (fun ub => forallb (fun pe => forallb (check_one sp lp ub pe) (a_inits ub pe)) [false; true]) [false; true].

(* for diagnostics (History, replay files): the abstract crash states that fail, with their index in crash_states_a *)
Definition failing (sp : list op) (lp : lprog) (ub pe : bool) (sa : fs acont) : list nat :=
  mismatches (a_state_ok ub pe lp) (crash_states_a ub sp 0 sa) 0.
