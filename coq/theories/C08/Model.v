(* C08 — JSON store crash consistency: model.  Definitions only (total, computable); proofs are in *Thm.v.

   A tiny file system with three files (data file, backup file, temporary file), a language of file-system operations
   (the save procedure is a list of these, regenerated from json.py into Gen/C08Gen.v), a language of load decision trees
   (regenerated from JSONDriver._load), and
     crash_states : every file-system state in which the process can die while a save program runs
                    (before/after every operation, and after every byte prefix of every write).
   The semantics is generic in the type C of file contents, so that the same definitions are used
     - concretely   (C = list of bytes; a write appends any prefix of the payload),
     - abstractly   (C = acont: empty / pre / post / proper prefix of post / unknown) by the decision procedure whose
                    soundness is proved in AbsThm.v, and by the correspondence harness (Run.v),
     - on shapes    (C = unit) to predict the system-call trace of a save (Run.v). *)
From QT Require Export Base.Prelude.

Definition bytes := list Z.

Inductive fname := FData | FBackup | FTemp.

Record fs (C : Type) := mkfs { fdata : option C; fbackup : option C; ftemp : option C }.
Arguments mkfs {C}. Arguments fdata {C}. Arguments fbackup {C}. Arguments ftemp {C}.

Definition fget {C} (s : fs C) (f : fname) : option C :=
  match f with FData => fdata s | FBackup => fbackup s | FTemp => ftemp s end.

Definition fset {C} (s : fs C) (f : fname) (v : option C) : fs C :=
  match f with
  | FData => mkfs v (fbackup s) (ftemp s)
  | FBackup => mkfs (fdata s) v (ftemp s)
  | FTemp => mkfs (fdata s) (fbackup s) v
  end.

Definition exists_ {C} (s : fs C) (f : fname) : bool := match fget s f with Some _ => true | None => false end.

(* conditions of `if` statements in _save; CFlag is self._use_backup *)
Inductive cond := CTrue | CFlag | CExists (f : fname) | CNot (c : cond) | CAnd (a b : cond) | COr (a b : cond).

Fixpoint eval_cond {C} (ub : bool) (s : fs C) (c : cond) : bool :=
  match c with
  | CTrue => true
  | CFlag => ub
  | CExists f => exists_ s f
  | CNot a => negb (eval_cond ub s a)
  | CAnd a b => eval_cond ub s a && eval_cond ub s b
  | COr a b => eval_cond ub s a || eval_cond ub s b
  end.

(* file-system operations performed by _save.  OSkipUnless c n: `if c:` guarding the next n operations. *)
Inductive op :=
| ORename (src dst : fname)   (* os.rename / os.replace: atomic; dst is replaced; fails when src is missing *)
| ORemove (f : fname)         (* os.remove: fails when f is missing *)
| OCreate (f : fname)         (* open(f, 'wb'): create, or truncate to zero bytes *)
| OWrite (f : fname)          (* h.write(payload): the process may die after any byte prefix has reached the file *)
| OFlush (f : fname)          (* h.flush(): contents unchanged *)
| OFsync (f : fname)          (* os.fsync(h.fileno()): contents unchanged *)
| OClose (f : fname)          (* end of the `with` block: contents unchanged *)
| OSkipUnless (c : cond) (n : nat).

Section Sem.
  Variable C : Type.
  Variable c_empty : C.
  (* contents that can be observed while the payload is written after contents c (in order, the first one being c itself
     and the last one the completed write), and the contents after the completed write *)
  Variable c_write : C -> list C * C.

  (* one complete operation; None = the operation raises (the save stops, the file system stays as it is) *)
  Definition step (o : op) (s : fs C) : option (fs C) :=
    match o with
    | ORename a b => match fget s a with Some c => Some (fset (fset s b (Some c)) a None) | None => None end
    | ORemove f => match fget s f with Some _ => Some (fset s f None) | None => None end
    | OCreate f => Some (fset s f (Some c_empty))
    | OWrite f => match fget s f with Some c => Some (fset s f (Some (snd (c_write c)))) | None => None end
    | OFlush f | OFsync f | OClose f => match fget s f with Some _ => Some s | None => None end
    | OSkipUnless _ _ => Some s
    end.

  (* states in which the process can die while operation o runs on s (the state before it included) *)
  Definition during (o : op) (s : fs C) : list (fs C) :=
    match o with
    | OWrite f => match fget s f with
                  | Some c => s :: map (fun c' => fset s f (Some c')) (fst (c_write c))
                  | None => [s]
                  end
    | _ => [s]
    end.

  (* all crash states of program p started in s; skip = number of operations still to be skipped *)
  Fixpoint crash_states (ub : bool) (p : list op) (skip : nat) (s : fs C) : list (fs C) :=
    match p with
    | [] => [s]
    | o :: r =>
        match skip with
        | S k => crash_states ub r k s
        | O =>
            during o s ++
            match o with
            | OSkipUnless c n => crash_states ub r (if eval_cond ub s c then O else n) s
            | _ => match step o s with Some s' => crash_states ub r O s' | None => [] end
            end
        end
    end.

  (* the complete run; None = an operation raised *)
  Fixpoint run (ub : bool) (p : list op) (skip : nat) (s : fs C) : option (fs C) :=
    match p with
    | [] => Some s
    | o :: r =>
        match skip with
        | S k => run ub r k s
        | O =>
            match o with
            | OSkipUnless c n => run ub r (if eval_cond ub s c then O else n) s
            | _ => match step o s with Some s' => run ub r O s' | None => None end
            end
        end
    end.

  (* the operations actually executed (the system-call trace of a complete save) *)
  Fixpoint trace (ub : bool) (p : list op) (skip : nat) (s : fs C) : list op :=
    match p with
    | [] => []
    | o :: r =>
        match skip with
        | S k => trace ub r k s
        | O =>
            match o with
            | OSkipUnless c n => trace ub r (if eval_cond ub s c then O else n) s
            | _ => o :: match step o s with Some s' => trace ub r O s' | None => [] end
            end
        end
    end.
End Sem.

Arguments step {C}. Arguments during {C}. Arguments crash_states {C}. Arguments run {C}. Arguments trace {C}.

(* ---------------------------------------------------------------------------------------------------------------- *)
(* load: the decision tree of JSONDriver._load *)

Inductive lprog :=
| LRetEmpty                              (* return {} *)
| LRaise                                 (* an exception leaves _load: start-up failure *)
| LIfExists (f : fname) (a b : lprog)    (* os.path.exists(f) / open(f) or os.stat(f) raising FileNotFoundError *)
| LIfEmpty (f : fname) (a b : lprog)     (* size of f is zero (f exists on every path the translator emits) *)
| LIfFlag (a b : lprog)                  (* self._use_backup *)
| LParse (f : fname) (onerr : lprog).    (* return loads(read(f)); onerr = where a decoding error is handled *)

Inductive lres (D : Type) := LOk (d : D) | LFail | LUnknown.
Arguments LOk {D}. Arguments LFail {D}. Arguments LUnknown {D}.

Section Load.
  Variables C D : Type.
  Variable c_is_empty : C -> option bool.     (* None: not determined by the abstraction *)
  Variable c_parse : C -> lres D.             (* LFail: the decoder raises *)
  Variable d_empty : D.

  Fixpoint load_run (ub : bool) (p : lprog) (s : fs C) : lres D :=
    match p with
    | LRetEmpty => LOk d_empty
    | LRaise => LFail
    | LIfExists f a b => if exists_ s f then load_run ub a s else load_run ub b s
    | LIfEmpty f a b =>
        match fget s f with
        | Some c => match c_is_empty c with
                    | Some true => load_run ub a s
                    | Some false => load_run ub b s
                    | None => LUnknown
                    end
        | None => LFail
        end
    | LIfFlag a b => if ub then load_run ub a s else load_run ub b s
    | LParse f onerr =>
        match fget s f with
        | Some c => match c_parse c with
                    | LOk d => LOk d
                    | LFail => load_run ub onerr s
                    | LUnknown => LUnknown
                    end
        | None => LFail
        end
    end.
End Load.
Arguments load_run {C D}.

(* ---------------------------------------------------------------------------------------------------------------- *)
(* the concrete instance: contents are byte strings *)

Definition prefixes (w : bytes) : list bytes := map (fun k => firstn k w) (seq 0 (S (List.length w))).

Definition bytes_write (w : bytes) (c : bytes) : list bytes * bytes := (map (fun p => c ++ p) (prefixes w), c ++ w).

Definition bytes_is_empty (c : bytes) : option bool := Some (match c with [] => true | _ => false end).

Section Concrete.
  Variable data : Type.
  Variable parse : bytes -> option data.
  Variable d_empty : data.

  Definition bytes_parse (c : bytes) : lres data := match parse c with Some d => LOk d | None => LFail end.

  Definition crash_states_c (w : bytes) := crash_states (C := bytes) [] (bytes_write w).
  Definition run_c (w : bytes) := run (C := bytes) [] (bytes_write w).
  Definition load_c := load_run bytes_is_empty bytes_parse d_empty.
End Concrete.

(* ---------------------------------------------------------------------------------------------------------------- *)
(* the abstract instance, relative to one save of `post` on a store holding `pre` *)

Inductive acont :=
| AEmpty       (* zero bytes *)
| APre         (* exactly ser pre *)
| APost        (* exactly ser post *)
| APart        (* a proper, non-empty prefix of ser post *)
| AJunk.       (* anything *)

Inductive adata := DPre | DPost | DEmpty.

Definition a_write (c : acont) : list acont * acont :=
  match c with
  | AEmpty => ([AEmpty; APart; APost], APost)
  | _ => ([AJunk], AJunk)
  end.

Definition a_is_empty (c : acont) : option bool :=
  match c with AEmpty => Some true | APre | APost | APart => Some false | AJunk => None end.

Definition a_parse (c : acont) : lres adata :=
  match c with AEmpty | APart => LFail | APre => LOk DPre | APost => LOk DPost | AJunk => LUnknown end.

Definition crash_states_a := crash_states (C := acont) AEmpty a_write.
Definition run_a := run (C := acont) AEmpty a_write.
Definition load_a := load_run a_is_empty a_parse DEmpty.

(* shapes only *)
Definition trace_u := trace (C := unit) tt (fun _ => ([tt], tt)).
