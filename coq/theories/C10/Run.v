(* C10 — dispatch used by the generated case files: run the model / the specification oracle on recorded cases.

   A shard is one password history: [sha] is the table password -> sha256 hex digest (computed by hashlib in the harness),
   [ops] the primitive operations applied to the real device module, and every case says after how many of them ([c_k])
   it was taken.  [mac] is instantiated per case by the harness-provided table  key -> hex(HMAC-SHA256(key, signing input))
   and [decode] by the single pair  candidate token text -> what PyJWT's unverified decode returned.
   The signing input and the signature bytes are abstracted in the case files (t_si = "", t_sig = "s"): the decisions see
   them only through  t_sig = mac key t_si,  and for that the harness supplies the truth (the keys under which the real
   HMAC-SHA256 of the real signing input equals the real signature). *)
From QT Require Export C10.Spec.
Open Scope string_scope.
Open Scope Z_scope.

Inductive obs :=
| OGrant (usr : option jval)          (* parse_auth_header returned usr *)
| ORefuse                             (* AuthError *)
| OCrash                              (* any other exception *)
| OLevel (z : Z)                      (* GET /access: 30/20/10/0, or -1 for HTTP 500 *)
| OBits (a n v : string) (leak : bool). (* GET /device: the three password attributes; a hash/password found anywhere *)

(* kinds 5-7 (the slave side; c_k = number of forwarded PATCH /device requests that succeeded so far):
   5  the Authorization header the hub sent to the slave with a forwarded request, and the slave's verdict on it (c_obs);
      c_key = the slave's real current admin password (from the simulated slave)
   6  POST /devices/<name>/events on the hub with the device-origin token c_hdr: c_obs = ORefuse for 401, OGrant None else
   7  GET /devices and the intercepted GET /devices/<name>/forward/device: OBits shown_in_list shown_in_forward slave_bit leak;
      c_plain = a password waits to be provisioned, c_key = that password
   8  every answer body of every request of the history was searched for every password text (>= 6 characters) and hash
      ever submitted (documented *password_hash fields of /devices, /webhooks, /reverse excepted): OBits "" "" "" found *)
(* kinds: 0 consumer header: parse_auth_header called directly (c_obs) and, when the header can travel unchanged over HTTP,
   GET /access with it (c_http); 2 device-origin parse_auth_header (require_usr=False, constant key c_key);
   3 GET /access without header (c_http); 4 GET /device (c_obs = OBits) *)
Record hcase := HC {
  c_kind : Z;
  c_k : nat;
  c_now8 : Z;
  c_pre : string;             (* the header is c_pre ++ c_cand ++ c_suf (written once to keep the case files small) *)
  c_cand : string;            (* the second of exactly two white-space separated words, else "" *)
  c_suf : string;
  c_parsed : parsed;
  c_sparsed : parsed;
  c_macs : list string;       (* the keys (among every key the model or the oracle can ask for) whose HMAC verifies *)
  c_key : string;
  c_issued : option (string * option string * string);  (* made by the real make_auth_header(origin, username, key)
                                                           while the clock showed c_now8 *)
  c_obs : obs;
  c_http : option Z;
  c_plain : bool;             (* JOSE header is {alg, typ:"JWT"} only and every segment is canonical base64url *)
  c_multi : list (Z * obs)    (* the same header verified again with the clock at c_now8 + offset (eighths of a second) *)
}.

Definition c_hdr (c : hcase) : string := c_pre c ++ c_cand c ++ c_suf c.

Definition sha_of (tbl : list (string * string)) (pw : string) : string :=
  match assoc pw tbl with Some h => h | None => "?" end.

(* HMAC as a truth table: under the listed keys the MAC of the token's signing input is its signature, under any other
   key it is something else ("!" is not a hex string) *)
Definition sig_of (p : parsed) : string := match p with Tok t => t_sig t | Malformed => "" end.
Definition mac_of (keys : list string) (sig : string) (k m : string) : string :=
  if existsb (String.eqb k) keys then sig else "!".

Definition decode_of (cand : string) (p : parsed) (t : string) : parsed :=
  if (t =? cand)%string then p else Malformed.

(* model vs implementation.  An AuthError (refusal) and an escaping exception (HTTP 500) are both "no access": the tie
   does not tell them apart (the harness records them separately in the distribution), so that turning a 500 into a clean
   refusal - or the other way round - is not reported as a broken correspondence. *)
Definition res_obs_eqb (r : res) (o : obs) : bool :=
  match r, o with
  | RGrant u, OGrant v => option_eqb jval_eqb u v
  | RRefuse, ORefuse | RCrash, OCrash | RRefuse, OCrash | RCrash, ORefuse => true
  | _, _ => false
  end.

Definition level_eqb (m z : Z) : bool := (Z.max m 0 =? Z.max z 0).   (* -1 (HTTP 500) and 0 (none) are both no access *)

Section Run.
  Variable skew : Z.
  Variable sha : list (string * string).
  Variable ops : list op.
  Variable spw0 : string.                  (* admin password of the slave when it was added to the hub *)
  Variable sops : list sop.                (* forwarded PATCH /device requests that succeeded and renames, in order *)

  Definition slave_key (k : nat) : string := hub_slave_hash (sha_of sha) spw0 (firstn k sops).
  Definition slave_pw (k : nat) : string := slave_password spw0 (firstn k sops).
  Definition admin_only (h : string) (u : option jval) : option string := if jeq_str u "admin" then Some h else None.
  Definition is_grant (r : res) : bool := match r with RGrant _ => true | _ => false end.
  Definition obs_grant (o : obs) : bool := match o with OGrant _ => true | _ => false end.
  Definition is_bit (s : string) : bool := (s =? "")%string || (s =? "set")%string.

  Definition state_at (k : nat) : state := run (sha_of sha) init_state (firstn k ops).
  Definition pstate_at (k : nat) : pstate := prun pinit (firstn k ops).

  Definition model_ok (c : hcase) : bool :=
    let st := state_at (c_k c) in
    let mac := mac_of (c_macs c) (sig_of (c_parsed c)) in
    let dec := decode_of (c_cand c) (c_parsed c) in
    (* the model of make_auth_header: HS256, exactly make_claims with iat = issue_iat (clock of the call), signed with key *)
    (match c_issued c with
     | Some (origin, username, key) => issuedb mac dec origin username key (issue_iat (c_now8 c)) (c_hdr c)
     | None => true
     end) &&
    match c_kind c, c_obs c with
    | 0, o =>
        res_obs_eqb (consumer_auth mac dec skew (cur st) (c_now8 c) (c_hdr c)) o
        && match c_http c with
           | Some z => level_eqb (prepare mac dec skew (empty_hash (sha_of sha)) (cur st) (c_now8 c) (Some (c_hdr c))) z
           | None => true
           end
        && forallb (fun '(d, o') => res_obs_eqb (consumer_auth mac dec skew (cur st) (c_now8 c + d) (c_hdr c)) o') (c_multi c)
    | 2, o =>
        forallb (fun '(d, o') =>
                   res_obs_eqb (parse_auth_header mac dec skew (c_now8 c + d) (c_hdr c) "device" (fun _ => Some (c_key c)) false) o')
                ((0, o) :: c_multi c)
    | 3, _ =>
        match c_http c with
        | Some z => level_eqb (prepare mac dec skew (empty_hash (sha_of sha)) (cur st) (c_now8 c) None) z
        | None => false
        end
    | 4, OBits a n v _ =>
        (pw_bit (sha_of sha) st Admin =? a)%string && (pw_bit (sha_of sha) st Normal =? n)%string
        && (pw_bit (sha_of sha) st Viewonly =? v)%string
    | 5, o =>
        issuedb mac dec "consumer" (Some "admin") (slave_key (c_k c)) (issue_iat (c_now8 c)) (c_hdr c)
        && res_obs_eqb (parse_auth_header mac dec skew (c_now8 c) (c_hdr c) "consumer"
                                          (admin_only (sha_of sha (c_key c))) true) o
    | 6, o =>
        Bool.eqb (is_grant (parse_auth_header mac dec skew (c_now8 c) (c_hdr c) "device" (fun _ => Some (slave_key (c_k c))) false))
                 (obs_grant o)
    | 8, OBits _ _ _ leak => negb leak
    | 7, OBits a n v leak =>
        let pending := if c_plain c then Some (c_key c) else None in
        (* without a pending password the hub shows the slave's own (cached, possibly older) "set"/"" answer *)
        negb leak && (if c_plain c then (a =? slave_doc_pw pending v)%string && (n =? slave_doc_pw pending v)%string
                      else is_bit a && is_bit n)
    | _, _ => false
    end.

  Definition user_jval (u : user) : option jval := Some (JStr (user_name u)).

  Definition meets (kind : Z) (e : expect) (o : obs) : bool :=
    let refused := match o with ORefuse | OCrash => true | OLevel z => (z =? 0) || (z =? -1) | _ => false end in
    let granted (u : option user) :=
      match o, u with
      | OGrant v, Some w => option_eqb jval_eqb v (user_jval w)
      | OGrant _, None => true
      | OLevel z, Some w => z =? level_of w
      | _, _ => false
      end in
    match e with
    | MustGrant u => granted u
    | MustRefuse => refused
    | Either u => refused || granted u
    end.

  (* the hub is not obliged to accept tokens with an unusual JOSE header or non-canonical base64 *)
  Definition relax (plain : bool) (e : expect) : expect :=
    match e with MustGrant u => if plain then e else Either u | _ => e end.

  Definition spec_ok (c : hcase) : bool :=
    let p := pcur (pstate_at (c_k c)) in
    let mac := mac_of (c_macs c) (sig_of (c_sparsed c)) in
    let sdec := decode_of (c_cand c) (c_sparsed c) in
    (match c_issued c with
     | Some (origin, username, key) =>
         (* Spec: the issue time written into a header is the clock at the moment make_auth_header is called *)
         issuedb mac sdec origin username key (spec_issue_time (c_now8 c)) (c_hdr c)
     | None => true
     end) &&
    match c_kind c, c_obs c with
    | 0, o =>
        let ex now := relax (c_plain c)
                        (expectation (sha_of sha) mac skew p now (c_hdr c) (c_cand c) (c_sparsed c) "consumer" None) in
        let e := ex (c_now8 c) in
        forallb (fun '(d, o') => meets 0 (ex (c_now8 c + d)) o') (c_multi c) &&
        meets 0 e o
        && match c_http c with
           | Some z => meets 1 (if (c_hdr c =? "")%string then expectation_no_header p else e) (OLevel z)
           | None => true
           end
    | 2, o =>
        forallb (fun '(d, o') =>
                   meets 2 (relax (c_plain c) (expectation (sha_of sha) mac skew p (c_now8 c + d) (c_hdr c) (c_cand c)
                                                           (c_sparsed c) "device" (Some (c_key c)))) o')
                ((0, o) :: c_multi c)
    | 3, _ => match c_http c with Some z => meets 3 (expectation_no_header p) (OLevel z) | None => false end
    | 4, OBits a n v leak =>
        negb leak && (bit_spec p Admin =? a)%string && (bit_spec p Normal =? n)%string && (bit_spec p Viewonly =? v)%string
    | 5, o =>
        (* the hub signs what it sends to a slave with the hash of the slave's CURRENT admin password, at the current time;
           the slave (same rules) then accepts it *)
        (c_key c =? slave_pw (c_k c))%string
        && issuedb mac sdec "consumer" (Some "admin") (sha_of sha (slave_pw (c_k c))) (spec_issue_time (c_now8 c)) (c_hdr c)
        && meets 0 (relax (c_plain c)
                          (expectation (sha_of sha) mac skew {| p_admin := Some (c_key c); p_normal := None; p_viewonly := None |}
                                       (c_now8 c) (c_hdr c) (c_cand c) (c_sparsed c) "consumer" None)) o
    | 6, o =>
        (* the slave-events endpoint authenticates exactly the slave's current admin password *)
        meets 2 (relax (c_plain c) (expectation (sha_of sha) mac skew p (c_now8 c) (c_hdr c) (c_cand c) (c_sparsed c) "device"
                                                (Some (sha_of sha (slave_pw (c_k c)))))) o
    | 8, OBits _ _ _ leak => negb leak   (* no answer body of the whole history (error answers included) holds a password or hash *)
    | 7, OBits a n v leak =>
        negb leak && is_bit a && is_bit n
        && (if c_plain c then (a =? (if (c_key c =? "")%string then "" else "set"))%string else true)
    | _, _ => false
    end.

  Definition bad_model (cases : list hcase) : list nat := mismatches model_ok cases 0.
  Definition bad_spec (cases : list hcase) : list nat := mismatches spec_ok cases 0.
End Run.

(* smoke tests of the regular expression model *)
Example bearer_1 : bearer_token "Bearer abc.def-_9" = Some "abc.def-_9". Proof. reflexivity. Qed.
Example bearer_2 : bearer_token "bEARER  	 x" = Some "x". Proof. reflexivity. Qed.
Example bearer_3 : bearer_token "Bearer" = None /\ bearer_token "Bearer " = None /\ bearer_token " Bearer x" = None
                   /\ bearer_token "Bearer x y" = None /\ bearer_token "Bearerx" = None /\ bearer_token "Bearer a=" = None.
Proof. repeat split. Qed.
