(* C10 — corollaries that combine the decision theorems with the password history. *)
From QT Require Import C10.Model C10.Spec C10.AuthThm C10.PasswordThm.
Open Scope string_scope.
Open Scope Z_scope.

Section MainThm.
  Variable mac : string -> string -> string.
  Variable decode : string -> parsed.
  Variable skew : Z.
  Variable sha256hex : string -> string.
  Hypothesis sha_nonempty : forall pw, sha256hex pw <> "".

  Definition hub_after (l : list api_op) : hashes := cur (run sha256hex init_state (ORestart :: flatten_api l)).

  (* after any history only a token signed with the hash of the LAST password set for u authenticates as u *)
  Theorem only_current_password :
    forall l now8 hdr u,
      grant mac decode skew (hub_after l) now8 hdr = Some u ->
      exists tok t,
        bearer_token hdr = Some tok /\ decode tok = Tok t
        /\ claim t "usr" = Some (JStr (user_name u))
        /\ t_sig t = mac (sha256hex (last_password l u)) (t_si t).
  Proof.
    intros l now8 hdr u H.
    destruct (grant_sound mac decode skew "" _ _ _ _ H) as [(tok & t & key & Hb & Hd & _ & _ & _ & Hu & _ & Hh & _ & Hs) _].
    exists tok, t. repeat split; auto.
    unfold hub_after in Hh. rewrite (password_history sha256hex sha_nonempty) in Hh. injection Hh as <-. exact Hs.
  Qed.

  (* and a token the hub (or a consumer knowing the password) issues with that hash is accepted at u's level *)
  Theorem current_password_authenticates :
    forall l now8 hdr u iat,
      issuedb mac decode "consumer" (Some (user_name u)) (sha256hex (last_password l u)) iat hdr = true ->
      fresh skew now8 iat ->
      grant mac decode skew (hub_after l) now8 hdr = Some u
      /\ prepare mac decode skew (sha256hex "") (hub_after l) now8 (Some hdr) = level_of u.
  Proof.
    intros l now8 hdr u iat Hi Hf.
    apply (grant_complete mac decode skew (sha256hex "") (hub_after l) now8 hdr u
                          (sha256hex (last_password l u)) iat Hi); auto.
    unfold hub_after. apply (password_history sha256hex sha_nonempty).
  Qed.

  (* the slave (running the same rules with its own admin hash) accepts what the hub sends it *)
  Theorem slave_accepts_hub_header :
    forall sops pw0 t8 t8' hdr,
      issuedb mac decode "consumer" (Some "admin") (hub_slave_hash sha256hex pw0 sops) (issue_iat t8) hdr = true ->
      - (8 * skew) <= t8' - t8 <= 8 * skew - 7 ->
      parse_auth_header mac decode skew t8' hdr "consumer"
        (fun u => if jeq_str u "admin" then Some (sha256hex (slave_password pw0 sops)) else None) true
      = RGrant (Some (JStr "admin")).
  Proof.
    intros sops pw0 t8 t8' hdr Hi Ht.
    rewrite (slave_hash_tracks sha256hex) in Hi.
    apply (parse_complete mac decode skew "consumer" (Some "admin") (sha256hex (slave_password pw0 sops)) (issue_iat t8) hdr t8'
                          _ true Hi).
    - discriminate.
    - reflexivity.
    - apply sha_nonempty.
    - now apply fresh_issued_now.
  Qed.

  (* no Authorization header: admin exactly when the admin hash is the hash of the empty password, else nothing *)
  Theorem no_header :
    forall eh h now8,
      prepare mac decode skew eh h now8 None = (if option_eqb String.eqb (h_admin h) (Some eh) then 30 else 0).
  Proof. intros eh h now8. unfold prepare. destruct (h_admin h); reflexivity. Qed.

  Theorem no_header_after_history :
    forall l now8,
      prepare mac decode skew (sha256hex "") (hub_after l) now8 None
      = (if (sha256hex (last_password l Admin) =? sha256hex "")%string then 30 else 0).
  Proof.
    intros l now8. rewrite no_header. unfold hub_after.
    pose proof (password_history sha256hex sha_nonempty l Admin) as H.
    change (get_hash (cur (run sha256hex init_state (ORestart :: flatten_api l))) Admin)
      with (h_admin (cur (run sha256hex init_state (ORestart :: flatten_api l)))) in H.
    rewrite H. reflexivity.
  Qed.
End MainThm.
