(* C10 — soundness and completeness of the authentication decision (for every mac, decode, skew: no assumption). *)
From QT Require Import C10.Model.
Open Scope string_scope.
Open Scope Z_scope.

Lemma jeq_str_true : forall v s, jeq_str v s = true -> v = Some (JStr s).
Proof.
  intros v s0 H. destruct v as [[]|]; simpl in H; try discriminate. apply String.eqb_eq in H. now subst.
Qed.

Lemma jeq_str_refl : forall s, jeq_str (Some (JStr s)) s = true.
Proof. intros. simpl. apply String.eqb_refl. Qed.

Lemma jval_eqb_eq : forall a b, jval_eqb a b = true -> a = b.
Proof.
  intros a b H; destruct a, b; simpl in H; try discriminate; try reflexivity;
    try (apply Bool.eqb_prop in H; now subst).
  - apply Z.eqb_eq in H. now subst.
  - apply String.eqb_eq in H. now subst.
Qed.

Lemma option_jval_eqb_eq : forall a b, option_eqb jval_eqb a b = true -> a = b.
Proof.
  intros [a|] [b|] H; simpl in H; try discriminate; try reflexivity. f_equal. now apply jval_eqb_eq.
Qed.

Lemma user_of_name_sound : forall s u, user_of_name s = Some u -> s = user_name u.
Proof.
  unfold user_of_name. intros s u.
  destruct (s =? "admin")%string eqn:E1; [apply String.eqb_eq in E1; intros [= <-]; now subst|].
  destruct (s =? "normal")%string eqn:E2; [apply String.eqb_eq in E2; intros [= <-]; now subst|].
  destruct (s =? "viewonly")%string eqn:E3; [apply String.eqb_eq in E3; intros [= <-]; now subst|].
  discriminate.
Qed.

Lemma user_of_name_complete : forall u, user_of_name (user_name u) = Some u.
Proof. now intros []. Qed.

Lemma andthen_ok : forall a b, andthen a b = COk -> a = COk /\ b = COk.
Proof. intros [] b H; simpl in H; try discriminate. now split. Qed.

Lemma tokc_not_ws : forall a, is_tokc a = true -> is_ws a = false.
Proof. intros a. destruct a as [[] [] [] [] [] [] [] []]; vm_compute; intros H; try reflexivity; discriminate H. Qed.

Section AuthThm.
  Variable mac : string -> string -> string.
  Variable decode : string -> parsed.
  Variable skew : Z.

  Notation parse_auth_header := (parse_auth_header mac decode skew).
  Notation consumer_auth := (consumer_auth mac decode skew).
  Notation grant := (grant mac decode skew).
  Notation prepare := (prepare mac decode skew).
  Notation validate_claims := (validate_claims skew).
  Notation issuedb := (issuedb mac decode).

  (* an issue time the hub accepts when it has a real clock: absent, or a number no further than skew from now *)
  Definition iat_within_skew (now8 : Z) (v : option jval) : Prop :=
    match v with
    | None => True
    | Some (JNum n8) => Z.abs (now8 - n8) <= 8 * skew
    | Some (JBool b) => Z.abs (now8 - (if b then 8 else 0)) <= 8 * skew
    | Some _ => False
    end.

  (* what every accepted header looks like *)
  Definition accepted_shape (now8 : Z) (hdr origin : string) (hash_func : option jval -> option string)
             (require_usr : bool) (usr : option jval) : Prop :=
    exists tok t key,
      bearer_token hdr = Some tok /\ decode tok = Tok t                      (* well-formed *)
      /\ t_alg t = Some (JStr "HS256")
      /\ claim t "iss" = Some (JStr "qToggle")
      /\ claim t "ori" = Some (JStr origin)
      /\ usr = claim t "usr"
      /\ (require_usr = true -> exists s, usr = Some (JStr s) /\ s <> "")
      /\ hash_func usr = Some key /\ key <> ""
      /\ t_sig t = mac key (t_si t)                                           (* signed with that key *)
      /\ (has_real now8 = true -> iat_within_skew now8 (claim t "iat"))
      /\ validate_claims now8 t = COk.

  Theorem parse_sound :
    forall now8 hdr origin hash_func require_usr usr,
      parse_auth_header now8 hdr origin hash_func require_usr = RGrant usr ->
      accepted_shape now8 hdr origin hash_func require_usr usr.
  Proof.
    intros now8 hdr origin hf req usr. unfold Model.parse_auth_header.
    destruct (bearer_token hdr) as [tok|] eqn:Hb; [|discriminate].
    destruct (decode tok) as [|t] eqn:Hd; [discriminate|].
    destruct (jeq_str (claim t "iss") "qToggle") eqn:Hiss; simpl; [|discriminate].
    destruct (jeq_str (claim t "ori") origin) eqn:Hori; simpl; [|discriminate].
    destruct (match claim t "iat" with
              | Some v => if has_real now8 then iat_skew_check skew now8 v else COk
              | None => COk end) eqn:Hiat; try discriminate.
    destruct (req && negb (nonempty_str (claim t "usr"))) eqn:Husr; [discriminate|].
    destruct (hf (claim t "usr")) as [key|] eqn:Hh; [|discriminate].
    destruct (key =? "")%string eqn:Hk; [discriminate|].
    destruct (alg_is_hs256 t) eqn:Halg; simpl; [|discriminate].
    destruct (t_sig t =? mac key (t_si t))%string eqn:Hsig; simpl; [|discriminate].
    destruct (Model.validate_claims skew now8 t) eqn:Hv; try discriminate.
    intros [= <-].
    exists tok, t, key.
    apply jeq_str_true in Hiss. apply jeq_str_true in Hori. apply jeq_str_true in Halg.
    apply String.eqb_neq in Hk. apply String.eqb_eq in Hsig.
    repeat split; auto.
    - intros ->. simpl in Husr. apply Bool.negb_false_iff in Husr.
      unfold nonempty_str in Husr. destruct (claim t "usr") as [[]|]; try discriminate.
      exists s. split; [reflexivity|]. apply Bool.negb_true_iff in Husr. now apply String.eqb_neq.
    - intros Hreal. unfold Model.validate_claims in Hv. apply andthen_ok in Hv. destruct Hv as [Hna _].
      destruct (claim t "iat") as [v|]; [|exact I]. rewrite Hreal in Hiat. cbn [opt_chk] in Hna.
      unfold iat_within_skew.
      destruct v; cbn [iat_skew_check] in Hiat; cbv [not_after py_int] in Hna; try discriminate; try exact I.
      + destruct (Z.abs (now8 - (if b then 8 else 0)) >? 8 * skew) eqn:E; [discriminate|].
        rewrite Z.gtb_ltb in E. now apply Z.ltb_ge in E.
      + destruct (Z.abs (now8 - n8) >? 8 * skew) eqn:E; [discriminate|].
        rewrite Z.gtb_ltb in E. now apply Z.ltb_ge in E.
  Qed.

  Lemma consumer_hash_user : forall h u, consumer_hash h (Some (JStr (user_name u))) = get_hash h u.
  Proof. now intros h []. Qed.

  Lemma bearer_token_nonempty : forall tok, bearer_token "" = Some tok -> False.
  Proof. discriminate. Qed.

  (* C10_grant_sound: the consumer endpoint *)
  Theorem grant_sound :
    forall eh h now8 hdr u,
      grant h now8 hdr = Some u ->
      (exists tok t key,
          bearer_token hdr = Some tok /\ decode tok = Tok t
          /\ t_alg t = Some (JStr "HS256")
          /\ claim t "iss" = Some (JStr "qToggle")
          /\ claim t "ori" = Some (JStr "consumer")
          /\ claim t "usr" = Some (JStr (user_name u))
          /\ (has_real now8 = true -> iat_within_skew now8 (claim t "iat"))
          /\ get_hash h u = Some key /\ key <> ""
          /\ t_sig t = mac key (t_si t))
      /\ prepare eh h now8 (Some hdr) = level_of u.
  Proof.
    intros eh h now8 hdr u. unfold Model.grant.
    destruct (consumer_auth h now8 hdr) as [usr| |] eqn:Hc; try discriminate.
    destruct usr as [[]|]; try discriminate. intros Hu.
    pose proof (parse_sound _ _ _ _ _ _ Hc) as (tok & t & key & Hb & Hd & Halg & Hiss & Hori & Husr & _ & Hh & Hk & Hsig & Hiat & _).
    pose proof (user_of_name_sound _ _ Hu) as ->.
    split.
    - exists tok, t, key. rewrite <- Husr. rewrite consumer_hash_user in Hh. repeat split; auto.
    - unfold Model.prepare. destruct (hdr =? "")%string eqn:E.
      + apply String.eqb_eq in E. subst. discriminate Hb.
      + rewrite Hc, Hu. reflexivity.
  Qed.

  (* ------------------------------------------------------------------------------------------------------------ *)
  (* completeness for what make_auth_header issues *)

  Lemma span_tok_all : forall s, forallb is_tokc (list_ascii_of_string s) = true -> span_tok s = (s, "").
  Proof.
    induction s as [|a r IH]; simpl; intros H; [reflexivity|].
    apply andb_prop in H. destruct H as [Ha Hr]. rewrite Ha, (IH Hr). reflexivity.
  Qed.

  Lemma bearer_token_issued : forall tok, tok_ok tok = true -> bearer_token ("Bearer " ++ tok) = Some tok.
  Proof.
    intros tok H. unfold tok_ok in H. apply andb_prop in H. destruct H as [Hne Hall].
    destruct tok as [|a r]; [discriminate|].
    pose proof Hall as Hall'. simpl in Hall'. apply andb_prop in Hall'. destruct Hall' as [Ha _].
    unfold bearer_token.
    change (ci_strip "bearer" ("Bearer " ++ String a r)) with (Some (String " "%char (String a r))).
    change (is_ws " "%char) with true. cbv iota beta.
    assert (Hs : skip_ws (String a r) = String a r) by (simpl; now rewrite (tokc_not_ws _ Ha)).
    rewrite Hs, (span_tok_all _ Hall). reflexivity.
  Qed.

  Lemma ci_strip_bearer_sp : forall hdr tok, ci_strip "bearer " hdr = Some tok -> (hdr =? "Bearer " ++ tok)%string = true ->
                                             hdr = "Bearer " ++ tok.
  Proof. intros hdr tok _ H. now apply String.eqb_eq in H. Qed.

  Definition username_claim (username : option string) : option jval :=
    match username with Some s => if (s =? "")%string then None else Some (JStr s) | None => None end.

  Lemma make_claims_lookup :
    forall origin username iat,
      let c := make_claims origin username iat in
      assoc "iss" c = Some (JStr "qToggle") /\ assoc "ori" c = Some (JStr origin)
      /\ assoc "usr" c = username_claim username
      /\ assoc "iat" c = match iat with Some i => Some (JNum (8 * i)) | None => None end
      /\ assoc "nbf" c = None /\ assoc "exp" c = None /\ assoc "aud" c = None /\ assoc "sub" c = None /\ assoc "jti" c = None.
  Proof.
    intros origin username iat. unfold make_claims, username_claim.
    destruct username as [s|]; [destruct (s =? "")%string|]; destruct iat; repeat split; reflexivity.
  Qed.

  Lemma same_claims_lookup :
    forall a b k, same_claims a b = true -> In k claim_keys -> assoc k a = assoc k b.
  Proof.
    intros a b k H Hin. unfold same_claims in H. rewrite forallb_forall in H.
    apply option_jval_eqb_eq. apply H. apply in_or_app. now left.
  Qed.

  (* the premise on times: the verifier's clock is within skew of the issue time (when the issuer wrote one) *)
  Definition fresh (now8 : Z) (iat : option Z) : Prop :=
    match iat with Some i => Z.abs (now8 - 8 * i) <= 8 * skew | None => True end.

  Theorem parse_complete :
    forall origin username key iat hdr now8 hash_func require_usr,
      issuedb origin username key iat hdr = true ->
      (require_usr = true -> username_claim username <> None) ->
      hash_func (username_claim username) = Some key -> key <> "" ->
      fresh now8 iat ->
      parse_auth_header now8 hdr origin hash_func require_usr = RGrant (username_claim username).
  Proof.
    intros origin username key iat hdr now8 hf req Hi Hreq Hh Hk Hfresh.
    unfold Model.issuedb in Hi.
    destruct (ci_strip "bearer " hdr) as [tok|] eqn:Hstrip; [|discriminate].
    apply andb_prop in Hi. destruct Hi as [Hi Hdec]. apply andb_prop in Hi. destruct Hi as [Hhdr Htok].
    apply String.eqb_eq in Hhdr.
    destruct (decode tok) as [|t] eqn:Hd; [discriminate|].
    apply andb_prop in Hdec. destruct Hdec as [Hdec Hsig]. apply andb_prop in Hdec. destruct Hdec as [Halg Hsame].
    apply String.eqb_eq in Hsig.
    pose proof (make_claims_lookup origin username iat) as (Liss & Lori & Lusr & Liat & Lnbf & Lexp & Laud & Lsub & Ljti).
    assert (K : forall k, In k claim_keys -> claim t k = assoc k (make_claims origin username iat))
      by (intros k Hk'; unfold claim; now apply same_claims_lookup).
    assert (Ciss := K "iss" ltac:(simpl; tauto)). assert (Cori := K "ori" ltac:(simpl; tauto)).
    assert (Cusr := K "usr" ltac:(simpl; tauto)). assert (Ciat := K "iat" ltac:(simpl; tauto)).
    assert (Cnbf := K "nbf" ltac:(simpl; tauto)). assert (Cexp := K "exp" ltac:(simpl; tauto)).
    assert (Caud := K "aud" ltac:(simpl; tauto)). assert (Csub := K "sub" ltac:(simpl; tauto)).
    assert (Cjti := K "jti" ltac:(simpl; tauto)).
    rewrite Liss in Ciss. rewrite Lori in Cori. rewrite Lusr in Cusr. rewrite Liat in Ciat. rewrite Lnbf in Cnbf.
    rewrite Lexp in Cexp. rewrite Laud in Caud. rewrite Lsub in Csub. rewrite Ljti in Cjti.
    unfold Model.parse_auth_header. rewrite Hhdr, (bearer_token_issued _ Htok), Hd.
    rewrite Ciss, Cori, !jeq_str_refl. cbn [negb].
    (* the hub's own skew test *)
    assert (Hskew : match claim t "iat" with
                    | Some v => if has_real now8 then iat_skew_check skew now8 v else COk
                    | None => COk end = COk).
    { rewrite Ciat. destruct iat as [i|]; [|reflexivity]. destruct (has_real now8); [|reflexivity].
      cbn [iat_skew_check]. cbn [fresh] in Hfresh. destruct (Z.abs (now8 - 8 * i) >? 8 * skew) eqn:E; [|reflexivity].
      apply Z.gtb_lt in E. lia. }
    rewrite Hskew. cbv beta iota zeta.
    assert (Hu : req && negb (nonempty_str (claim t "usr")) = false).
    { destruct req; [|reflexivity]. simpl. rewrite Cusr. specialize (Hreq eq_refl).
      unfold username_claim in *. destruct username as [s|]; [|congruence].
      destruct (s =? "")%string eqn:E; [congruence|]. simpl. now rewrite E. }
    rewrite Hu, Cusr, Hh.
    apply String.eqb_neq in Hk. rewrite Hk, Halg. cbn [negb].
    rewrite Hsig, String.eqb_refl.
    assert (Hv : validate_claims now8 t = COk).
    { unfold Model.validate_claims. rewrite Ciat, Cnbf, Cexp, Caud, Csub, Cjti.
      destruct iat as [i|]; [|reflexivity]. cbv [opt_chk not_after py_int].
      replace (Z.quot (8 * i) 8) with i by (rewrite Z.mul_comm; symmetry; apply Z.quot_mul; lia).
      cbn [fresh] in Hfresh. destruct (8 * i >? now8 + 8 * skew) eqn:E; [|reflexivity].
      apply Z.gtb_lt in E. lia. }
    rewrite Hv. reflexivity.
  Qed.

  (* consumers: a header issued for user u with u's current hash is granted u's level *)
  Theorem grant_complete :
    forall eh h now8 hdr u key iat,
      issuedb "consumer" (Some (user_name u)) key iat hdr = true ->
      get_hash h u = Some key -> key <> "" ->
      fresh now8 iat ->
      grant h now8 hdr = Some u /\ prepare eh h now8 (Some hdr) = level_of u.
  Proof.
    intros eh h now8 hdr u key iat Hi Hh Hk Hf.
    assert (Hc : consumer_auth h now8 hdr = RGrant (Some (JStr (user_name u)))).
    { unfold Model.consumer_auth.
      replace (Some (JStr (user_name u))) with (username_claim (Some (user_name u))) by now destruct u.
      eapply parse_complete; eauto.
      - intros _. now destruct u.
      - replace (username_claim (Some (user_name u))) with (Some (JStr (user_name u))) by now destruct u.
        now rewrite consumer_hash_user. }
    split.
    - unfold Model.grant. rewrite Hc. apply user_of_name_complete.
    - unfold Model.prepare. destruct (hdr =? "")%string eqn:E.
      + apply String.eqb_eq in E. subst. discriminate Hi.
      + rewrite Hc, user_of_name_complete. reflexivity.
  Qed.

  (* issued at clock t (iat = whole seconds of t, or none without a real date), verified at clock t':
     accepted whenever  -skew <= t' - t <= skew - 7/8 s  (the truncation of iat to whole seconds costs up to 7/8 s) *)
  Lemma fresh_issued_now :
    forall t8 t8', - (8 * skew) <= t8' - t8 <= 8 * skew - 7 -> fresh t8' (issue_iat t8).
  Proof.
    intros t8 t8' H. unfold issue_iat. destruct (has_real t8); [|exact I]. cbn [fresh].
    pose proof (Z.div_mod t8 8 ltac:(lia)). pose proof (Z.mod_pos_bound t8 8 ltac:(lia)). lia.
  Qed.

  Theorem grant_complete_issued_now :
    forall eh h t8 t8' hdr u key,
      issuedb "consumer" (Some (user_name u)) key (issue_iat t8) hdr = true ->
      get_hash h u = Some key -> key <> "" ->
      - (8 * skew) <= t8' - t8 <= 8 * skew - 7 ->
      grant h t8' hdr = Some u /\ prepare eh h t8' (Some hdr) = level_of u.
  Proof. intros. eapply grant_complete; eauto using fresh_issued_now. Qed.

  Theorem device_complete_issued_now :
    forall username key t8 t8' hdr,
      issuedb "device" username key (issue_iat t8) hdr = true -> key <> "" ->
      - (8 * skew) <= t8' - t8 <= 8 * skew - 7 ->
      parse_auth_header t8' hdr "device" (fun _ => Some key) false = RGrant (username_claim username).
  Proof. intros. eapply parse_complete; eauto using fresh_issued_now. discriminate. Qed.

  (* device-origin tokens (webhooks: no usr; reverse: usr = device id) verified with a constant key, usr not required *)
  Theorem device_complete :
    forall username key iat hdr now8,
      issuedb "device" username key iat hdr = true -> key <> "" -> fresh now8 iat ->
      parse_auth_header now8 hdr "device" (fun _ => Some key) false = RGrant (username_claim username).
  Proof.
    intros. eapply parse_complete; eauto. discriminate.
  Qed.
End AuthThm.
