(* C10 — specification, written independently of the code's control flow.

   1. passwords: an abstract machine over *passwords* (not hashes), and the closed form [last_password] for histories of
      API-level operations (PATCH /device, PUT /device, factory reset + reboot, restart);
   2. the authentication oracle: what a request carrying a given Authorization header must get, stated declaratively
      ("grant iff well-formed /\ HS256 /\ iss/ori /\ skew /\ signed with the named user's current password, at that
      user's level"), three-valued because the statement does not oblige the hub to accept unusual-but-valid tokens. *)
From QT Require Export C10.Model.
Open Scope string_scope.
Open Scope Z_scope.

(* ---------------------------------------------------------------------------------------------------------------- *)
(* 1. passwords *)

(* for each user: None = no password authenticates (hub not initialised), Some pw = exactly pw does *)
Record pws := { p_admin : option string; p_normal : option string; p_viewonly : option string }.

Definition get_pw (p : pws) (u : user) : option string :=
  match u with Admin => p_admin p | Normal => p_normal p | Viewonly => p_viewonly p end.

Definition set_pw (p : pws) (u : user) (v : option string) : pws :=
  match u with
  | Admin => {| p_admin := v; p_normal := p_normal p; p_viewonly := p_viewonly p |}
  | Normal => {| p_admin := p_admin p; p_normal := v; p_viewonly := p_viewonly p |}
  | Viewonly => {| p_admin := p_admin p; p_normal := p_normal p; p_viewonly := v |}
  end.

Definition no_pws : pws := {| p_admin := None; p_normal := None; p_viewonly := None |}.

Record pstate := { pcur : pws; psaved : option pws }.
Definition pinit : pstate := {| pcur := no_pws; psaved := None |}.

(* what is in force after loading: the saved password if there is one, else the current one, else the empty password *)
Definition restore (saved cur_v : option string) : option string :=
  match saved, cur_v with
  | Some p, _ => Some p
  | None, Some p => Some p
  | None, None => Some ""
  end.

Definition pload (s : pstate) : pstate :=
  let sv := match psaved s with Some x => x | None => no_pws end in
  {| pcur := {| p_admin := restore (p_admin sv) (p_admin (pcur s));
                p_normal := restore (p_normal sv) (p_normal (pcur s));
                p_viewonly := restore (p_viewonly sv) (p_viewonly (pcur s)) |};
     psaved := psaved s |}.

Definition pstep (s : pstate) (o : op) : pstate :=
  match o with
  | OSet u pw => {| pcur := set_pw (pcur s) u (Some pw); psaved := psaved s |}
  | OSetRefused _ _ => s      (* a refused change changes nothing *)
  | OSave => {| pcur := pcur s; psaved := Some (pcur s) |}
  | OLoad => pload s
  | OReset keep => {| pcur := if keep then pcur s else no_pws; psaved := None |}
  | ORestart => pload {| pcur := no_pws; psaved := psaved s |}
  end.

Definition prun (s : pstate) (ops : list op) : pstate := fold_left pstep ops s.

(* API-level histories *)
Inductive api_op :=
| APatch (l : list (user * string))   (* PATCH /device with these password attributes: set each, then save *)
| APatchRefused (u : user) (pw : string)
                                      (* PATCH /device with one password the system password command refuses: 500, no save *)
| APut                                (* PUT /device: reset preserving the hashes, load, (other attributes), save *)
| AFactoryReset                       (* POST /reset {factory: true}: reset, then the reboot it schedules *)
| ARestart.                           (* the server is restarted *)

Definition api_ops (a : api_op) : list op :=
  match a with
  | APatch l => map (fun '(u, pw) => OSet u pw) l ++ [OSave]
  | APatchRefused u pw => [OSetRefused u pw]
  | APut => [OReset true; OLoad; OSave]
  | AFactoryReset => [OReset false; ORestart]
  | ARestart => [ORestart]
  end%list.

Definition flatten_api (l : list api_op) : list op := flat_map api_ops l.

(* the last password set for u in one PATCH *)
Fixpoint last_in (l : list (user * string)) (u : user) (d : string) : string :=
  match l with
  | [] => d
  | (v, pw) :: r => last_in r u (if user_eqb v u then pw else d)
  end.

(* closed form: the password of u after a history that starts with the first boot of a fresh installation *)
Fixpoint last_password_from (d : string) (l : list api_op) (u : user) : string :=
  match l with
  | [] => d
  | APatch s :: r => last_password_from (last_in s u d) r u
  | AFactoryReset :: r => last_password_from "" r u
  | _ :: r => last_password_from d r u
  end.

Definition last_password (l : list api_op) (u : user) : string := last_password_from "" l u.

(* the admin password of a slave after the forwarded PATCH /device requests that succeeded (body admin_password or none):
   the last one submitted - whatever it is, the empty password included; the hub must know exactly that one *)
Fixpoint slave_password (pw : string) (sops : list sop) : string :=
  match sops with
  | [] => pw
  | SFwd (Some q) :: r => slave_password q r
  | _ :: r => slave_password pw r        (* no admin_password in the request; a rename does not touch the password *)
  end.

(* ---------------------------------------------------------------------------------------------------------------- *)
(* 2. the authentication oracle *)

(* ISSUING.  A header the hub makes for an outgoing request (calls to slaves, webhooks, reverse) carries as issue time the
   clock at the moment it is made - whole seconds - or none when the hub has no real date: issue_time = now.  (So it
   verifies at once, and for as long as the receiver's clock stays within the skew of that moment.) *)
Definition spec_issue_time (now8 : Z) : option Z :=
  if 8 * 1546304400 <? now8 then Some (now8 / 8) else None.

Inductive expect :=
| MustGrant (u : option user)   (* Some u: at u's level; None (device-origin check): accepted *)
| MustRefuse
| Either (u : option user).     (* refusing is allowed; granting only as u *)

(* the header as words separated by white space *)
Fixpoint words_aux (s : string) (w : string) (acc : list string) : list string :=
  match s with
  | EmptyString => rev (if (w =? "")%string then acc else w :: acc)
  | String a r =>
      if is_ws a then words_aux r "" (if (w =? "")%string then acc else w :: acc)
      else words_aux r (w ++ String a EmptyString) acc
  end.
Definition words (s : string) : list string := words_aux s "" [].

Definition lower_string (s : string) : string := string_of_list_ascii (map lower (list_ascii_of_string s)).

Section Oracle.
  Variable sha256hex : string -> string.
  Variable mac : string -> string -> string.
  Variable skew : Z.

  Definition plain_keys : list string := ["iss"; "ori"; "usr"; "iat"].

  (* 0 = not an issue time, 1 = acceptable but unusual, 2 = plain integer issue time within the skew *)
  Definition iat_class (now8 : Z) (v : option jval) : Z :=
    match v with
    | None => 2
    | Some JNull => 1
    | Some (JNum n8) =>
        if Z.abs (now8 - n8) <=? 8 * skew then (if n8 mod 8 =? 0 then 2 else 1)
        else if has_real now8 then 0 else 1
    | Some _ => if has_real now8 then 0 else 1   (* without a real clock the hub cannot judge issue times *)
    end.

  (* origin: "consumer" (key: the named user's current password) or "device" (key given, any usr) *)
  Definition expectation (p : pws) (now8 : Z) (hdr cand : string) (sp : parsed) (origin : string)
             (dev_key : option string) : expect :=
    match words hdr with
    | [w1; w2] =>
        if negb (lower_string w1 =? "bearer")%string then MustRefuse else
        if negb (w2 =? cand)%string then MustRefuse else
        match sp with
        | Malformed => MustRefuse
        | Tok t =>
            if negb (jeq_str (t_alg t) "HS256") then MustRefuse else
            if negb (jeq_str (claim t "iss") "qToggle") then MustRefuse else
            if negb (jeq_str (claim t "ori") origin) then MustRefuse else
            let ic := iat_class now8 (claim t "iat") in
            if ic =? 0 then MustRefuse else
            let who : option (option user * string) :=
              match dev_key with
              | Some k => if (k =? "")%string then None else Some (None, k)   (* no key configured: nobody gets in *)
              | None =>
                  match claim t "usr" with
                  | Some (JStr s) =>
                      match user_of_name s with
                      | Some u => match get_pw p u with Some pw => Some (Some u, sha256hex pw) | None => None end
                      | None => None
                      end
                  | _ => None
                  end
              end in
            match who with
            | None => MustRefuse
            | Some (u, key) =>
                if negb (t_sig t =? mac key (t_si t))%string then MustRefuse else
                let plain := (hdr =? "Bearer " ++ cand)%string && (ic =? 2)
                             && forallb (fun kv => existsb (String.eqb (fst kv)) plain_keys) (t_claims t) in
                if plain then MustGrant u else Either u
            end
        end
    | _ => MustRefuse
    end.

  (* no Authorization header: admin exactly when the admin password is empty (documented behaviour) *)
  Definition expectation_no_header (p : pws) : expect :=
    match p_admin p with
    | Some pw => if (pw =? "")%string then MustGrant (Some Admin) else MustRefuse
    | None => MustRefuse
    end.

  (* what GET /device may show about a password: whether it is empty *)
  Definition bit_spec (p : pws) (u : user) : string :=
    match get_pw p u with Some pw => if (pw =? "")%string then "" else "set" | None => "set" end.
End Oracle.
