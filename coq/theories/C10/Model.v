(* C10 — model of the authentication decision logic (definitions only).

   What of /repo is modelled (and nothing else):
     core/api/auth.py      parse_auth_header (the exact decision sequence), make_auth_header (claims it builds),
                           consumer_password_hash_func
     web/base.py           APIHandler.prepare (header -> access level; no header + empty admin password => admin)
     core/device/attrs.py  attr_set_password / attr_get_password, the three module-level hashes
     core/device/__init__  save / load / reset(preserve_attrs) ; a restart = module defaults + load
     PyJWT (installed 2.x) the *decisions* of jwt.decode(verify): algorithm allow-list, signature comparison, registered-claim
                           validation (iat/nbf/exp/aud/sub/jti).  Its token *parsing* is outside: [decode] is a Section
                           variable, and so are HMAC ([mac]) and SHA-256 ([sha256hex]) - with no assumption about them.

   Times are in eighths of a second (exact in binary64 at these magnitudes): now8 = 8 * time.time(). *)
From QT Require Export Base.Prelude.
Open Scope string_scope.
Open Scope Z_scope.

(* ---------------------------------------------------------------------------------------------------------------- *)
(* users and levels (core/api/__init__.py, the ACCESS_LEVEL constants) *)

Inductive user := Admin | Normal | Viewonly.

Definition user_name (u : user) : string :=
  match u with Admin => "admin" | Normal => "normal" | Viewonly => "viewonly" end.

Definition level_of (u : user) : Z := match u with Admin => 30 | Normal => 20 | Viewonly => 10 end.

Definition user_of_name (s : string) : option user :=
  if (s =? "admin")%string then Some Admin else if (s =? "normal")%string then Some Normal
  else if (s =? "viewonly")%string then Some Viewonly else None.

Definition user_eqb (a b : user) : bool :=
  match a, b with Admin, Admin | Normal, Normal | Viewonly, Viewonly => true | _, _ => false end.

(* ---------------------------------------------------------------------------------------------------------------- *)
(* JSON values as far as the decisions can tell them apart.  JNum n8 is the number n8/8; JBig an integer beyond the float
   range (float - int raises OverflowError); arrays and objects only carry their truthiness. *)

Inductive jval :=
| JNull | JBool (b : bool) | JNum (n8 : Z) | JBig (neg : bool) | JNaN | JInf (neg : bool)
| JStr (s : string) | JArr (nonempty : bool) | JObj (nonempty : bool).

Definition jval_eqb (a b : jval) : bool :=
  match a, b with
  | JNull, JNull | JNaN, JNaN => true
  | JBool x, JBool y | JBig x, JBig y | JInf x, JInf y | JArr x, JArr y | JObj x, JObj y => Bool.eqb x y
  | JNum x, JNum y => x =? y
  | JStr x, JStr y => (x =? y)%string
  | _, _ => false
  end.

(* python:  v == s   for a str s *)
Definition jeq_str (v : option jval) (s : string) : bool :=
  match v with Some (JStr t) => (t =? s)%string | _ => false end.

(* python truthiness *)
Definition truthy (v : jval) : bool :=
  match v with
  | JNull => false | JBool b => b | JNum n => negb (n =? 0) | JBig _ | JNaN | JInf _ => true
  | JStr s => negb (s =? "")%string | JArr b | JObj b => b
  end.

Definition is_str (v : jval) : bool := match v with JStr _ => true | _ => false end.

Fixpoint assoc {A} (k : string) (l : list (string * A)) : option A :=
  match l with
  | [] => None
  | (k', v) :: r => if (k' =? k)%string then Some v else assoc k r
  end.

(* ---------------------------------------------------------------------------------------------------------------- *)
(* what PyJWT's (unverified) decoding makes of a token text *)

Record token := {
  t_alg : option jval;              (* header.get("alg") *)
  t_claims : list (string * jval);  (* the payload object (keys unique) *)
  t_si : string;                    (* signing input *)
  t_sig : string                    (* signature bytes *)
}.

Inductive parsed := Malformed | Tok (t : token).

Definition claim (t : token) (k : string) : option jval := assoc k (t_claims t).

(* ---------------------------------------------------------------------------------------------------------------- *)
(* _AUTH_TOKEN_RE = re.compile(r'^Bearer\s+([a-z0-9_.-]+)$', re.IGNORECASE), used with .match on a str whose code points
   are < 256 (what tornado hands over).  \s and the token class are disjoint, so the match is deterministic. *)

Definition code (a : ascii) : Z := Z.of_N (N_of_ascii a).

Definition is_ws (a : ascii) : bool :=
  let c := code a in ((9 <=? c) && (c <=? 13)) || ((28 <=? c) && (c <=? 32)) || (c =? 133) || (c =? 160).

Definition is_tokc (a : ascii) : bool :=
  let c := code a in
  ((48 <=? c) && (c <=? 57)) || ((65 <=? c) && (c <=? 90)) || ((97 <=? c) && (c <=? 122))
  || (c =? 95) || (c =? 46) || (c =? 45).

Definition lower (a : ascii) : ascii :=
  let c := code a in if (65 <=? c) && (c <=? 90) then byte_to_ascii (c + 32) else a.

(* strip the (lower-case) prefix p from s, ignoring case *)
Fixpoint ci_strip (p s : string) : option string :=
  match p with
  | EmptyString => Some s
  | String a p' =>
      match s with
      | String b s' => if Ascii.eqb (lower b) a then ci_strip p' s' else None
      | EmptyString => None
      end
  end.

Fixpoint skip_ws (s : string) : string :=
  match s with
  | String a r => if is_ws a then skip_ws r else s
  | EmptyString => s
  end.

Fixpoint span_tok (s : string) : string * string :=
  match s with
  | String a r => if is_tokc a then let '(t, rest) := span_tok r in (String a t, rest) else (EmptyString, s)
  | EmptyString => (EmptyString, EmptyString)
  end.

Definition nl : string := String (byte_to_ascii 10) EmptyString.

Definition bearer_token (hdr : string) : option string :=
  match ci_strip "bearer" hdr with
  | Some (String a r) =>
      if is_ws a then
        let '(tok, rest) := span_tok (skip_ws r) in
        if (tok =? "")%string then None
        else if (rest =? "")%string || (rest =? nl)%string then Some tok else None
      else None
  | _ => None
  end.

(* ---------------------------------------------------------------------------------------------------------------- *)
(* the three password hashes and the persisted 'device' record *)

Record hashes := { h_admin : option string; h_normal : option string; h_viewonly : option string }.

Definition get_hash (h : hashes) (u : user) : option string :=
  match u with Admin => h_admin h | Normal => h_normal h | Viewonly => h_viewonly h end.

Definition set_hash (h : hashes) (u : user) (v : option string) : hashes :=
  match u with
  | Admin => {| h_admin := v; h_normal := h_normal h; h_viewonly := h_viewonly h |}
  | Normal => {| h_admin := h_admin h; h_normal := v; h_viewonly := h_viewonly h |}
  | Viewonly => {| h_admin := h_admin h; h_normal := h_normal h; h_viewonly := v |}
  end.

Definition no_hashes : hashes := {| h_admin := None; h_normal := None; h_viewonly := None |}.

Record state := {
  cur : hashes;            (* core.device.attrs.{admin,normal,viewonly}_password_hash *)
  store : option hashes    (* the persisted record 'device' (None: absent); a field None: stored as null *)
}.

Definition init_state : state := {| cur := no_hashes; store := None |}.

Inductive op :=
| OSet (u : user) (pw : string)   (* attr_set_password(which, value) *)
| OSetRefused (u : user) (pw : string)
                                  (* attr_set_password when settings.core.passwords.set_cmd fails for this password: the
                                     command runs BEFORE the hash is assigned, the exception leaves everything as it was *)
| OSave                           (* core.device.save() *)
| OLoad                           (* core.device.load() *)
| OReset (keep : bool)            (* core.device.reset(preserve_attrs = the three hashes / nothing) *)
| ORestart.                       (* new process: module defaults, then load() *)

(* python:  not h   (None or '') *)
Definition falsy_hash (h : option string) : bool :=
  match h with None => true | Some s => (s =? "")%string end.

(* what happens to a slave through the hub: a forwarded PATCH /device that succeeded (its admin_password, or none), or a
   rename of the slave (PATCH .../forward/device {"name": ...}, a provisioned rename, or a new name seen by poll/listen),
   upon which the hub removes the slave and adds it again under the new name *)
Inductive sop := SFwd (pw : option string) | SRename.

Section Passwords.
  Variable sha256hex : string -> string.

  Definition empty_hash : string := sha256hex "".

  (* load(): a stored non-None value replaces the current one; then "hash empty passwords" *)
  Definition load_one (stored cur_v : option string) : option string :=
    let v := match stored with Some x => Some x | None => cur_v end in
    if falsy_hash v then Some empty_hash else v.

  Definition load (st : state) : state :=
    let s := match store st with Some s => s | None => no_hashes end in
    {| cur := {| h_admin := load_one (h_admin s) (h_admin (cur st));
                 h_normal := load_one (h_normal s) (h_normal (cur st));
                 h_viewonly := load_one (h_viewonly s) (h_viewonly (cur st)) |};
       store := store st |}.

  Definition step (st : state) (o : op) : state :=
    match o with
    | OSet u pw => {| cur := set_hash (cur st) u (Some (sha256hex pw)); store := store st |}
    | OSetRefused _ _ => st
    | OSave => {| cur := cur st; store := Some (cur st) |}
    | OLoad => load st
    | OReset keep => {| cur := if keep then cur st else no_hashes; store := None |}
    | ORestart => load {| cur := no_hashes; store := store st |}
    end.

  Definition run (st : state) (ops : list op) : state := fold_left step ops st.

  (* attr_get_password:  ['set', ''][hash == EMPTY_PASSWORD_HASH] *)
  Definition pw_bit (st : state) (u : user) : string :=
    match get_hash (cur st) u with
    | Some h => if (h =? empty_hash)%string then "" else "set"
    | None => "set"
    end.

  (* attrs.to_json(): the other attributes do not read the hashes; the password attributes are the bits above *)
  Definition device_json (others : list (string * jval)) (st : state) : list (string * jval) :=
    (others ++ [("admin_password", JStr (pw_bit st Admin)); ("normal_password", JStr (pw_bit st Normal));
                ("viewonly_password", JStr (pw_bit st Viewonly))])%list.

  (* ------------------------------------------------------------------------------------------------------------ *)
  (* the hub's credential for one slave (slaves/devices.py): Slave._admin_password_hash starts as sha256(admin_password
     given when the slave is added); Slave.intercept_response replaces it after every SUCCESSFUL forwarded
     PATCH /device whose body has an admin_password that `is not None` - the empty password included *)
  Definition track (h : string) (o : sop) : string :=
    match o with
    | SFwd (Some p) => sha256hex p
    | SFwd None => h
    | SRename => h     (* _handle_rename: remove, then add(..., admin_password_hash=h): Slave.__init__ takes the hash as is *)
    end.

  Definition hub_slave_hash (pw0 : string) (sops : list sop) : string :=
    fold_left track sops (sha256hex pw0).
End Passwords.

(* what GET /devices (Slave.to_json) and an intercepted GET .../forward/device show for a password attribute of a slave:
   the slave's own "set"/"" answer, or - while a new password waits to be provisioned to an offline slave - the same bit
   of the pending value (after fixes/C10-mask-pending-slave-passwords.diff; the code before it is in History/C10Old.v) *)
Definition slave_doc_pw (pending : option string) (slave_bit : string) : string :=
  match pending with
  | Some p => if (p =? "")%string then "" else "set"
  | None => slave_bit
  end.

(* ---------------------------------------------------------------------------------------------------------------- *)
(* python's int() on a claim value, as far as _validate_iat/_nbf/_exp can tell *)

Inductive pyint := IOk (z : Z) | IBig (neg : bool) | IValueError | ICrash.

Definition digit_of (a : ascii) : option Z :=
  let c := code a in if (48 <=? c) && (c <=? 57) then Some (c - 48) else None.

Fixpoint digits (s : string) (acc : Z) : option Z :=
  match s with
  | EmptyString => Some acc
  | String a r => match digit_of a with Some d => digits r (10 * acc + d) | None => None end
  end.

(* int(str) for the simple shapes  [+-]?[0-9]+  (the only ones the harness generates); anything else: ValueError *)
Definition int_of_string (s : string) : option Z :=
  match s with
  | String a r =>
      if Ascii.eqb a "-"%char then (if (r =? "")%string then None else option_map Z.opp (digits r 0))
      else if Ascii.eqb a "+"%char then (if (r =? "")%string then None else digits r 0)
      else digits s 0
  | EmptyString => None
  end.

Definition py_int (v : jval) : pyint :=
  match v with
  | JNull => ICrash                     (* TypeError *)
  | JBool b => IOk (if b then 1 else 0)
  | JNum n8 => IOk (Z.quot n8 8)        (* truncation toward zero *)
  | JBig neg => IBig neg
  | JNaN => IValueError
  | JInf _ => ICrash                    (* OverflowError *)
  | JStr s => match int_of_string s with Some z => IOk z | None => IValueError end
  | JArr _ | JObj _ => ICrash           (* TypeError *)
  end.

Inductive chk := COk | CRefuse | CCrash.

Definition andthen (a b : chk) : chk := match a with COk => b | _ => a end.

Definition OLD_TIME_LIMIT : Z := 1546304400.
Definition has_real (now8 : Z) : bool := 8 * OLD_TIME_LIMIT <? now8.

Inductive res := RGrant (usr : option jval) | RRefuse | RCrash.

Section Auth.
  Variable mac : string -> string -> string.     (* HMAC-SHA256 key message *)
  Variable decode : string -> parsed.            (* PyJWT: token text -> header / payload / signing input / signature *)
  Variable skew : Z.                             (* settings.core.max_client_time_skew *)

  (* parse_auth_header's own test:   delta = time.time() - iat ;  abs(delta) > skew  *)
  Definition iat_skew_check (now8 : Z) (v : jval) : chk :=
    match v with
    | JNull => COk
    | JBool b => if Z.abs (now8 - (if b then 8 else 0)) >? 8 * skew then CRefuse else COk
    | JNum n8 => if Z.abs (now8 - n8) >? 8 * skew then CRefuse else COk
    | JBig _ => CCrash        (* OverflowError: int too large to convert to float *)
    | JNaN => COk             (* abs(nan) > skew is False *)
    | JInf _ => CRefuse
    | JStr _ | JArr _ | JObj _ => CCrash   (* TypeError *)
    end.

  (* PyJWT _validate_iat / _validate_nbf:  int(v) ; v > now + leeway -> refused *)
  Definition not_after (now8 : Z) (v : jval) : chk :=
    match py_int v with
    | IOk i => if 8 * i >? now8 + 8 * skew then CRefuse else COk
    | IBig neg => if neg then COk else CRefuse
    | IValueError => CRefuse
    | ICrash => CCrash
    end.

  (* PyJWT _validate_exp:  int(v) ; v <= now - leeway -> refused *)
  Definition not_expired (now8 : Z) (v : jval) : chk :=
    match py_int v with
    | IOk e => if 8 * e <=? now8 - 8 * skew then CRefuse else COk
    | IBig neg => if neg then CRefuse else COk
    | IValueError => CRefuse
    | ICrash => CCrash
    end.

  Definition opt_chk (v : option jval) (f : jval -> chk) : chk := match v with Some x => f x | None => COk end.

  (* PyJWT _validate_claims with default options, audience = issuer = subject = None, leeway = skew *)
  Definition validate_claims (now8 : Z) (t : token) : chk :=
    andthen (opt_chk (claim t "iat") (not_after now8))
   (andthen (opt_chk (claim t "nbf") (not_after now8))
   (andthen (opt_chk (claim t "exp") (not_expired now8))
   (andthen (opt_chk (claim t "aud") (fun v => if truthy v then CRefuse else COk))
   (andthen (opt_chk (claim t "sub") (fun v => if is_str v then COk else CRefuse))
            (opt_chk (claim t "jti") (fun v => if is_str v then COk else CRefuse)))))).

  Definition alg_is_hs256 (t : token) : bool := jeq_str (t_alg t) "HS256".

  Definition nonempty_str (v : option jval) : bool :=
    match v with Some (JStr s) => negb (s =? "")%string | _ => false end.

  Definition parse_auth_header (now8 : Z) (hdr origin : string) (hash_func : option jval -> option string)
             (require_usr : bool) : res :=
    match bearer_token hdr with
    | None => RRefuse                                                  (* Invalid authorization header *)
    | Some tok =>
    match decode tok with
    | Malformed => RRefuse                                             (* Invalid JWT *)
    | Tok t =>
      if negb (jeq_str (claim t "iss") "qToggle") then RRefuse else
      if negb (jeq_str (claim t "ori") origin) then RRefuse else
      match (match claim t "iat" with
             | Some v => if has_real now8 then iat_skew_check now8 v else COk
             | None => COk
             end) with
      | CRefuse => RRefuse                                             (* too old or too much in the future *)
      | CCrash => RCrash
      | COk =>
        let usr := claim t "usr" in
        if require_usr && negb (nonempty_str usr) then RRefuse else
        match hash_func usr with
        | None => RRefuse                                              (* Unknown usr *)
        | Some h =>
          if (h =? "")%string then RRefuse else
          (* jwt.decode(token, key=h, algorithms=[HS256], verify) *)
          if negb (alg_is_hs256 t) then RRefuse else
          if negb (t_sig t =? mac h (t_si t))%string then RRefuse else
          match validate_claims now8 t with
          | CRefuse => RRefuse
          | CCrash => RCrash
          | COk => RGrant usr
          end
        end
      end
    end
    end.

  (* consumer_password_hash_func *)
  Definition consumer_hash (h : hashes) (usr : option jval) : option string :=
    if jeq_str usr "admin" then h_admin h
    else if jeq_str usr "normal" then h_normal h
    else if jeq_str usr "viewonly" then h_viewonly h
    else None.

  Definition consumer_auth (h : hashes) (now8 : Z) (hdr : string) : res :=
    parse_auth_header now8 hdr "consumer" (consumer_hash h) true.

  (* who the header authenticates *)
  Definition grant (h : hashes) (now8 : Z) (hdr : string) : option user :=
    match consumer_auth h now8 hdr with
    | RGrant (Some (JStr s)) => user_of_name s
    | _ => None
    end.

  (* APIHandler.prepare + GET /access: the level seen by the API function; -1 = the request ends in HTTP 500 *)
  Definition prepare (empty_hash : string) (h : hashes) (now8 : Z) (auth : option string) : Z :=
    let missing :=
      match h_admin h with
      | Some a => if (a =? empty_hash)%string then 30 else 0
      | None => 0
      end in
    match auth with
    | None => missing
    | Some a =>
        if (a =? "")%string then missing else
        match consumer_auth h now8 a with
        | RGrant (Some (JStr s)) => match user_of_name s with Some u => level_of u | None => -1 end
        | RGrant _ => -1
        | RRefuse => 0
        | RCrash => -1
        end
    end.

  (* make_auth_header: the claims it signs.  iat = int(time.time()) when the issuer has a real clock *)
  Definition issue_iat (now8 : Z) : option Z := if has_real now8 then Some (now8 / 8) else None.

  Definition make_claims (origin : string) (username : option string) (iat : option Z) : list (string * jval) :=
    ([("iss", JStr "qToggle"); ("ori", JStr origin)]
     ++ (match username with Some s => if (s =? "")%string then [] else [("usr", JStr s)] | None => [] end)
     ++ (match iat with Some i => [("iat", JNum (8 * i))] | None => [] end))%list.

  Definition tok_ok (tok : string) : bool :=
    negb (tok =? "")%string && forallb is_tokc (list_ascii_of_string tok).

  Definition claim_keys : list string := ["iss"; "ori"; "usr"; "iat"; "nbf"; "exp"; "aud"; "sub"; "jti"].

  (* the two claim sets agree on every key the decision looks at and have the same keys *)
  Definition same_claims (a b : list (string * jval)) : bool :=
    forallb (fun k => option_eqb jval_eqb (assoc k a) (assoc k b)) (claim_keys ++ map fst a ++ map fst b)%list.

  (* hdr is what make_auth_header(origin, username, key) returns: "Bearer " + an HS256 token over exactly those claims,
     signed with [key or ''] (executable; the harness evaluates it on the real function's output) *)
  Definition issuedb (origin : string) (username : option string) (key : string) (iat : option Z) (hdr : string) : bool :=
    match ci_strip "bearer " hdr with
    | Some tok =>
        (hdr =? "Bearer " ++ tok)%string && tok_ok tok &&
        match decode tok with
        | Tok t => alg_is_hs256 t && same_claims (t_claims t) (make_claims origin username iat)
                   && (t_sig t =? mac key (t_si t))%string
        | Malformed => false
        end
    | None => false
    end.
End Auth.
