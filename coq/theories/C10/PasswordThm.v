(* C10 — the hash in force is the hash of the last password set, across save / load / reset / restart;
   the device document depends on the hashes only through the "set"/"" bit. *)
From QT Require Import C10.Model C10.Spec.
Open Scope string_scope.
Open Scope Z_scope.

Section PasswordThm.
  Variable sha256hex : string -> string.
  Hypothesis sha_nonempty : forall pw, sha256hex pw <> "".

  Notation step := (step sha256hex).
  Notation run := (run sha256hex).
  Notation load_one := (load_one sha256hex).

  Definition hash_pws (p : pws) : hashes :=
    {| h_admin := option_map sha256hex (p_admin p); h_normal := option_map sha256hex (p_normal p);
       h_viewonly := option_map sha256hex (p_viewonly p) |}.

  (* the simulation relation between the hash machine (model) and the password machine (specification) *)
  Definition sim (st : state) (ps : pstate) : Prop :=
    cur st = hash_pws (pcur ps) /\ store st = option_map hash_pws (psaved ps).

  Lemma load_one_restore :
    forall s c, load_one (option_map sha256hex s) (option_map sha256hex c) = option_map sha256hex (restore s c).
  Proof.
    intros [s|] [c|]; unfold Model.load_one, restore, falsy_hash; simpl.
    - destruct (sha256hex s =? "")%string eqn:E; [apply String.eqb_eq in E; now apply sha_nonempty in E | reflexivity].
    - destruct (sha256hex s =? "")%string eqn:E; [apply String.eqb_eq in E; now apply sha_nonempty in E | reflexivity].
    - destruct (sha256hex c =? "")%string eqn:E; [apply String.eqb_eq in E; now apply sha_nonempty in E | reflexivity].
    - reflexivity.
  Qed.

  Lemma load_sim : forall st ps, sim st ps -> sim (load sha256hex st) (pload ps).
  Proof.
    intros st ps [Hc Hs]. unfold sim, load, pload. simpl. rewrite Hs, Hc. split; [|reflexivity].
    destruct (psaved ps) as [sv|]; simpl; unfold hash_pws; simpl; f_equal;
      try apply load_one_restore;
      try (apply (load_one_restore None)).
  Qed.

  Lemma step_sim : forall st ps o, sim st ps -> sim (step st o) (pstep ps o).
  Proof.
    intros st ps o H. destruct o.
    - destruct H as [Hc Hs]. unfold sim. simpl. rewrite Hc, Hs. split; [|reflexivity]. now destruct u.
    - exact H.
    - destruct H as [Hc Hs]. unfold sim. simpl. rewrite Hc. split; reflexivity.
    - now apply load_sim.
    - destruct H as [Hc Hs]. unfold sim. simpl. destruct keep; [rewrite Hc|]; split; reflexivity.
    - simpl. apply load_sim. destruct H as [Hc Hs]. unfold sim. simpl. split; [reflexivity|assumption].
  Qed.

  Lemma run_sim : forall ops st ps, sim st ps -> sim (run st ops) (prun ps ops).
  Proof.
    induction ops as [|o r IH]; intros st ps H; [exact H|]. simpl. apply IH. now apply step_sim.
  Qed.

  Lemma init_sim : sim init_state pinit.
  Proof. split; reflexivity. Qed.

  Lemma get_hash_pws : forall p u, get_hash (hash_pws p) u = option_map sha256hex (get_pw p u).
  Proof. now intros p []. Qed.

  (* for every sequence of primitive operations: the model's hash of u is the hash of the specification's password *)
  Theorem hash_tracks_password :
    forall ops u,
      get_hash (cur (run init_state ops)) u = option_map sha256hex (get_pw (pcur (prun pinit ops)) u).
  Proof.
    intros ops u. destruct (run_sim ops _ _ init_sim) as [Hc _]. rewrite Hc. apply get_hash_pws.
  Qed.

  (* ------------------------------------------------------------------------------------------------------------ *)
  (* closed form for API-level histories (pure specification side) *)

  Definition all_set (p : pws) (a n v : string) : Prop := p = {| p_admin := Some a; p_normal := Some n; p_viewonly := Some v |}.

  (* passwords (a, n, v) are in force and a restart keeps them *)
  Definition stable (ps : pstate) (a n v : string) : Prop :=
    all_set (pcur ps) a n v /\ (psaved ps = Some (pcur ps) \/ (psaved ps = None /\ a = "" /\ n = "" /\ v = "")).

  Lemma sets_fold :
    forall l ps a n v,
      all_set (pcur ps) a n v ->
      let ps' := prun ps (map (fun '(u, pw) => OSet u pw) l) in
      all_set (pcur ps') (last_in l Admin a) (last_in l Normal n) (last_in l Viewonly v) /\ psaved ps' = psaved ps.
  Proof.
    induction l as [|[u pw] r IH]; intros ps a n v H; simpl; [now split|].
    specialize (IH (pstep ps (OSet u pw))
                   (if user_eqb u Admin then pw else a) (if user_eqb u Normal then pw else n)
                   (if user_eqb u Viewonly then pw else v)).
    simpl in IH. apply IH. unfold all_set in *. rewrite H. now destruct u.
  Qed.

  Definition upd (a : api_op) (u : user) (d : string) : string :=
    match a with APatch s => last_in s u d | AFactoryReset => "" | _ => d end.

  (* a refused change changes nothing: neither the hashes nor the persisted record *)
  Theorem refused_change_no_change : forall st u pw, step st (OSetRefused u pw) = st.
  Proof. reflexivity. Qed.

  Theorem refused_patch_no_change :
    forall ops u pw, run init_state (ops ++ api_ops (APatchRefused u pw)) = run init_state ops.
  Proof. intros. unfold Model.run. rewrite fold_left_app. reflexivity. Qed.

  (* PUT /device (reset preserving the hashes, load, save) keeps the three hashes and persists them *)
  Theorem put_keeps_hashes :
    forall st a n v,
      cur st = {| h_admin := Some a; h_normal := Some n; h_viewonly := Some v |} -> a <> "" -> n <> "" -> v <> "" ->
      let st' := run st (api_ops APut) in cur st' = cur st /\ store st' = Some (cur st).
  Proof.
    intros st a n v Hc Ha Hn Hv. simpl. unfold load, Model.load_one, falsy_hash. simpl. rewrite Hc. simpl.
    apply String.eqb_neq in Ha, Hn, Hv. rewrite Ha, Hn, Hv. split; reflexivity.
  Qed.

  (* what the hub shows about a slave's password is "set"/"" whenever the slave's own answer is *)
  Theorem slave_doc_bit_only :
    forall pending bit, bit = "" \/ bit = "set" -> slave_doc_pw pending bit = "" \/ slave_doc_pw pending bit = "set".
  Proof.
    intros [p|] bit H; simpl; [|exact H]. destruct (p =? "")%string; [now left|now right].
  Qed.

  (* the hub's hash for a slave is the hash of the slave's current admin password after any forwarded changes *)
  Theorem slave_hash_tracks :
    forall sops pw0, hub_slave_hash sha256hex pw0 sops = sha256hex (slave_password pw0 sops).
  Proof.
    unfold hub_slave_hash. induction sops as [|[[q|]|] r IH]; intros pw0; simpl; [reflexivity| | |]; apply IH.
  Qed.

  (* renaming the slave (any number of times, anywhere in the history) does not change the hash the hub keeps for it *)
  Theorem slave_hash_rename_invariant :
    forall pw0 a b, hub_slave_hash sha256hex pw0 (a ++ SRename :: b) = hub_slave_hash sha256hex pw0 (a ++ b).
  Proof. intros. unfold hub_slave_hash. rewrite !fold_left_app. reflexivity. Qed.

  Lemma api_stable :
    forall o ps a n v, stable ps a n v -> stable (prun ps (api_ops o)) (upd o Admin a) (upd o Normal n) (upd o Viewonly v).
  Proof.
    intros o ps a n v [Hc Hs]. destruct o; simpl.
    - (* PATCH *)
      unfold prun. rewrite fold_left_app. fold (prun ps (map (fun '(u, pw) => OSet u pw) l)).
      destruct (sets_fold l ps a n v Hc) as [Hc' _]. simpl. split; [exact Hc'|left; reflexivity].
    - (* refused PATCH *) split; assumption.
    - (* PUT: reset keeping the passwords, load, save *)
      unfold all_set in Hc. split; [|left; reflexivity]. simpl. rewrite Hc. reflexivity.
    - (* factory reset and the reboot it schedules *)
      split; [reflexivity|]. right. simpl. repeat split; reflexivity.
    - (* restart *)
      unfold all_set in Hc. destruct Hs as [Hs|(Hs & -> & -> & ->)].
      + split; [|left]; simpl; rewrite Hs, Hc; reflexivity.
      + split; [|right; repeat split; assumption]. simpl. rewrite Hs. reflexivity.
  Qed.

  Lemma last_password_from_upd :
    forall l u d o, last_password_from d (o :: l) u = last_password_from (upd o u d) l u.
  Proof. intros l u d []; reflexivity. Qed.

  Lemma api_run :
    forall l ps a n v, stable ps a n v ->
      stable (prun ps (flatten_api l)) (last_password_from a l Admin) (last_password_from n l Normal)
             (last_password_from v l Viewonly).
  Proof.
    induction l as [|o r IH]; intros ps a n v H; [exact H|].
    unfold flatten_api. simpl flat_map. unfold prun. rewrite fold_left_app.
    rewrite !last_password_from_upd. apply IH. now apply api_stable.
  Qed.

  Lemma boot_stable : stable (prun pinit [ORestart]) "" "" "".
  Proof. split; [reflexivity|]. right. repeat split; reflexivity. Qed.

  (* the password in force after the first boot of a fresh installation followed by any API history *)
  Theorem password_after_history :
    forall l u, get_pw (pcur (prun pinit (ORestart :: flatten_api l))) u = Some (last_password l u).
  Proof.
    intros l u.
    change (prun pinit (ORestart :: flatten_api l)) with (prun (prun pinit [ORestart]) (flatten_api l)).
    destruct (api_run l _ _ _ _ boot_stable) as [Hc _]. unfold all_set in Hc. rewrite Hc. now destruct u.
  Qed.

  (* C10_password_history *)
  Theorem password_history :
    forall l u,
      get_hash (cur (run init_state (ORestart :: flatten_api l))) u = Some (sha256hex (last_password l u)).
  Proof.
    intros l u. rewrite hash_tracks_password, password_after_history. reflexivity.
  Qed.

  (* in particular: save then restart changes nothing, and an unsaved change is lost by a restart *)
  Corollary save_restart_keeps :
    forall ops u, get_hash (cur (run init_state (ops ++ [OSave; ORestart]))) u
                  = match get_hash (cur (run init_state ops)) u with
                    | Some h => Some h
                    | None => Some (sha256hex "")
                    end.
  Proof.
    intros ops u. rewrite !hash_tracks_password. unfold Spec.prun. rewrite fold_left_app.
    fold (prun pinit ops). simpl. destruct (pcur (prun pinit ops)) as [a n v]. destruct u; simpl.
    - destruct a; reflexivity.
    - destruct n; reflexivity.
    - destruct v; reflexivity.
  Qed.

  (* ------------------------------------------------------------------------------------------------------------ *)
  (* the device document *)

  Theorem no_secret_in_device_json :
    forall others st st',
      (forall u, pw_bit sha256hex st u = pw_bit sha256hex st' u) ->
      device_json sha256hex others st = device_json sha256hex others st'.
  Proof. intros others st st' H. unfold device_json. now rewrite !H. Qed.

  Theorem pw_bit_values : forall st u, pw_bit sha256hex st u = "" \/ pw_bit sha256hex st u = "set".
  Proof.
    intros st u. unfold pw_bit. destruct (get_hash (cur st) u) as [h|]; [|now right].
    destruct (h =? empty_hash sha256hex)%string; [now left|now right].
  Qed.

  (* what the bit says after a history: "" for the empty password; "set" otherwise unless the password collides with "" *)
  Theorem pw_bit_after_history :
    forall l u,
      let st := run init_state (ORestart :: flatten_api l) in
      (last_password l u = "" -> pw_bit sha256hex st u = "")
      /\ (sha256hex (last_password l u) <> sha256hex "" -> pw_bit sha256hex st u = "set").
  Proof.
    intros l u st. unfold pw_bit. subst st. rewrite password_history. unfold empty_hash. split.
    - intros ->. now rewrite String.eqb_refl.
    - intros H. apply String.eqb_neq in H. now rewrite H.
  Qed.
End PasswordThm.
